// Observation reproducer (UNCHANGED library): a copied BKLDLT keeps column pointers into the
// source object's packed storage
#include <Eigen/Core>
#include <Spectra/LinAlg/BKLDLT.h>
#include <iostream>
using namespace Spectra;
int main()
{
    const int n = 6;
    Eigen::MatrixXd A(n, n), B(n, n);
    for (int i = 0; i < n; i++)
        for (int j = 0; j < n; j++)
        {
            A(i, j) = ((i + 1) * (j + 1)) % 5 - 2.0 + (i == j ? 7.0 : 0.0);
            B(i, j) = ((i + 2) * (j + 2)) % 7 - 3.0 + (i == j ? -9.0 : 0.0);
        }
    A = (A + A.transpose()).eval();
    B = (B + B.transpose()).eval();
    Eigen::VectorXd b = Eigen::VectorXd::LinSpaced(n, 1.0, 2.0);

    BKLDLT<double> f1(A);
    BKLDLT<double> f2 = f1;  // copy: f2 should stay a factorization of A
    std::cout << "copy, before the source is reused: ||A x - b|| = " << (A * f2.solve(b) - b).norm() << std::endl;
    f1.compute(B);           // reuse the source object for another matrix
    const double r = (A * f2.solve(b) - b).norm();
    std::cout << "copy, after the source factorized B: ||A x - b|| = " << r
              << "   (||B x - b|| = " << (B * f2.solve(b) - b).norm() << ")" << std::endl;
    return r < 1e-10 ? 0 : 1;
}
