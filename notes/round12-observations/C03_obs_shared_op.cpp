// Observation (unchanged library): the shift lives in the user's SymShiftInvert object, not in the solver.
// Two solvers built on ONE SymShiftInvert object with different shifts: the second constructor
// re-factorizes with its own shift; the first solver then iterates with the wrong operator but
// back-transforms with its own sigma, and reports wrong pairs as converged.
#include <Eigen/Core>
#include <Spectra/SymGEigsShiftSolver.h>
#include <Spectra/MatOp/SymShiftInvert.h>
#include <Spectra/MatOp/DenseSymMatProd.h>
#include <cstdio>
using namespace Spectra;
int main()
{
    const int n = 30;
    Eigen::MatrixXd A = Eigen::MatrixXd::Zero(n, n), B = Eigen::MatrixXd::Identity(n, n);
    for (int i = 0; i < n; i++) { A(i, i) = i + 1; if (i) { A(i, i - 1) = A(i - 1, i) = 0.1; B(i, i - 1) = B(i - 1, i) = 0.05; } }
    typedef SymShiftInvert<double, Eigen::Dense, Eigen::Dense> OpType;
    typedef DenseSymMatProd<double> BOpType;
    OpType op(A, B);
    BOpType Bop(B);
    SymGEigsShiftSolver<OpType, BOpType, GEigsMode::ShiftInvert> s1(op, Bop, 3, 10, 5.3);
    SymGEigsShiftSolver<OpType, BOpType, GEigsMode::ShiftInvert> s2(op, Bop, 3, 10, 20.7);  // overwrites the factorization used by s1
    s1.init();
    int nconv = s1.compute(SortRule::LargestMagn);
    Eigen::VectorXd lam = s1.eigenvalues();
    Eigen::MatrixXd X = s1.eigenvectors();
    double worst = 0;
    for (int i = 0; i < nconv; i++)
        worst = std::max(worst, (A * X.col(i) - lam[i] * B * X.col(i)).norm() / X.col(i).norm());
    std::printf("info ok = %d, nconv = %d, lambda = %g %g %g, worst residual = %.3e\n",
                int(s1.info() == CompInfo::Successful), nconv, lam[0], lam[1], lam[2], worst);
    return worst < 1e-8 ? 0 : 1;
}
