// Observation (UNCHANGED library): a fault of the B-operator inside Arnoldi::compress_V()
// (the B-norm of the new residual, called from restart()) leaves the factorization advertising
// subspace_dim() == k with a residual f that has been replaced while f_norm() is still the old one.
// A compute() WITHOUT a new init() then continues silently, whereas after a fault inside
// factorize_from() it is refused ("from_k is larger than the current subspace dimension").
// (The property C14 itself, init() + compute(), is not affected: init() rebuilds everything.)
//
// g++ -std=c++11 -O1 -I<WT>/include -I/usr/include/eigen3 obs_repro.cpp -o obs_repro

#include <Eigen/Core>
#include <Eigen/Cholesky>
#include <Spectra/SymGEigsSolver.h>
#include <Spectra/MatOp/DenseSymMatProd.h>
#include <iostream>
#include <stdexcept>

using namespace Spectra;
typedef Eigen::MatrixXd Matrix;
typedef Eigen::VectorXd Vector;

struct Fault
{
    long k;
};

// User B-operator for the regular-inverse mode: y = B x (may fail) and y = inv(B) x
class FlakyB
{
public:
    using Scalar = double;
    const Matrix& B;
    Eigen::LLT<Matrix> llt;
    mutable long calls;
    long fail_at;
    FlakyB(const Matrix& B_, long fail_at_) :
        B(B_), llt(B_), calls(0), fail_at(fail_at_) {}
    Eigen::Index rows() const { return B.rows(); }
    Eigen::Index cols() const { return B.cols(); }
    void solve(const double* x_in, double* y_out) const
    {
        Eigen::Map<const Vector> x(x_in, B.rows());
        Eigen::Map<Vector> y(y_out, B.rows());
        y = llt.solve(x);
    }
    void perform_op(const double* x_in, double* y_out) const
    {
        ++calls;
        if (calls == fail_at)
            throw Fault{calls};
        Eigen::Map<const Vector> x(x_in, B.rows());
        Eigen::Map<Vector> y(y_out, B.rows());
        y.noalias() = B * x;
    }
};

int main()
{
    const int n = 30, nev = 3, ncv = 7;
    Matrix A(n, n), B(n, n);
    for (int i = 0; i < n; i++)
        for (int j = 0; j < n; j++)
        {
            A(i, j) = (i == j) ? 1.0 + 0.4 * i : 1.0 / (1.0 + i + j);
            B(i, j) = (i == j) ? 3.0 + 0.1 * (i % 4) : ((i - j == 1 || j - i == 1) ? 0.5 : 0.0);
        }

    typedef DenseSymMatProd<double> AOp;
    typedef SymGEigsSolver<AOp, FlakyB, GEigsMode::RegularInverse> Solver;

    AOp op(A);
    long ncalls = 0;
    Vector ref;
    {
        FlakyB Bop(B, -1);
        Solver eigs(op, Bop, nev, ncv);
        eigs.init();
        eigs.compute(SortRule::LargestMagn, 1000, 1e-10);
        ref = eigs.eigenvalues();
        ncalls = Bop.calls;
        std::cout << "fault-free run: " << ncalls << " applications of B, niter = " << eigs.num_iterations() << std::endl;
    }

    int silent = 0, refused = 0;
    for (long k = 1; k <= ncalls; k++)
    {
        FlakyB Bop(B, k);
        Solver eigs(op, Bop, nev, ncv);
        bool thrown = false;
        try
        {
            eigs.init();
            eigs.compute(SortRule::LargestMagn, 1000, 1e-10);
        }
        catch (const Fault&)
        {
            thrown = true;
        }
        if (!thrown)
            continue;
        // compute() again, WITHOUT init()
        try
        {
            const int nconv = eigs.compute(SortRule::LargestMagn, 1000, 1e-10);
            Vector vals = eigs.eigenvalues();
            double d = (vals.size() == ref.size()) ? (vals - ref).cwiseAbs().maxCoeff() : -1.0;
            Matrix vecs = eigs.eigenvectors();
            double r = -1.0;
            if (vecs.cols() == vals.size() && vals.size() > 0)
                r = (A * vecs - B * vecs * vals.asDiagonal()).cwiseAbs().maxCoeff();
            silent++;
            std::cout << "k = " << k << ": compute() without init() continues silently, nconv = " << nconv
                      << ", info = " << (eigs.info() == CompInfo::Successful ? "Successful" : "other")
                      << ", max |lambda - ref| = " << d << ", max |A x - lambda B x| = " << r << std::endl;
        }
        catch (const std::invalid_argument&)
        {
            refused++;
        }
    }
    // For completeness: with a new init() the recovery is bit-identical for every k (property C14 holds)
    int differ = 0;
    for (long k = 1; k <= ncalls; k++)
    {
        FlakyB Bop(B, k);
        Solver eigs(op, Bop, nev, ncv);
        try
        {
            eigs.init();
            eigs.compute(SortRule::LargestMagn, 1000, 1e-10);
        }
        catch (const Fault&)
        {
        }
        Bop.fail_at = -1;
        eigs.init();
        eigs.compute(SortRule::LargestMagn, 1000, 1e-10);
        Vector vals = eigs.eigenvalues();
        if (vals.size() != ref.size() || !(vals.array() == ref.array()).all())
            differ++;
    }
    std::cout << "with a new init(): " << differ << " of " << ncalls << " recoveries differ from the reference" << std::endl;
    std::cout << "refused: " << refused << ", continued silently: " << silent << std::endl;
    return 0;
}
