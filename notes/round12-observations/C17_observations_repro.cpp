// Reproducer for observations.md (UNCHANGED library): compute() leaves by an exception instead of
// reporting the failure through info().
// g++ -std=c++11 -O1 -I<WT>/include -I/usr/include/eigen3 observations_repro.cpp -o obs && ./obs
#include <Eigen/Core>
#include <Eigen/SparseCore>
#include <Spectra/contrib/LOBPCGSolver.h>
#include <iostream>
#include <vector>
typedef double Scalar;
typedef Eigen::Matrix<Scalar, Eigen::Dynamic, Eigen::Dynamic> Matrix;
typedef Eigen::SparseMatrix<Scalar> SpMat;
static unsigned long long s_state = 88172645463325252ULL;
static Scalar rnd()
{
    s_state ^= s_state << 13; s_state ^= s_state >> 7; s_state ^= s_state << 17;
    return Scalar((s_state >> 11) % 2000001ULL) / Scalar(1000000) - Scalar(1);
}
static void run(int n, int k, bool withB, Scalar tol_div_n)
{
    std::vector<Eigen::Triplet<Scalar> > ta, tb, tp;
    for (int i = 0; i < n; i++)
    {
        ta.push_back(Eigen::Triplet<Scalar>(i, i, Scalar(i + 1)));
        if (i + 1 < n) { ta.push_back(Eigen::Triplet<Scalar>(i, i + 1, 0.3)); ta.push_back(Eigen::Triplet<Scalar>(i + 1, i, 0.3)); }
        if (i + 2 < n) { ta.push_back(Eigen::Triplet<Scalar>(i, i + 2, 0.1)); ta.push_back(Eigen::Triplet<Scalar>(i + 2, i, 0.1)); }
        tb.push_back(Eigen::Triplet<Scalar>(i, i, 1 + 0.1 * (i % 3)));
        if (i + 1 < n) { tb.push_back(Eigen::Triplet<Scalar>(i, i + 1, 0.05)); tb.push_back(Eigen::Triplet<Scalar>(i + 1, i, 0.05)); }
        tp.push_back(Eigen::Triplet<Scalar>(i, i, Scalar(1) / Scalar(i + 1)));
    }
    SpMat A(n, n), B(n, n), T(n, n);
    A.setFromTriplets(ta.begin(), ta.end()); B.setFromTriplets(tb.begin(), tb.end()); T.setFromTriplets(tp.begin(), tp.end());
    Matrix x0(n, k);
    for (int j = 0; j < k; j++) for (int i = 0; i < n; i++) x0(i, j) = rnd();
    SpMat X0 = x0.sparseView();
    Spectra::LOBPCGSolver<Scalar> solver(A, X0);
    if (withB) solver.setB(B);
    solver.setPreconditioner(T);
    try
    {
        solver.compute(n, tol_div_n);
        std::cout << "  returned, info = " << solver.info() << std::endl;
    }
    catch (std::exception& e)
    {
        std::cout << "  EXCEPTION out of compute(): " << e.what() << std::endl;
    }
}
int main()
{
    std::cout << "n = 120, k = 10 (5k < n), no B, tol_div_n = 1e-6:" << std::endl;
    run(120, 10, false, 1e-6);
    std::cout << "n = 120, k = 9, no B, tol_div_n = 1e-6 (for comparison):" << std::endl;
    run(120, 9, false, 1e-6);
    std::cout << "n = 120, k = 3, B set, tol_div_n = 1e-13 / n (not reachable in double):" << std::endl;
    run(120, 3, true, 1e-13 / 120);
    return 0;
}
