// Observation 2 (unchanged library): two SymEigsShiftSolver objects that share one shift-solve operator.
// The constructor of the second solver calls op.set_shift(sigma2); the first solver keeps iterating with
// (A - sigma2 I)^{-1} but transforms the Ritz values back with sigma1.
#include <Eigen/Dense>
#include <Spectra/SymEigsShiftSolver.h>
#include <Spectra/MatOp/DenseSymShiftSolve.h>
#include <iostream>
using namespace Spectra;
int main()
{
    const int n = 30;
    Eigen::MatrixXd A = Eigen::MatrixXd::Zero(n, n);
    for (int i = 0; i < n; i++) A(i, i) = i + 1;             // eigenvalues 1, 2, ..., 30
    for (int i = 0; i + 1 < n; i++) A(i, i + 1) = A(i + 1, i) = 0.01;
    DenseSymShiftSolve<double> op(A);
    SymEigsShiftSolver<DenseSymShiftSolve<double>> eigs1(op, 3, 10, 5.3);
    SymEigsShiftSolver<DenseSymShiftSolve<double>> eigs2(op, 3, 10, 20.3);   // re-shifts the shared operator
    eigs1.init();
    int nconv = eigs1.compute(SortRule::LargestMagn, 1000, 1e-10);
    Eigen::VectorXd ev = eigs1.eigenvalues();
    Eigen::MatrixXd U = eigs1.eigenvectors();
    std::cout << "solver 1 (sigma = 5.3): nconv = " << nconv << ", info = " << (int) eigs1.info() << "\n";
    for (int i = 0; i < ev.size(); i++)
        std::cout << "  theta = " << ev[i] << "   ||A x - theta x|| = " << (A * U.col(i) - ev[i] * U.col(i)).norm() << "\n";
    return 0;
}
