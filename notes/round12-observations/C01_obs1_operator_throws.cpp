// Observation 1 (unchanged library): the user's operator throws in the middle of compute().
// The exception leaves compute() after some restarts; the convergence flags of the last num_converged()
// call are still set, but restart() has already replaced V (compress_V) and partly overwritten it
// (factorize_from), while m_ritz_vec still holds coordinates with respect to the old basis.
// eigenvalues()/eigenvectors() then hand back the flagged pairs; their residuals are ~1e-3.
// The operator fails at its fail_at-th application; lines are printed only when something is returned.
#include <Eigen/Dense>
#include <Spectra/SymEigsSolver.h>
#include <Spectra/SymEigsShiftSolver.h>
#include <iostream>
using namespace Spectra;
struct Op {
  typedef double Scalar;
  const Eigen::MatrixXd& A; mutable long cnt; long fail_at;
  Op(const Eigen::MatrixXd& A_):A(A_),cnt(0),fail_at(-1){}
  Eigen::Index rows() const {return A.rows();} Eigen::Index cols() const {return A.cols();}
  void perform_op(const double* x,double* y) const {
    if(++cnt==fail_at) throw std::runtime_error("op failed");
    Eigen::Map<const Eigen::VectorXd> xx(x,A.rows()); Eigen::Map<Eigen::VectorXd> yy(y,A.rows()); yy.noalias()=A*xx; }
};
int main(int argc,char**argv){
  int n=200; std::srand(3);
  Eigen::MatrixXd M=Eigen::MatrixXd::Random(n,n); Eigen::MatrixXd A=M+M.transpose();
  for(long fa=20; fa<400; fa+=7){
  Op op(A); op.fail_at=fa;
  SymEigsSolver<Op> eigs(op,5,12);
  eigs.init();
  try{ eigs.compute(SortRule::LargestAlge,1000,1e-10);}catch(std::exception&e){}
  Eigen::VectorXd ev=eigs.eigenvalues(); 
  if(ev.size()==0) continue;
  Eigen::MatrixXd U=eigs.eigenvectors();
  double r=0; for(int i=0;i<ev.size();i++) r=std::max(r,(A*U.col(i)-ev[i]*U.col(i)).norm());
  std::cout<<"fail_at "<<fa<<" returned "<<ev.size()<<" resid "<<r<<" info "<<(int)eigs.info()<<"\n";
  }
}
