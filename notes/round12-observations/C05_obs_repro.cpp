// Reproducer for observations.md (UNCHANGED library)
#include <Eigen/Core>
#include <Spectra/SymEigsSolver.h>
#include <Spectra/MatOp/DenseSymMatProd.h>
#include <cstdio>
using namespace Spectra;
int main()
{
    const int n = 30;
    Eigen::MatrixXd A = Eigen::MatrixXd::Zero(n, n);
    for (int i = 0; i < n; i++) { A(i, i) = i; if (i) A(i, i - 1) = A(i - 1, i) = 0.3; }
    DenseSymMatProd<double> op(A);
    {
        SymEigsSolver<DenseSymMatProd<double>> eigs(op, 3, 10);
        eigs.init();
        eigs.compute(SortRule::LargestAlge);
        eigs.init();  // new run, no compute() yet
        std::printf("O1: after compute(); init():  info()=%d (0=Successful,1=NotComputed)  eigenvalues().size()=%d  num_iterations()=%d\n",
                    int(eigs.info()), int(eigs.eigenvalues().size()), int(eigs.num_iterations()));
    }
    {
        SymEigsSolver<DenseSymMatProd<double>> eigs(op, 3, 10);
        eigs.init();
        try { eigs.compute(SortRule::LargestAlge, 1000, 1e-10, SortRule::LargestReal); }
        catch (const std::exception& e) { std::printf("O2: compute() threw: %s\n", e.what()); }
        std::printf("O2: after the throwing compute(): info()=%d  eigenvalues().size()=%d  eigenvectors().cols()=%d  num_iterations()=%d num_operations()=%d\n",
                    int(eigs.info()), int(eigs.eigenvalues().size()), int(eigs.eigenvectors().cols()), int(eigs.num_iterations()), int(eigs.num_operations()));
    }
    return 0;
}
