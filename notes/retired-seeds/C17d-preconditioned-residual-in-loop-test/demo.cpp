// Property C17 -- LOBPCG: on success, the k smallest eigenvalues (ascending) of
// (A, B), an n-by-k B-orthonormal eigenvector block, and residuals() equal to
// A X - B X diag(lambda) with every column norm below tol*n.
//
// Checked for sparse symmetric A, SPD B, k = 2,3,4 (5k < n), with/without B,
// with/without a diagonal (Jacobi) preconditioner, random initial blocks.

#include <Eigen/Core>
#include <Eigen/SparseCore>
#include <Eigen/Eigenvalues>
#include <Spectra/contrib/LOBPCGSolver.h>
#include <cstdio>
#include <cstdlib>
#include <cmath>

typedef double Scalar;
typedef Eigen::Matrix<Scalar, Eigen::Dynamic, Eigen::Dynamic> Matrix;
typedef Eigen::Matrix<Scalar, Eigen::Dynamic, 1> Vector;
typedef Eigen::SparseMatrix<Scalar> SpMat;

static int g_fail = 0;
static int g_success_runs = 0;

static Scalar urand()
{
    return Scalar(std::rand()) / Scalar(RAND_MAX);
}

// sparse symmetric A, well separated smallest eigenvalues (diagonal 50, 60, ..., 100, then a
// tighter cluster up to about 130)
static Matrix make_A(int n)
{
    Matrix A = Matrix::Zero(n, n);
    for (int i = 0; i < n; i++)
        A(i, i) = (i < 6) ? 50.0 + 10.0 * i : 110.0 + 0.4 * (i - 6);
    for (int i = 0; i < n; i++)
        for (int j = 0; j < i; j++)
            if (urand() < 0.08)
            {
                Scalar v = 2.0 * urand() - 1.0;
                A(i, j) = v;
                A(j, i) = v;
            }
    return A;
}

// sparse SPD B, diagonally dominant
static Matrix make_B(int n)
{
    Matrix B = Matrix::Zero(n, n);
    for (int i = 0; i < n; i++)
        B(i, i) = 2.0 + urand();
    for (int i = 0; i < n; i++)
        for (int j = 0; j < i; j++)
            if (urand() < 0.04)
            {
                Scalar v = 0.2 * (2.0 * urand() - 1.0);
                B(i, j) = v;
                B(j, i) = v;
            }
    return B;
}

static void run_case(int n, int k, bool withB, bool withT, Scalar tol, unsigned seed)
{
    std::srand(seed);
    Matrix Ad = make_A(n);
    Matrix Bd = withB ? make_B(n) : Matrix(Matrix::Identity(n, n));
    Matrix X0 = Matrix::Random(n, k);

    SpMat A = Ad.sparseView();
    SpMat B = Bd.sparseView();
    SpMat Xs = X0.sparseView();

    Spectra::LOBPCGSolver<Scalar> solver(A, Xs);
    if (withB)
        solver.setB(B);
    if (withT)
    {
        // diagonal (Jacobi) preconditioner  T = diag(A)^-1
        Matrix Td = Matrix::Zero(n, n);
        for (int i = 0; i < n; i++)
            Td(i, i) = 1.0 / Ad(i, i);
        SpMat T = Td.sparseView();
        solver.setPreconditioner(T);
    }

    solver.compute(200, tol);

    char tag[128];
    std::snprintf(tag, sizeof(tag), "[n=%d k=%d B=%d T=%d seed=%u]", n, k, int(withB), int(withT), seed);

    if (solver.info() != Eigen::Success)
    {
        // not a violation: the status says so
        std::printf("%s info=%d (no success reported; nothing to check)\n", tag, solver.info());
        return;
    }
    g_success_runs++;

    Vector ev = solver.eigenvalues();
    Matrix X = solver.eigenvectors();
    Matrix R = solver.residuals();

    bool ok = true;

    // shapes
    if (ev.size() != k || X.rows() != n || X.cols() != k || R.rows() != n || R.cols() != k)
    {
        std::printf("%s FAIL shapes: evals %d, X %dx%d, R %dx%d\n", tag, int(ev.size()),
                    int(X.rows()), int(X.cols()), int(R.rows()), int(R.cols()));
        g_fail++;
        return;
    }

    // reference: dense generalized symmetric eigen-decomposition
    Eigen::GeneralizedSelfAdjointEigenSolver<Matrix> ges(Ad, Bd);
    Vector ref = ges.eigenvalues().head(k);

    for (int i = 0; i + 1 < k; i++)
        if (!(ev(i) <= ev(i + 1)))
        {
            std::printf("%s FAIL eigenvalues not ascending at %d: %.12g > %.12g\n", tag, i, ev(i), ev(i + 1));
            ok = false;
        }
    for (int i = 0; i < k; i++)
        if (!(std::abs(ev(i) - ref(i)) <= 1e-6 * std::abs(ref(i))))
        {
            std::printf("%s FAIL eigenvalue %d = %.12g, reference %.12g\n", tag, i, ev(i), ref(i));
            ok = false;
        }

    // B-orthonormality
    Scalar orth = (X.transpose() * Bd * X - Matrix::Identity(k, k)).cwiseAbs().maxCoeff();
    if (!(orth <= 1e-8))
    {
        std::printf("%s FAIL |X'BX - I|_max = %.3e\n", tag, orth);
        ok = false;
    }

    // residuals() == A X - B X diag(ev)
    Matrix Rtrue = Ad * X - Bd * X * ev.asDiagonal();
    Scalar rdiff = (R - Rtrue).cwiseAbs().maxCoeff();
    if (!(rdiff <= 1e-8))
    {
        std::printf("%s FAIL residuals() differs from A X - B X diag(ev): max diff %.3e\n", tag, rdiff);
        ok = false;
    }

    // every residual column norm below tol*n (checked on the true residual and on residuals())
    for (int i = 0; i < k; i++)
    {
        Scalar nt = Rtrue.col(i).norm(), nr = R.col(i).norm();
        if (!(nt < tol * n) || !(nr < tol * n))
        {
            std::printf("%s FAIL success reported but residual column %d: |A x - ev B x| = %.3e, "
                        "|residuals().col| = %.3e, bound tol*n = %.3e\n",
                        tag, i, nt, nr, tol * n);
            ok = false;
        }
    }

    if (!ok)
        g_fail++;
    else
        std::printf("%s ok (max residual %.3e < %.3e)\n", tag, Rtrue.colwise().norm().maxCoeff(), tol * n);
}

int main()
{
    const int n = 60;
    const Scalar tol = 1e-8;
    unsigned seed = 1;
    for (int k = 2; k <= 4; k++)
        for (int withB = 0; withB <= 1; withB++)
            for (int withT = 0; withT <= 1; withT++)
                for (int rep = 0; rep < 2; rep++)
                    run_case(n, k, withB != 0, withT != 0, tol, seed++);

    std::printf("runs reporting success: %d, violations: %d\n", g_success_runs, g_fail);
    if (g_fail > 0)
    {
        std::printf("FAIL\n");
        return 1;
    }
    if (g_success_runs == 0)
    {
        std::printf("FAIL (no run reported success; property not exercised)\n");
        return 2;
    }
    std::printf("PASS\n");
    return 0;
}
