// C12: compute() with a selection or sorting rule the solver does not support raises
// std::invalid_argument, and every supported rule is accepted.
//
// For each solver family the program walks over all nine SortRule values, once as the
// selection argument and once as the sorting argument, and compares "threw
// std::invalid_argument" against the documented set of supported rules.
//
//   symmetric / Hermitian solvers
//     selection: LargestMagn LargestAlge SmallestMagn SmallestAlge BothEnds
//     sorting  : LargestMagn LargestAlge SmallestMagn SmallestAlge
//   general solvers
//     selection: LargestMagn LargestReal LargestImag SmallestMagn SmallestReal SmallestImag
//     sorting  : the same six

#include <Eigen/Core>
#include <Eigen/SparseCore>
#include <complex>
#include <iostream>
#include <stdexcept>
#include <string>

#include <Spectra/SymEigsSolver.h>
#include <Spectra/SymEigsShiftSolver.h>
#include <Spectra/SymGEigsSolver.h>
#include <Spectra/SymGEigsShiftSolver.h>
#include <Spectra/HermEigsSolver.h>
#include <Spectra/GenEigsSolver.h>
#include <Spectra/GenEigsRealShiftSolver.h>
#include <Spectra/MatOp/DenseSymMatProd.h>
#include <Spectra/MatOp/DenseHermMatProd.h>
#include <Spectra/MatOp/DenseGenMatProd.h>
#include <Spectra/MatOp/DenseSymShiftSolve.h>
#include <Spectra/MatOp/DenseGenRealShiftSolve.h>
#include <Spectra/MatOp/DenseCholesky.h>
#include <Spectra/MatOp/SymShiftInvert.h>

using namespace Spectra;

static const SortRule all_rules[9] = {
    SortRule::LargestMagn, SortRule::LargestReal, SortRule::LargestImag,
    SortRule::LargestAlge, SortRule::SmallestMagn, SortRule::SmallestReal,
    SortRule::SmallestImag, SortRule::SmallestAlge, SortRule::BothEnds};

static const char* rule_name(SortRule r)
{
    switch (r)
    {
        case SortRule::LargestMagn: return "LargestMagn";
        case SortRule::LargestReal: return "LargestReal";
        case SortRule::LargestImag: return "LargestImag";
        case SortRule::LargestAlge: return "LargestAlge";
        case SortRule::SmallestMagn: return "SmallestMagn";
        case SortRule::SmallestReal: return "SmallestReal";
        case SortRule::SmallestImag: return "SmallestImag";
        case SortRule::SmallestAlge: return "SmallestAlge";
        case SortRule::BothEnds: return "BothEnds";
    }
    return "?";
}

static bool sym_selection_ok(SortRule r)
{
    return r == SortRule::LargestMagn || r == SortRule::LargestAlge ||
        r == SortRule::SmallestMagn || r == SortRule::SmallestAlge || r == SortRule::BothEnds;
}
static bool sym_sorting_ok(SortRule r)
{
    return r == SortRule::LargestMagn || r == SortRule::LargestAlge ||
        r == SortRule::SmallestMagn || r == SortRule::SmallestAlge;
}
static bool gen_rule_ok(SortRule r)
{
    return r == SortRule::LargestMagn || r == SortRule::LargestReal || r == SortRule::LargestImag ||
        r == SortRule::SmallestMagn || r == SortRule::SmallestReal || r == SortRule::SmallestImag;
}

static int failures = 0;

// outcome: 0 = accepted, 1 = std::invalid_argument, 2 = some other exception
template <typename Solver>
static int run(Solver& eigs, SortRule selection, SortRule sorting)
{
    try
    {
        eigs.init();
        eigs.compute(selection, 200, 1e-10, sorting);
    }
    catch (const std::invalid_argument&)
    {
        return 1;
    }
    catch (...)
    {
        return 2;
    }
    return 0;
}

static void report(const std::string& who, const char* role, SortRule r, bool supported, int outcome)
{
    const int expected = supported ? 0 : 1;
    if (outcome == expected)
        return;
    failures++;
    static const char* what[3] = {"accepted", "rejected with std::invalid_argument", "failed with another exception"};
    std::cout << "FAIL: " << who << ": " << role << " = " << rule_name(r) << " is "
              << (supported ? "supported" : "NOT supported") << " but the call was "
              << what[outcome] << std::endl;
}

template <typename Solver>
static void check_all(const std::string& who, Solver& eigs, bool (*sel_ok)(SortRule), bool (*sort_ok)(SortRule),
                      SortRule good_selection, SortRule good_sorting)
{
    for (int i = 0; i < 9; i++)
    {
        const SortRule r = all_rules[i];
        report(who, "selection", r, sel_ok(r), run(eigs, r, good_sorting));
        report(who, "sorting", r, sort_ok(r), run(eigs, good_selection, r));
    }
}

int main()
{
    const int n = 12;
    std::srand(7);
    Eigen::MatrixXd R = Eigen::MatrixXd::Random(n, n);
    Eigen::MatrixXd A = R + R.transpose();
    Eigen::MatrixXd Rb = Eigen::MatrixXd::Random(n, n);
    Eigen::MatrixXd B = Rb.transpose() * Rb + Eigen::MatrixXd::Identity(n, n) * double(n);
    Eigen::MatrixXcd Rc = Eigen::MatrixXcd::Random(n, n);
    Eigen::MatrixXcd H = Rc + Rc.adjoint();
    Eigen::MatrixXd G = Eigen::MatrixXd::Random(n, n);

    const int nev = 3, ncv = 8;

    {
        DenseSymMatProd<double> op(A);
        SymEigsSolver<DenseSymMatProd<double>> eigs(op, nev, ncv);
        check_all("SymEigsSolver", eigs, sym_selection_ok, sym_sorting_ok, SortRule::LargestMagn, SortRule::LargestAlge);
    }
    {
        DenseSymShiftSolve<double> op(A);
        SymEigsShiftSolver<DenseSymShiftSolve<double>> eigs(op, nev, ncv, 0.3);
        check_all("SymEigsShiftSolver", eigs, sym_selection_ok, sym_sorting_ok, SortRule::LargestMagn, SortRule::LargestAlge);
    }
    {
        DenseHermMatProd<std::complex<double>> op(H);
        HermEigsSolver<DenseHermMatProd<std::complex<double>>> eigs(op, nev, ncv);
        check_all("HermEigsSolver", eigs, sym_selection_ok, sym_sorting_ok, SortRule::LargestMagn, SortRule::LargestAlge);
    }
    {
        DenseSymMatProd<double> op(A);
        DenseCholesky<double> Bop(B);
        SymGEigsSolver<DenseSymMatProd<double>, DenseCholesky<double>, GEigsMode::Cholesky> eigs(op, Bop, nev, ncv);
        check_all("SymGEigsSolver<Cholesky>", eigs, sym_selection_ok, sym_sorting_ok, SortRule::LargestMagn, SortRule::LargestAlge);
    }
    {
        using OpType = SymShiftInvert<double, Eigen::Dense, Eigen::Dense>;
        using BOpType = DenseSymMatProd<double>;
        OpType op(A, B);
        BOpType Bop(B);
        SymGEigsShiftSolver<OpType, BOpType, GEigsMode::ShiftInvert> eigs(op, Bop, nev, ncv, 0.3);
        check_all("SymGEigsShiftSolver<ShiftInvert>", eigs, sym_selection_ok, sym_sorting_ok, SortRule::LargestMagn, SortRule::LargestAlge);
    }
    {
        DenseGenMatProd<double> op(G);
        GenEigsSolver<DenseGenMatProd<double>> eigs(op, nev, ncv);
        check_all("GenEigsSolver", eigs, gen_rule_ok, gen_rule_ok, SortRule::LargestMagn, SortRule::LargestMagn);
    }
    {
        DenseGenRealShiftSolve<double> op(G);
        GenEigsRealShiftSolver<DenseGenRealShiftSolve<double>> eigs(op, nev, ncv, 0.3);
        check_all("GenEigsRealShiftSolver", eigs, gen_rule_ok, gen_rule_ok, SortRule::LargestMagn, SortRule::LargestMagn);
    }

    if (failures)
    {
        std::cout << "FAIL (" << failures << " rule/solver combinations misclassified)" << std::endl;
        return 1;
    }
    std::cout << "PASS" << std::endl;
    return 0;
}
