// Demo for property C13: compute() is memory-safe, terminates within its work
// bound, hands the operator only valid vectors, and never emits NaN.
//
// Build:
//   g++ -std=c++11 -O1 -I/tmp/wt-C13/include -I/usr/include/eigen3 demo.cpp -o demo
//
// Every solver run goes through a checking operator that
//   * counts operator applications (bound: 2 + 2*ncv*(maxit+1)),
//   * checks that the input vector is finite (a NaN/Inf vector is not a valid input),
//   * checks that input and output are distinct, non-overlapping length-n ranges.
// After compute() we check info() in {Successful, NotConverging} and that all
// returned eigenvalues / eigenvectors are finite.  A std::exception from
// compute() is tolerated (documented failure mode) but is reported.

#include <Eigen/Core>
#include <Spectra/SymEigsSolver.h>
#include <Spectra/GenEigsSolver.h>
#include <Spectra/HermEigsSolver.h>
#include <complex>
#include <iostream>
#include <string>
#include <cmath>

using namespace Spectra;
using Eigen::Index;

static int g_failures = 0;

template <typename Scalar_>
struct CheckedOp
{
    using Scalar = Scalar_;
    using Matrix = Eigen::Matrix<Scalar, Eigen::Dynamic, Eigen::Dynamic>;
    using Vector = Eigen::Matrix<Scalar, Eigen::Dynamic, 1>;

    const Matrix& A;
    mutable long napply = 0;
    mutable long first_bad_input = -1;  // index of first application with non-finite input
    mutable bool aliased = false;

    explicit CheckedOp(const Matrix& a) : A(a) {}
    Index rows() const { return A.rows(); }
    Index cols() const { return A.cols(); }
    void perform_op(const Scalar* x_in, Scalar* y_out) const
    {
        napply++;
        const Index n = A.rows();
        if (x_in == nullptr || y_out == nullptr ||
            (x_in < y_out + n && y_out < x_in + n))
            aliased = true;
        Eigen::Map<const Vector> x(x_in, n);
        Eigen::Map<Vector> y(y_out, n);
        if (!x.allFinite() && first_bad_input < 0)
            first_bad_input = napply;
        y.noalias() = A * x;
    }
};

template <typename Solver, typename Scalar>
void run_case(const std::string& name,
              const Eigen::Matrix<Scalar, Eigen::Dynamic, Eigen::Dynamic>& A,
              Index nev, Index ncv, SortRule rule, Index maxit)
{
    CheckedOp<Scalar> op(A);
    bool ok = true;
    std::string what;
    try
    {
        Solver eigs(op, nev, ncv);
        eigs.init();
        eigs.compute(rule, maxit, 1e-10);
        const CompInfo info = eigs.info();
        if (info != CompInfo::Successful && info != CompInfo::NotConverging)
        {
            ok = false;
            what += " [info() = " + std::to_string(int(info)) + "]";
        }
        auto evals = eigs.eigenvalues();
        auto evecs = eigs.eigenvectors();
        if (!evals.allFinite())
        {
            ok = false;
            what += " [non-finite eigenvalues]";
        }
        if (!evecs.allFinite())
        {
            ok = false;
            what += " [non-finite eigenvectors]";
        }
    }
    catch (const std::exception& e)
    {
        what += std::string(" [exception: ") + e.what() + "]";
    }
    catch (...)
    {
        ok = false;
        what += " [non-standard exception]";
    }

    const long bound = 2 + 2 * long(ncv) * (long(maxit) + 1);
    if (op.napply > bound)
    {
        ok = false;
        what += " [" + std::to_string(op.napply) + " operator applications > bound " + std::to_string(bound) + "]";
    }
    if (op.first_bad_input >= 0)
    {
        ok = false;
        what += " [operator application #" + std::to_string(op.first_bad_input) +
            " received a NaN/Inf input vector]";
    }
    if (op.aliased)
    {
        ok = false;
        what += " [operator received overlapping input/output]";
    }

    std::cout << (ok ? "  ok   " : "  BAD  ") << name << " (ops=" << op.napply << ")" << what << std::endl;
    if (!ok)
        g_failures++;
}

int main()
{
    using Mat = Eigen::MatrixXd;
    using CMat = Eigen::MatrixXcd;
    using SymS = SymEigsSolver<CheckedOp<double>>;
    using GenS = GenEigsSolver<CheckedOp<double>>;
    using HermS = HermEigsSolver<CheckedOp<std::complex<double>>>;

    const Index n = 10;

    // --- control cases: well-conditioned random, identity, rank-2 diagonal -----------
    std::srand(7);
    Mat R = Mat::Random(n, n);
    Mat S = R + R.transpose();
    run_case<SymS, double>("sym random         LM", S, 3, 6, SortRule::LargestMagn, 100);
    run_case<GenS, double>("gen random         LM", R, 3, 6, SortRule::LargestMagn, 100);
    Mat I = Mat::Identity(n, n);
    run_case<SymS, double>("sym identity       LA", I, 3, 6, SortRule::LargestAlge, 100);
    run_case<GenS, double>("gen identity       LR", I, 3, 6, SortRule::LargestReal, 100);
    Mat D2 = Mat::Zero(n, n);
    D2(0, 0) = 1.0;
    D2(1, 1) = 2.0;
    run_case<SymS, double>("sym diag(1,2,0..)  LM", D2, 3, 6, SortRule::LargestMagn, 100);

    // --- rank-one matrices with a single non-zero entry -----------------------------
    // The Krylov space is exhausted after one step, and the first candidate used to
    // extend the basis (A * random) lies exactly in span(V).
    Mat E = Mat::Zero(n, n);
    E(0, 0) = 1.0;
    run_case<SymS, double>("sym e1*e1'         LM", E, 3, 6, SortRule::LargestMagn, 100);
    run_case<SymS, double>("sym e1*e1'         SA", E, 3, 6, SortRule::SmallestAlge, 100);
    run_case<SymS, double>("sym e1*e1'   ncv=n BE", E, 2, n, SortRule::BothEnds, 0);
    run_case<GenS, double>("gen e1*e1'         LM", E, 3, 6, SortRule::LargestMagn, 100);

    Mat Es = Mat::Zero(n, n);
    Es(4, 4) = -1e-8;
    run_case<SymS, double>("sym -1e-8*e5*e5'   LA", Es, 2, 3, SortRule::LargestAlge, 10);

    Mat N = Mat::Zero(n, n);  // nilpotent, rank one
    N(0, 1) = 3.0;
    run_case<GenS, double>("gen 3*e1*e2'       SR", N, 2, 4, SortRule::SmallestReal, 5);

    CMat H = CMat::Zero(n, n);
    H(2, 2) = 2.5;
    run_case<HermS, std::complex<double>>("herm 2.5*e3*e3'    LM", H, 3, 6, SortRule::LargestMagn, 100);

    if (g_failures == 0)
    {
        std::cout << "PASS" << std::endl;
        return 0;
    }
    std::cout << "FAIL: " << g_failures << " case(s) violated property C13" << std::endl;
    return 1;
}
