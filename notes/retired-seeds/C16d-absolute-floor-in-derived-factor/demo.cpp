// Property C16: partial SVD returns the leading singular triplets with orthonormal factors.
//
// For every case below we check, against a dense reference SVD (Eigen::JacobiSVD):
//   * singular values finite, >= 0, non-increasing, equal to the largest ones of A
//     up to tol * ||A||
//   * U'U = I, V'V = I, A V = U S, A'U = V S up to tol (* ||A||)
//   * matrix_U(j) / matrix_V(j) have min(j, nconv) columns
//   * after a second compute() the accessors describe that second run
// The property is scale-free (all tolerances are relative to ||A||), so the cases cover
// matrices of ordinary magnitude as well as matrices whose entries are small numbers
// (e.g. lengths of a micro-scale device expressed in metres).
//
// Build: g++ -std=c++11 -O1 -I/tmp/wt-C16/include -I/usr/include/eigen3 demo.cpp -o demo

#include <Eigen/Core>
#include <Eigen/SparseCore>
#include <Eigen/SVD>
#include <cmath>
#include <iostream>
#include <string>
#include <Spectra/contrib/PartialSVDSolver.h>

using namespace Spectra;

typedef Eigen::MatrixXd Matrix;
typedef Eigen::VectorXd Vector;
typedef Eigen::Matrix<double, Eigen::Dynamic, Eigen::Dynamic, Eigen::RowMajor> RMatrix;
typedef Eigen::SparseMatrix<double> SpMatrix;
typedef Eigen::SparseMatrix<double, Eigen::RowMajor> RSpMatrix;

static int g_fail = 0;

static void report(const std::string& label, const std::string& what, double val, double bound)
{
    if (!(val <= bound))  // also catches NaN
    {
        std::cout << "  [" << label << "] " << what << " = " << val << " (bound " << bound << ")\n";
        g_fail++;
    }
}

// Checks the factor identities of one (already computed) solver state
template <typename Solver>
static void check_state(const std::string& label, Solver& svds, const Matrix& A,
                        const Vector& ref, int k, int nconv, double tol)
{
    const double nrm = ref[0];
    Vector s = svds.singular_values();
    if (s.size() != nconv)
    {
        std::cout << "  [" << label << "] singular_values().size() = " << s.size() << ", nconv = " << nconv << "\n";
        g_fail++;
        return;
    }
    for (int i = 0; i < nconv; i++)
    {
        if (!std::isfinite(s[i]) || s[i] < 0.0 || (i > 0 && s[i] > s[i - 1]))
        {
            std::cout << "  [" << label << "] bad singular value s[" << i << "] = " << s[i] << "\n";
            g_fail++;
        }
    }
    if (nconv == k)
        report(label, "max |s - s_ref| / ||A||", (s - ref.head(k)).cwiseAbs().maxCoeff() / nrm, tol);

    // Column counts for several requests
    const int req[4] = {1, nconv, k, k + 3};
    for (int r = 0; r < 4; r++)
    {
        if (req[r] < 1)
            continue;
        const int expect = std::min(req[r], nconv);
        Matrix Uj = svds.matrix_U(req[r]);
        Matrix Vj = svds.matrix_V(req[r]);
        if (Uj.cols() != expect || Vj.cols() != expect || Uj.rows() != A.rows() || Vj.rows() != A.cols())
        {
            std::cout << "  [" << label << "] matrix_U/V(" << req[r] << ") has shape " << Uj.rows() << "x" << Uj.cols()
                      << " / " << Vj.rows() << "x" << Vj.cols() << ", expected " << expect << " columns\n";
            g_fail++;
        }
    }
    if (nconv < 1)
        return;

    Matrix U = svds.matrix_U(k);
    Matrix V = svds.matrix_V(k);
    if (!U.allFinite() || !V.allFinite())
    {
        std::cout << "  [" << label << "] non-finite entries in U or V\n";
        g_fail++;
        return;
    }
    const Matrix I = Matrix::Identity(nconv, nconv);
    report(label, "max |U'U - I|", (U.transpose() * U - I).cwiseAbs().maxCoeff(), tol);
    report(label, "max |V'V - I|", (V.transpose() * V - I).cwiseAbs().maxCoeff(), tol);
    report(label, "max |A V - U S| / ||A||", (A * V - U * s.asDiagonal()).cwiseAbs().maxCoeff() / nrm, tol);
    report(label, "max |A'U - V S| / ||A||", (A.transpose() * U - V * s.asDiagonal()).cwiseAbs().maxCoeff() / nrm, tol);
}

template <typename MatType>
static void run_case(const std::string& label, const MatType& mat, int k, int ncv)
{
    const double tol = 1e-7;
    const Matrix A = Matrix(mat);
    Eigen::JacobiSVD<Matrix> svd(A);
    const Vector ref = svd.singularValues();

    const int before = g_fail;
    PartialSVDSolver<MatType> svds(mat, k, ncv);

    // First run: default parameters, must converge
    int nconv = svds.compute();
    if (nconv != k)
    {
        std::cout << "  [" << label << "] nconv = " << nconv << ", expected " << k << "\n";
        g_fail++;
    }
    check_state(label + ", run 1", svds, A, ref, k, nconv, tol);

    // Second run with a tiny iteration budget and a loose tolerance: whatever is
    // reported as converged must satisfy the identities to that (loose) tolerance
    nconv = svds.compute(1, 1e-4);
    check_state(label + ", run 2 (maxit=1, tol=1e-4)", svds, A, ref, k, nconv, 1e-3);

    // Third run: back to the defaults, results must be accurate again
    nconv = svds.compute();
    check_state(label + ", run 3", svds, A, ref, k, nconv, tol);

    std::cout << (g_fail == before ? "ok    " : "BAD   ") << label << "  (||A|| = " << ref[0] << ")\n";
}

static SpMatrix gen_sparse(int m, int n, double prob, double scale)
{
    Matrix D = Matrix::Random(m, n);
    Matrix P = Matrix::Random(m, n);
    SpMatrix S(m, n);
    for (int j = 0; j < n; j++)
        for (int i = 0; i < m; i++)
            if (std::abs(P(i, j)) < prob)
                S.insert(i, j) = scale * D(i, j);
    S.makeCompressed();
    return S;
}

int main()
{
    std::srand(20240916);

    // Matrices of ordinary magnitude
    {
        const Matrix tall = Matrix::Random(300, 60);
        const Matrix wide = Matrix::Random(60, 300);
        const Matrix square = Matrix::Random(80, 80);
        run_case<Matrix>("dense tall 300x60", tall, 4, 12);
        run_case<Matrix>("dense wide 60x300", wide, 4, 12);
        run_case<Matrix>("dense square 80x80", square, 3, 15);
        run_case<RMatrix>("dense row-major tall 300x60", RMatrix(tall), 4, 12);
        run_case<SpMatrix>("sparse tall 400x50", gen_sparse(400, 50, 0.2, 1.0), 3, 10);
        run_case<RSpMatrix>("sparse row-major wide 50x400", RSpMatrix(gen_sparse(50, 400, 0.2, 1.0)), 3, 10);
    }

    // The same kind of matrices, but with entries that are small numbers
    // (all requested singular values are far above 1e-4 * ||A||)
    {
        const double scale = 2e-7;
        const Matrix tall = scale * Matrix::Random(300, 60);
        const Matrix wide = scale * Matrix::Random(60, 300);
        const Matrix square = scale * Matrix::Random(80, 80);
        run_case<Matrix>("dense tall 300x60, entries ~ 1e-7", tall, 4, 12);
        run_case<Matrix>("dense wide 60x300, entries ~ 1e-7", wide, 4, 12);
        run_case<Matrix>("dense square 80x80, entries ~ 1e-7", square, 3, 15);
        run_case<SpMatrix>("sparse tall 400x50, entries ~ 1e-7", gen_sparse(400, 50, 0.2, scale), 3, 10);
    }

    // Exactly rank-deficient input: only finiteness / non-negativity / ordering of the
    // singular values is required
    {
        const Matrix B = Matrix::Random(40, 3);
        const Matrix C = Matrix::Random(3, 12);
        const Matrix A = B * C;  // rank 3
        PartialSVDSolver<Matrix> svds(A, 6, 12);
        svds.compute();
        Vector s = svds.singular_values();
        bool ok = true;
        for (int i = 0; i < s.size(); i++)
            if (!std::isfinite(s[i]) || s[i] < 0.0 || (i > 0 && s[i] > s[i - 1] + 1e-12))
                ok = false;
        if (!ok)
        {
            std::cout << "  [rank-deficient 40x12] singular values: " << s.transpose() << "\n";
            g_fail++;
        }
        std::cout << (ok ? "ok    " : "BAD   ") << "rank-deficient 40x12 (values only)\n";
    }

    if (g_fail)
    {
        std::cout << "FAIL: " << g_fail << " violated check(s) of property C16\n";
        return 1;
    }
    std::cout << "PASS\n";
    return 0;
}
