// Property C07: the Krylov factorization handed on after init(), after every extension and
// after every implicit restart satisfies  A V = V H + f e_k',  V'BV = I,  V'Bf = 0  to
// rounding level relative to ||A||, with H upper Hessenberg (symmetric tridiagonal for the
// Lanczos variant) and k equal to the advertised dimension -- in particular when the
// sequence breaks down and is continued with a fresh direction, for start vectors that are
// eigenvectors, and for every breakdown position.
//
// The program runs the real solvers (SymEigsSolver -> Lanczos, GenEigsSolver -> Arnoldi,
// SymGEigsSolver in regular-inverse mode -> Lanczos with a B-inner product) on operators of
// small rank, started from a unit vector that is an eigenvector, and inspects the private
// factorization after init() and after every compute(maxit = 1) call.  The Krylov sequence
// breaks down at EVERY step: first inside the range of the operator, then (once the basis
// contains the whole range) in its null space.
#include <Eigen/Core>
#include <Eigen/SparseCore>
#include <Spectra/SymEigsSolver.h>
#include <Spectra/GenEigsSolver.h>
#include <Spectra/SymGEigsSolver.h>
#include <Spectra/MatOp/DenseSymMatProd.h>
#include <Spectra/MatOp/DenseGenMatProd.h>
#include <Spectra/MatOp/SparseSymMatProd.h>
#include <Spectra/MatOp/SparseRegularInverse.h>
#include <iostream>
#include <exception>
#include <cmath>

using namespace Spectra;
using Matrix = Eigen::MatrixXd;
using Vector = Eigen::VectorXd;
using SpMatrix = Eigen::SparseMatrix<double>;
using Index = Eigen::Index;

// Expose the protected factorization object of a solver
template <typename Solver>
class Probe : public Solver
{
public:
    template <typename... Args>
    Probe(Args&&... args) : Solver(std::forward<Args>(args)...) {}
    const Matrix& V() const { return this->m_fac.matrix_V(); }
    const Matrix& H() const { return this->m_fac.matrix_H(); }
    const Vector& f() const { return this->m_fac.vector_f(); }
    double fnorm() const { return this->m_fac.f_norm(); }
    Index k() const { return this->m_fac.subspace_dim(); }
};

static int nfail = 0;

// Op: the operator that generates the Krylov sequence, as a dense matrix
// B : the inner-product matrix (identity for standard problems)
template <typename P>
static void check(const char* what, const char* stage, const P& s, const Matrix& Op, const Matrix& B,
                  Index expect_k, bool symmetric)
{
    const double Anorm = Op.norm();
    const double tol = 1e-10;
    const Index k = s.k();
    if (k != expect_k)
    {
        std::cout << "  [" << what << ", " << stage << "] advertised dimension " << k << " != " << expect_k << "\n";
        nfail++;
        return;
    }
    Matrix V = s.V().leftCols(k);
    Matrix H = s.H().topLeftCorner(k, k);
    Vector f = s.f();
    Matrix R = Op * V - V * H;
    R.col(k - 1) -= f;
    const double e_fact = R.cwiseAbs().maxCoeff() / Anorm;
    const double e_orth = (V.transpose() * B * V - Matrix::Identity(k, k)).cwiseAbs().maxCoeff();
    const double e_vf = (V.transpose() * B * f).cwiseAbs().maxCoeff() / Anorm;
    double e_shape = 0.0;
    for (Index j = 0; j < k; j++)
        for (Index i = 0; i < k; i++)
        {
            const bool must_be_zero = symmetric ? (std::abs(double(i - j)) > 1) : (i > j + 1);
            if (must_be_zero)
                e_shape = std::max(e_shape, std::abs(H(i, j)));
            if (must_be_zero && !(std::abs(H(i, j)) <= tol * Anorm))
                e_shape = std::max(e_shape, 1.0);  // also catches NaN
        }
    if (symmetric)
        e_shape = std::max(e_shape, (H - H.transpose()).cwiseAbs().maxCoeff());
    e_shape /= Anorm;
    const double e_beta = std::abs(s.fnorm() - std::sqrt(std::abs(f.dot(B * f)))) / Anorm;
    const bool ok = (e_fact <= tol) && (e_orth <= tol) && (e_vf <= tol) && (e_shape <= tol) && (e_beta <= tol) &&
        V.allFinite() && H.allFinite() && f.allFinite();
    if (!ok)
    {
        nfail++;
        std::cout << "  [" << what << ", " << stage << "] k=" << k
                  << "  |AV-VH-fe'|/|A|=" << e_fact
                  << "  |V'BV-I|=" << e_orth
                  << "  |V'Bf|/|A|=" << e_vf
                  << "  shape(H)=" << e_shape
                  << "  |beta-|f||/|A|=" << e_beta
                  << "  finite(V,H,f)=" << V.allFinite() << H.allFinite() << f.allFinite() << "\n";
    }
}

template <typename P>
static void drive(const char* what, P& eigs, const Matrix& Op, const Matrix& B, Index ncv, const Vector& v0,
                  bool symmetric, SortRule rule)
{
    eigs.init(v0.data());
    check(what, "after init()", eigs, Op, B, 1, symmetric);
    for (int it = 0; it < 5; it++)
    {
        const Index before = eigs.num_operations();
        bool threw = false;
        try
        {
            eigs.compute(rule, 1, 1e-10);
        }
        catch (const std::exception& e)
        {
            // The factorization has already been extended when the Ritz values are extracted,
            // so it is still inspected below
            std::cout << "  [" << what << "] compute() threw: " << e.what() << "\n";
            threw = true;
            nfail++;
        }
        check(what, it == 0 ? "after extension to ncv" : "after restart + extension", eigs, Op, B, threw ? eigs.k() : ncv, symmetric);
        if (threw)
            break;
        if (it > 0 && eigs.num_operations() == before)
            break;  // nothing happened any more: the run is finished
    }
}

int main()
{
    const Index n = 20, nev = 2, ncv = 8;
    const Matrix I = Matrix::Identity(n, n);

    // Operators of rank 2 < ncv.  The start vector e_1 is an eigenvector.
    Matrix D = Matrix::Zero(n, n);
    D(0, 0) = 3.0;
    D(1, 1) = 2.0;
    Vector e1 = Vector::Zero(n);
    e1[0] = 1.0;

    // 1. Symmetric standard problem: Lanczos
    {
        DenseSymMatProd<double> op(D);
        Probe<SymEigsSolver<DenseSymMatProd<double>>> eigs(op, nev, ncv);
        drive("SymEigsSolver, A = diag(3,2,0,...,0), v0 = e1", eigs, D, I, ncv, e1, true, SortRule::LargestAlge);
    }

    // 2. Nonsymmetric standard problem: Arnoldi.  Same spectrum, upper triangular coupling inside the range
    {
        Matrix T = D;
        T(0, 1) = 1.0;
        DenseGenMatProd<double> op(T);
        Probe<GenEigsSolver<DenseGenMatProd<double>>> eigs(op, nev, ncv);
        drive("GenEigsSolver, A = [3 1; 0 2] padded with zeros, v0 = e1", eigs, T, I, ncv, e1, false, SortRule::LargestMagn);
    }

    // 3. Generalized problem A x = lambda B x, regular-inverse mode: Lanczos on inv(B) A with the B-inner product
    {
        SpMatrix As(n, n), Bs(n, n);
        Matrix Bd = Matrix::Zero(n, n);
        for (Index i = 0; i < n; i++)
        {
            const double b = (i % 2 == 0) ? 4.0 : 0.25;  // exactly representable, sqrt exact
            Bs.insert(i, i) = b;
            Bd(i, i) = b;
        }
        As.insert(0, 0) = 3.0;
        As.insert(1, 1) = 2.0;
        As.makeCompressed();
        Bs.makeCompressed();
        using OpType = SparseSymMatProd<double>;
        using BOpType = SparseRegularInverse<double>;
        OpType op(As);
        BOpType Bop(Bs);
        Probe<SymGEigsSolver<OpType, BOpType, GEigsMode::RegularInverse>> eigs(op, Bop, nev, ncv);
        Matrix Op = Matrix::Zero(n, n);  // inv(B) * A, both diagonal
        for (Index i = 0; i < n; i++)
            Op(i, i) = D(i, i) / Bd(i, i);
        drive("SymGEigsSolver (RegularInverse), A = diag(3,2,0,...), B = diag(4,1/4,...), v0 = e1", eigs, Op, Bd, ncv, e1,
              true, SortRule::LargestAlge);
    }

    if (nfail == 0)
    {
        std::cout << "PASS\n";
        return 0;
    }
    std::cout << "FAIL: " << nfail << " check(s) violated the factorization invariant\n";
    return 1;
}
