// Property C01 check: every eigenpair handed back as converged by SymEigsSolver,
// HermEigsSolver and SymEigsShiftSolver satisfies
//     ||A x - theta x|| <= tol * (documented convergence scale) + (rounding-level multiple of ||A||),
//     ||x|| = 1,
// and the returned vectors are orthonormal to rounding level.
//
// Scenario: WARM START.  The solver is initialised with a user-supplied start vector that is
// (almost) inside an invariant subspace: an eigenvector that an earlier run returned, i.e. an
// eigenvector that is accurate to about 1e-10 but not exact.  Runs with the default start
// vector are included as a control.
//
// g++ -std=c++11 -O1 -I/tmp/wt-C01/include -I/usr/include/eigen3 demo.cpp -o demo

#include <Eigen/Core>
#include <Eigen/Eigenvalues>
#include <complex>
#include <cmath>
#include <cstdio>
#include <limits>
#include <string>

#include <Spectra/SymEigsSolver.h>
#include <Spectra/HermEigsSolver.h>
#include <Spectra/SymEigsShiftSolver.h>
#include <Spectra/MatOp/DenseSymMatProd.h>
#include <Spectra/MatOp/DenseHermMatProd.h>
#include <Spectra/MatOp/DenseSymShiftSolve.h>

using namespace Spectra;

typedef Eigen::MatrixXd Mat;
typedef Eigen::VectorXd Vec;
typedef Eigen::MatrixXcd CMat;
typedef Eigen::VectorXcd CVec;

static int g_fail = 0;
static const double EPS = std::numeric_limits<double>::epsilon();

// shift_scale < 0 : standard mode, convergence scale = max(eps^(2/3), |theta|)
// shift_scale >= 0: shift-and-invert mode, scale = ||A - sigma I|| (documented accuracy after back-transformation)
template <typename M, typename Solver>
void check(const std::string& name, const M& A, double normA, Solver& eigs, double tol, double shift_scale = -1.0)
{
    const Vec evals = eigs.eigenvalues();
    const M evecs = eigs.eigenvectors();
    const double eps23 = std::pow(EPS, 2.0 / 3.0);
    const long nret = evals.size();
    double worst_ratio = 0.0, worst_res = 0.0, worst_allowed = 0.0, worst_norm = 0.0;
    for (long j = 0; j < nret; j++)
    {
        const double res = (A * evecs.col(j) - evals[j] * evecs.col(j)).norm();
        const double scale = (shift_scale < 0) ? std::max(eps23, std::abs(evals[j])) : shift_scale;
        const double allowed = 1.01 * tol * scale + 500 * EPS * normA;
        if (res / allowed >= worst_ratio)
        {
            worst_ratio = res / allowed;
            worst_res = res;
            worst_allowed = allowed;
        }
        worst_norm = std::max(worst_norm, std::abs(evecs.col(j).norm() - 1.0));
    }
    double ortho = 0.0;
    if (nret > 0)
        ortho = (evecs.adjoint() * evecs - M::Identity(nret, nret)).cwiseAbs().maxCoeff();

    const bool ok = (worst_ratio <= 1.0) && (ortho <= 1000 * EPS) && (worst_norm <= 1000 * EPS) &&
        (evecs.cols() == nret);
    std::printf("%-58s info=%d returned=%ld  worst residual=%.3e (allowed %.3e)  ortho err=%.1e  %s\n",
                name.c_str(), int(eigs.info()), nret, worst_res, worst_allowed, ortho, ok ? "ok" : "VIOLATION");
    if (!ok)
        g_fail++;
}

int main()
{
    const int n = 100;
    const double tol = 1e-6;
    std::srand(3);

    // =========================================================== real symmetric, standard mode
    {
        Mat R = Mat::Random(n, n);
        const Mat A = R + R.transpose();
        const double normA = Eigen::SelfAdjointEigenSolver<Mat>(A, Eigen::EigenvaluesOnly).eigenvalues().cwiseAbs().maxCoeff();

        // First run, default start vector, tight tolerance
        DenseSymMatProd<double> op(A);
        SymEigsSolver<DenseSymMatProd<double>> first(op, 4, 10);
        first.init();
        first.compute(SortRule::LargestAlge, 1000, 1e-10);
        check("SymEigs, default start, tol=1e-10 (control)", A, normA, first, 1e-10);
        const Mat X = first.eigenvectors();

        // Warm starts from each of the vectors returned by the first run
        for (long j = 0; j < X.cols(); j++)
        {
            Vec v0 = X.col(j);
            {
                SymEigsSolver<DenseSymMatProd<double>> eigs(op, 4, 10);
                eigs.init(v0.data());
                eigs.compute(SortRule::LargestAlge, 1000, tol);
                check("SymEigs, warm start from returned vector #" + std::to_string(j) + ", LargestAlge", A, normA, eigs, tol);
            }
            {
                // Same object used twice: compute(), then a new warm start, then compute() again
                SymEigsSolver<DenseSymMatProd<double>> eigs(op, 2, 6);
                eigs.init();
                eigs.compute(SortRule::LargestMagn, 1000, tol);
                eigs.init(v0.data());
                eigs.compute(SortRule::LargestMagn, 3, tol);  // partial output allowed
                check("SymEigs, re-init with vector #" + std::to_string(j) + ", LargestMagn, maxit=3", A, normA, eigs, tol);
                eigs.compute(SortRule::LargestMagn, 1000, tol);
                check("  ... then compute() again without init()", A, normA, eigs, tol);
            }
        }
    }

    // =========================================================== complex Hermitian
    {
        CMat C = CMat::Random(n, n);
        const CMat A = C + C.adjoint();
        const double normA = Eigen::SelfAdjointEigenSolver<CMat>(A, Eigen::EigenvaluesOnly).eigenvalues().cwiseAbs().maxCoeff();
        DenseHermMatProd<std::complex<double>> op(A);
        HermEigsSolver<DenseHermMatProd<std::complex<double>>> first(op, 3, 10);
        first.init();
        first.compute(SortRule::SmallestAlge, 1000, 1e-10);
        check("HermEigs, default start, tol=1e-10 (control)", A, normA, first, 1e-10);
        const CMat X = first.eigenvectors();
        for (long j = 0; j < X.cols(); j++)
        {
            CVec v0 = X.col(j);
            HermEigsSolver<DenseHermMatProd<std::complex<double>>> eigs(op, 3, 10);
            eigs.init(v0.data());
            eigs.compute(SortRule::SmallestAlge, 1000, tol);
            check("HermEigs, warm start from returned vector #" + std::to_string(j) + ", SmallestAlge", A, normA, eigs, tol);
        }
    }

    // =========================================================== shift-and-invert
    {
        Mat R = Mat::Random(n, n);
        const Mat A = R + R.transpose();
        Eigen::SelfAdjointEigenSolver<Mat> es(A);
        const double sigma = 0.3;
        const double normA = es.eigenvalues().cwiseAbs().maxCoeff() + std::abs(sigma);
        const double norm_shifted = (es.eigenvalues().array() - sigma).abs().maxCoeff();

        DenseSymShiftSolve<double> op(A);
        SymEigsShiftSolver<DenseSymShiftSolve<double>> first(op, 3, 10, sigma);
        first.init();
        first.compute(SortRule::LargestMagn, 1000, 1e-10);
        check("SymEigsShift, default start, tol=1e-10 (control)", A, normA, first, 1e-10, norm_shifted);
        const Mat X = first.eigenvectors();
        for (long j = 0; j < X.cols(); j++)
        {
            Vec v0 = X.col(j);
            SymEigsShiftSolver<DenseSymShiftSolve<double>> eigs(op, 3, 10, sigma);
            eigs.init(v0.data());
            eigs.compute(SortRule::LargestMagn, 1000, tol);
            check("SymEigsShift, warm start from returned vector #" + std::to_string(j), A, normA, eigs, tol, norm_shifted);
        }
    }

    if (g_fail)
    {
        std::printf("FAIL: %d run(s) handed back 'converged' eigenpairs that are not eigenpairs of A to the requested accuracy\n", g_fail);
        return 1;
    }
    std::printf("PASS\n");
    return 0;
}
