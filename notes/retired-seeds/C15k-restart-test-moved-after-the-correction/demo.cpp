// Property C15: Davidson solver -- Successful means true residuals below tol
// (against the user's matrix), unit-norm mutually orthonormal vectors, pairs
// ordered by the selection rule, compute() == nev; values finite whatever the
// outcome; the same when the caller supplies the initial search space.
//
// The cases below are small matrices whose search space fills up to (nearly)
// the matrix dimension before convergence, so the solver has to restart.
//
// g++ -std=c++11 -O1 -I/tmp/wt-C15/include -I/usr/include/eigen3 demo.cpp -o demo

#include <Eigen/Core>
#include <Eigen/SparseCore>
#include <Spectra/DavidsonSymEigsSolver.h>
#include <Spectra/MatOp/DenseSymMatProd.h>
#include <Spectra/MatOp/SparseSymMatProd.h>
#include <iostream>
#include <cmath>
#include <cstdlib>
#include <string>

using namespace Spectra;
using Eigen::Index;
using Eigen::MatrixXd;
using Eigen::VectorXd;
typedef Eigen::SparseMatrix<double> SpMat;

static int g_fail = 0;
static int g_successful = 0;

static const char* rule_name(SortRule r)
{
    switch (r)
    {
        case SortRule::LargestAlge: return "LargestAlge";
        case SortRule::SmallestAlge: return "SmallestAlge";
        case SortRule::LargestMagn: return "LargestMagn";
        case SortRule::SmallestMagn: return "SmallestMagn";
        default: return "?";
    }
}

// a comes before-or-equal b under the rule
static bool in_order(SortRule r, double a, double b)
{
    const double slack = 1e-12 * (1.0 + std::abs(a) + std::abs(b));
    switch (r)
    {
        case SortRule::LargestAlge: return a >= b - slack;
        case SortRule::SmallestAlge: return a <= b + slack;
        case SortRule::LargestMagn: return std::abs(a) >= std::abs(b) - slack;
        case SortRule::SmallestMagn: return std::abs(a) <= std::abs(b) + slack;
        default: return false;
    }
}

static void fail(const std::string& label, SortRule r, const std::string& what)
{
    std::cout << "FAIL [" << label << ", " << rule_name(r) << "]: " << what << std::endl;
    g_fail++;
}

// Check the clauses of the property on the outcome of one solve.
// A is the user's matrix (full symmetric, dense copy).
template <typename Solver>
static void check_outcome(const std::string& label, SortRule rule, const MatrixXd& A,
                          const Solver& eigs, Index nret, Index nev, double tol)
{
    const VectorXd evals = eigs.eigenvalues();
    const MatrixXd evecs = eigs.eigenvectors();

    // Whatever the outcome: finite
    if (!evals.allFinite() || !evecs.allFinite())
        fail(label, rule, "non-finite values returned");

    if (eigs.info() != CompInfo::Successful)
        return;
    g_successful++;

    if (nret != nev)
        fail(label, rule, "Successful but compute() returned " + std::to_string(nret) + " != nev");
    if (evals.size() != nev || evecs.cols() != nev)
    {
        fail(label, rule, "Successful but fewer than nev pairs returned");
        return;
    }
    for (Index j = 0; j < nev; j++)
    {
        const double nrm = evecs.col(j).norm();
        const double res = (A * evecs.col(j) - evals[j] * evecs.col(j)).norm();
        if (!(res < tol))
            fail(label, rule, "Successful but ||A x - theta x|| = " + std::to_string(res) + " for pair " + std::to_string(j));
        if (!(std::abs(nrm - 1.0) < 1e-8))
            fail(label, rule, "Successful but ||x|| = " + std::to_string(nrm) + " for pair " + std::to_string(j) +
                     " (theta = " + std::to_string(evals[j]) + ")");
        if (j + 1 < nev && !in_order(rule, evals[j], evals[j + 1]))
            fail(label, rule, "Successful but pairs not ordered by the rule at position " + std::to_string(j));
    }
    const double orth = (evecs.transpose() * evecs - MatrixXd::Identity(nev, nev)).cwiseAbs().maxCoeff();
    if (!(orth < 1e-8))
        fail(label, rule, "Successful but max |X'X - I| = " + std::to_string(orth));
}

static MatrixXd make_matrix(int n, double off, double shift, unsigned seed)
{
    std::srand(seed);
    MatrixXd M = off * MatrixXd::Random(n, n);
    MatrixXd A = M + M.transpose();
    for (int i = 0; i < n; i++)
        A(i, i) += (i + 1) + shift;
    return A;
}

static const SortRule rules[4] = {SortRule::LargestAlge, SortRule::SmallestAlge,
                                  SortRule::LargestMagn, SortRule::SmallestMagn};

int main()
{
    const double tol = 1e-10;
    const Index maxit = 300;

    // 1. dense wrapper, default search-space sizes, small matrices: the default
    //    maximal size 10*nev is not below n, so the solver caps it at n.
    {
        const int ns[3] = {20, 25, 32};
        const int nevs[3] = {3, 4, 3};
        for (int c = 0; c < 3; c++)
        {
            const MatrixXd A = make_matrix(ns[c], 0.3, 0.0, 3 + c);
            for (int r = 0; r < 4; r++)
            {
                DenseSymMatProd<double> op(A);
                DavidsonSymEigsSolver<DenseSymMatProd<double>> eigs(op, nevs[c]);
                Index nret = eigs.compute(rules[r], maxit, tol);
                check_outcome("dense n=" + std::to_string(ns[c]) + " nev=" + std::to_string(nevs[c]) + " default sizes",
                              rules[r], A, eigs, nret, nevs[c], tol);
            }
        }
    }

    // 2. dense wrapper, explicit sizes: n = 41, initial 4, maximal 40, correction 2;
    //    indefinite matrix (diagonal shifted), not diagonally dominant
    {
        const int n = 41, nev = 2;
        const MatrixXd A = make_matrix(n, 0.5, -20.5, 11);
        for (int r = 0; r < 4; r++)
        {
            DenseSymMatProd<double> op(A);
            DavidsonSymEigsSolver<DenseSymMatProd<double>> eigs(op, nev, 4, 40);
            Index nret = eigs.compute(rules[r], maxit, tol);
            check_outcome("dense n=41 nev=2 init=4 max=40", rules[r], A, eigs, nret, nev, tol);
        }
    }

    // 3. sparse wrapper, default sizes
    {
        const int n = 26, nev = 3;
        MatrixXd A = make_matrix(n, 0.3, 0.0, 21);
        // thin out the coupling a little, keep it symmetric
        for (int i = 0; i < n; i++)
            for (int j = 0; j < i; j++)
                if ((i + 2 * j) % 3 == 0)
                    A(i, j) = A(j, i) = 0.0;
        SpMat S = A.sparseView();
        S.makeCompressed();
        for (int r = 0; r < 4; r++)
        {
            SparseSymMatProd<double> op(S);
            DavidsonSymEigsSolver<SparseSymMatProd<double>> eigs(op, nev);
            Index nret = eigs.compute(rules[r], maxit, tol);
            check_outcome("sparse n=26 nev=3 default sizes", rules[r], A, eigs, nret, nev, tol);
        }
    }

    // 4. caller-supplied orthonormal initial space (6 coordinate vectors in the middle of the diagonal)
    {
        const int n = 20, nev = 3;
        const MatrixXd A = make_matrix(n, 0.3, 0.0, 3);
        MatrixXd guess = MatrixXd::Zero(n, 6);
        for (int k = 0; k < 6; k++)
            guess(7 + k, k) = 1.0;
        for (int r = 0; r < 4; r++)
        {
            DenseSymMatProd<double> op(A);
            DavidsonSymEigsSolver<DenseSymMatProd<double>> eigs(op, nev);
            Index nret = eigs.compute_with_guess(guess, rules[r], maxit, tol);
            check_outcome("dense n=20 nev=3 user guess", rules[r], A, eigs, nret, nev, tol);
        }
    }

    // 5. control: a larger matrix where the search space stays far below n
    {
        const int n = 300, nev = 4;
        const MatrixXd A = make_matrix(n, 0.05, 0.0, 5);
        for (int r = 0; r < 2; r++)
        {
            DenseSymMatProd<double> op(A);
            DavidsonSymEigsSolver<DenseSymMatProd<double>> eigs(op, nev);
            Index nret = eigs.compute(rules[r], maxit, tol);
            check_outcome("dense n=300 nev=4 control", rules[r], A, eigs, nret, nev, tol);
        }
    }

    if (g_fail == 0 && g_successful < 8)
    {
        std::cout << "FAIL: demo is vacuous, only " << g_successful << " solves were Successful" << std::endl;
        return 2;
    }
    if (g_fail)
    {
        std::cout << "FAIL (" << g_fail << " violations, " << g_successful << " Successful solves)" << std::endl;
        return 1;
    }
    std::cout << "PASS (" << g_successful << " Successful solves checked)" << std::endl;
    return 0;
}
