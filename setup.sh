#!/bin/sh
# Builds the fact extractor (libTooling) from sources on disk. Offline; ~35 s.
set -e
cd "$(dirname "$0")"
mkdir -p bin
if [ ! -x bin/spectra-facts ] || [ tool/spectra_facts.cc -nt bin/spectra-facts ]; then
    clang++ $(llvm-config-14 --cxxflags) -fno-rtti -O1 tool/spectra_facts.cc -o bin/spectra-facts \
        /usr/lib/llvm-14/lib/libclang-cpp.so.14 /usr/lib/llvm-14/lib/libLLVM-14.so
fi
echo "setup ok: $(ls -la bin/spectra-facts)"
