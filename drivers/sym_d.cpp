// Symmetric standard solvers, double (SymEigsSolver, SymEigsShiftSolver) and the dense helpers they use
#include <Spectra/SymEigsSolver.h>
#include <Spectra/SymEigsShiftSolver.h>
#include <Spectra/MatOp/DenseSymMatProd.h>
#include <Spectra/MatOp/DenseSymShiftSolve.h>
#include "inst.h"
typedef Spectra::DenseSymMatProd<double> OpA;
typedef Spectra::DenseSymShiftSolve<double> OpS;
INST_HERM(double, OpA, Spectra::IdentityBOp)
template class Spectra::SymEigsSolver<OpA>;
INST_HERM(double, OpS, Spectra::IdentityBOp)
template class Spectra::SymEigsShiftSolver<OpS>;
template class Spectra::TridiagEigen<double>;
template class Spectra::UpperHessenbergQR<double>;
template class Spectra::TridiagQR<double>;
