// Generalized shift modes with a dense pencil
#include <Spectra/SymGEigsShiftSolver.h>
#include <Spectra/MatOp/SymShiftInvert.h>
#include <Spectra/MatOp/DenseSymMatProd.h>
#include "inst.h"
using namespace Spectra;
typedef SymShiftInvert<double, Eigen::Dense, Eigen::Dense> OpDD;
typedef DenseSymMatProd<double> BopD;
typedef SymGEigsShiftInvertOp<OpDD, BopD> SIOp;
template class Spectra::SymGEigsShiftInvertOp<OpDD, BopD>;
INST_HERM_B(double, SIOp, BopD)
template class Spectra::SymGEigsShiftSolver<OpDD, BopD, GEigsMode::ShiftInvert>;
typedef SymGEigsBucklingOp<OpDD, BopD> BkOp;
template class Spectra::SymGEigsBucklingOp<OpDD, BopD>;
INST_HERM_B(double, BkOp, BopD)
template class Spectra::SymGEigsShiftSolver<OpDD, BopD, GEigsMode::Buckling>;
typedef SymGEigsCayleyOp<OpDD, BopD> CyOp;
template class Spectra::SymGEigsCayleyOp<OpDD, BopD>;
INST_HERM_B(double, CyOp, BopD)
template class Spectra::SymGEigsShiftSolver<OpDD, BopD, GEigsMode::Cayley>;
