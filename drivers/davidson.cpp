// Davidson solver with dense and sparse product wrappers, and its helper classes
#include <Spectra/DavidsonSymEigsSolver.h>
#include <Spectra/MatOp/DenseSymMatProd.h>
#include <Spectra/MatOp/SparseSymMatProd.h>
#include "inst.h"
using namespace Spectra;
template class Spectra::RitzPairs<double>;
template class Spectra::SearchSpace<double>;
template class Spectra::JDSymEigsBase<DavidsonSymEigsSolver<DenseSymMatProd<double>>, DenseSymMatProd<double>>;
template class Spectra::DavidsonSymEigsSolver<DenseSymMatProd<double>>;
template class Spectra::JDSymEigsBase<DavidsonSymEigsSolver<SparseSymMatProd<double>>, SparseSymMatProd<double>>;
template class Spectra::DavidsonSymEigsSolver<SparseSymMatProd<double>>;
// free function templates of Orthogonalization.h that the solver itself does not call
template void Spectra::MGS_orthogonalisation<DMat>(DMat&, Eigen::Index);
template void Spectra::GS_orthogonalisation<DMat>(DMat&, Eigen::Index);
template void Spectra::QR_orthogonalisation<DMat>(DMat&);
template void Spectra::JensWehner_orthogonalisation<DMat>(DMat&, Eigen::Index);
template void Spectra::twice_is_enough_orthogonalisation<DMat>(DMat&, Eigen::Index);
