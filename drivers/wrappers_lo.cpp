// Matrix-operation wrappers, default options (Lower, ColMajor, int) -- every member and the templated constructors
#include <Spectra/MatOp/DenseGenMatProd.h>
#include <Spectra/MatOp/DenseSymMatProd.h>
#include <Spectra/MatOp/DenseHermMatProd.h>
#include <Spectra/MatOp/SparseGenMatProd.h>
#include <Spectra/MatOp/SparseSymMatProd.h>
#include <Spectra/MatOp/SparseHermMatProd.h>
#include <Spectra/MatOp/DenseSymShiftSolve.h>
#include <Spectra/MatOp/SparseSymShiftSolve.h>
#include <Spectra/MatOp/DenseGenRealShiftSolve.h>
#include <Spectra/MatOp/SparseGenRealShiftSolve.h>
#include <Spectra/MatOp/DenseGenComplexShiftSolve.h>
#include <Spectra/MatOp/SparseGenComplexShiftSolve.h>
#include <Spectra/MatOp/DenseCholesky.h>
#include <Spectra/MatOp/SparseCholesky.h>
#include <Spectra/MatOp/SparseRegularInverse.h>
#include "inst.h"
#ifndef UPLO
#define UPLO Eigen::Lower
#define TAG lo
#endif
#define CAT_(a, b) a##b
#define CAT(a, b) CAT_(a, b)
using namespace Spectra;
template class Spectra::DenseGenMatProd<double>;
template class Spectra::SparseGenMatProd<double>;
template class Spectra::DenseSymMatProd<double, UPLO>;
template class Spectra::DenseHermMatProd<cdouble, UPLO>;
template class Spectra::SparseSymMatProd<double, UPLO>;
template class Spectra::SparseHermMatProd<cdouble, UPLO>;
template class Spectra::DenseSymShiftSolve<double, UPLO>;
template class Spectra::SparseSymShiftSolve<double, UPLO>;
template class Spectra::DenseGenRealShiftSolve<double>;
template class Spectra::SparseGenRealShiftSolve<double>;
template class Spectra::DenseGenComplexShiftSolve<double>;
template class Spectra::SparseGenComplexShiftSolve<double>;
template class Spectra::DenseCholesky<double, UPLO>;
template class Spectra::SparseCholesky<double, UPLO>;
template class Spectra::SparseRegularInverse<double, UPLO>;
template class Spectra::BKLDLT<double>;
// the constructors are member templates: instantiate them by use
void CAT(use_ctors_, TAG)(const DMat& d, const SMat& s, const CMat& c, const CSMat& cs)
{
    DenseGenMatProd<double> a1(d);
    SparseGenMatProd<double> a2(s);
    DenseSymMatProd<double, UPLO> a3(d);
    DenseHermMatProd<cdouble, UPLO> a4(c);
    SparseSymMatProd<double, UPLO> a5(s);
    SparseHermMatProd<cdouble, UPLO> a6(cs);
    DenseSymShiftSolve<double, UPLO> a7(d);
    SparseSymShiftSolve<double, UPLO> a8(s);
    DenseGenRealShiftSolve<double> a9(d);
    SparseGenRealShiftSolve<double> a10(s);
    DenseGenComplexShiftSolve<double> a11(d);
    SparseGenComplexShiftSolve<double> a12(s);
    DenseCholesky<double, UPLO> a13(d);
    SparseCholesky<double, UPLO> a14(s);
    SparseRegularInverse<double, UPLO> a15(s);
    // products with matrix arguments (operator*) are member templates as well
    DMat r1 = a1 * d;
    DMat r2 = a2 * d;
    DMat r3 = a3 * d;
    DMat r5 = a5 * d;
    (void) a3(0, 0);
    (void) a5(0, 0);
}
