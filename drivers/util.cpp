// Utilities: ordering primitive for real and complex values (all nine rules), random generator, traits
#include <Spectra/Util/SelectionRule.h>
#include <Spectra/Util/SimpleRandom.h>
#include <Spectra/Util/TypeTraits.h>
#include <Spectra/Util/CompInfo.h>
#include <Spectra/Util/GEigsMode.h>
#include "inst.h"
using namespace Spectra;
#define ST(T, R) template class Spectra::SortingTarget<T, SortRule::R>; template class Spectra::SortEigenvalue<T, SortRule::R>;
ST(double, LargestMagn) ST(double, LargestAlge) ST(double, BothEnds) ST(double, SmallestMagn) ST(double, SmallestAlge)
ST(cdouble, LargestMagn) ST(cdouble, LargestReal) ST(cdouble, LargestImag)
ST(cdouble, SmallestMagn) ST(cdouble, SmallestReal) ST(cdouble, SmallestImag)
template std::vector<Eigen::Index> Spectra::argsort<double>(SortRule, const Eigen::Matrix<double, Eigen::Dynamic, 1>&, Eigen::Index);
template std::vector<Eigen::Index> Spectra::argsort<double>(SortRule, const Eigen::Matrix<double, Eigen::Dynamic, 1>&);
template class Spectra::SimpleRandom<double>;
template class Spectra::SimpleRandom<float>;
template class Spectra::SimpleRandom<long double>;
template class Spectra::SimpleRandom<cdouble>;
template struct Spectra::RandomScalar<double>;
template struct Spectra::RandomScalar<cdouble>;
template struct Spectra::TypeTraits<double>;
template struct Spectra::TypeTraits<float>;
template struct Spectra::TypeTraits<long double>;
// the throwing primary template (rules that are not defined for the value type)
template class Spectra::SortingTarget<double, SortRule::LargestReal>;
template class Spectra::SortingTarget<double, SortRule::SmallestImag>;
template class Spectra::SortingTarget<float, SortRule::LargestMagn>;
template class Spectra::SortEigenvalue<float, SortRule::SmallestAlge>;
