// Hermitian solver, complex<double>, dense and sparse operators
#include <Spectra/HermEigsSolver.h>
#include <Spectra/MatOp/DenseHermMatProd.h>
#include <Spectra/MatOp/SparseHermMatProd.h>
#include "inst.h"
typedef Spectra::DenseHermMatProd<cdouble> OpA;
typedef Spectra::SparseHermMatProd<cdouble> OpB;
INST_HERM(cdouble, OpA, Spectra::IdentityBOp)
template class Spectra::HermEigsSolver<OpA>;
INST_HERM(cdouble, OpB, Spectra::IdentityBOp)
template class Spectra::HermEigsSolver<OpB>;
