// thorough tier: generalized solvers in float with Upper triangles / RowMajor storage; Davidson float; SVD float row-major; LOBPCG float
#include <Spectra/SymGEigsSolver.h>
#include <Spectra/SymGEigsShiftSolver.h>
#include <Spectra/DavidsonSymEigsSolver.h>
#include <Spectra/contrib/PartialSVDSolver.h>
#include <Spectra/contrib/LOBPCGSolver.h>
#include <Spectra/MatOp/DenseSymMatProd.h>
#include <Spectra/MatOp/SparseSymMatProd.h>
#include <Spectra/MatOp/DenseCholesky.h>
#include <Spectra/MatOp/SparseRegularInverse.h>
#include <Spectra/MatOp/SymShiftInvert.h>
#include "inst.h"
using namespace Spectra;
typedef DenseSymMatProd<float, Eigen::Upper> OpA;
typedef DenseCholesky<float, Eigen::Upper> OpB;
template class Spectra::SymGEigsCholeskyOp<OpA, OpB>;
template class Spectra::SymGEigsSolver<OpA, OpB, GEigsMode::Cholesky>;
typedef SparseSymMatProd<float, Eigen::Upper> SOpA;
typedef SparseRegularInverse<float, Eigen::Upper> ROpB;
template class Spectra::SymGEigsRegInvOp<SOpA, ROpB>;
template class Spectra::SymGEigsSolver<SOpA, ROpB, GEigsMode::RegularInverse>;
typedef SymShiftInvert<float, Eigen::Dense, Eigen::Sparse, Eigen::Upper, Eigen::Lower> SI;
typedef SparseSymMatProd<float, Eigen::Lower> SIB;
template class Spectra::SymGEigsShiftSolver<SI, SIB, GEigsMode::ShiftInvert>;
template class Spectra::SymGEigsShiftSolver<SI, SIB, GEigsMode::Buckling>;
template class Spectra::SymGEigsShiftSolver<SI, SIB, GEigsMode::Cayley>;
template class Spectra::DavidsonSymEigsSolver<DenseSymMatProd<float>>;
template class Spectra::JDSymEigsBase<DavidsonSymEigsSolver<DenseSymMatProd<float>>, DenseSymMatProd<float>>;
typedef Eigen::Matrix<float, Eigen::Dynamic, Eigen::Dynamic, Eigen::RowMajor> FMatR;
template class Spectra::PartialSVDSolver<FMatR>;
template class Spectra::SVDTallMatOp<float, FMatR>;
template class Spectra::SVDWideMatOp<float, FMatR>;
template class Spectra::LOBPCGSolver<float>;
void use_geigs_f(OpA& a, OpB& b, SOpA& sa, ROpB& rb, SI& si, SIB& sib)
{
    SymGEigsSolver<OpA, OpB, GEigsMode::Cholesky> s1(a, b, 2, 5);
    SymGEigsSolver<SOpA, ROpB, GEigsMode::RegularInverse> s2(sa, rb, 2, 5);
    SymGEigsShiftSolver<SI, SIB, GEigsMode::ShiftInvert> s3(si, sib, 2, 5, 1.0f);
    SymGEigsShiftSolver<SI, SIB, GEigsMode::Buckling> s4(si, sib, 2, 5, 1.0f);
    SymGEigsShiftSolver<SI, SIB, GEigsMode::Cayley> s5(si, sib, 2, 5, 1.0f);
    s1.init(); s1.compute(); (void) s1.eigenvectors(); (void) s1.eigenvalues(); (void) s1.num_operations();
    s2.init(); s2.compute(); (void) s2.eigenvectors(); (void) s2.eigenvalues(); (void) s2.num_operations();
    s3.init(); s3.compute(); (void) s3.eigenvectors(); (void) s3.eigenvalues(); (void) s3.num_operations();
    s4.init(); s4.compute(); (void) s4.eigenvectors(); (void) s4.eigenvalues(); (void) s4.num_operations();
    s5.init(); s5.compute(); (void) s5.eigenvectors(); (void) s5.eigenvalues(); (void) s5.num_operations();
}
// the solver's constructor may be a member template: instantiate it by use (same-type and column-major arguments)
typedef Eigen::Matrix<float, Eigen::Dynamic, Eigen::Dynamic> FMatC;
void use_svd_ctors_f(const FMatR& r, const FMatC& c)
{
    PartialSVDSolver<FMatR> a(r, 1, 2), b(c, 1, 2);
}
