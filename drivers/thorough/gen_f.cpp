// thorough tier: general solvers in float and long double, sparse operators
#include <Spectra/GenEigsSolver.h>
#include <Spectra/GenEigsRealShiftSolver.h>
#include <Spectra/GenEigsComplexShiftSolver.h>
#include <Spectra/MatOp/DenseGenMatProd.h>
#include <Spectra/MatOp/SparseGenMatProd.h>
#include <Spectra/MatOp/SparseGenRealShiftSolve.h>
#include <Spectra/MatOp/SparseGenComplexShiftSolve.h>
#include <Spectra/MatOp/DenseGenRealShiftSolve.h>
#include "inst.h"
typedef Spectra::DenseGenMatProd<float> OpF;
typedef Spectra::SparseGenMatProd<long double, Eigen::RowMajor, long> OpSL;
typedef Spectra::SparseGenRealShiftSolve<float> OpRF;
typedef Spectra::DenseGenRealShiftSolve<long double, Eigen::RowMajor> OpRL;
typedef Spectra::SparseGenComplexShiftSolve<float> OpCF;
INST_GEN(float, OpF, Spectra::IdentityBOp)
template class Spectra::GenEigsSolver<OpF>;
INST_GEN(long double, OpSL, Spectra::IdentityBOp)
template class Spectra::GenEigsSolver<OpSL>;
INST_GEN(float, OpRF, Spectra::IdentityBOp)
template class Spectra::GenEigsRealShiftSolver<OpRF>;
INST_GEN(long double, OpRL, Spectra::IdentityBOp)
template class Spectra::GenEigsRealShiftSolver<OpRL>;
INST_GEN(float, OpCF, Spectra::IdentityBOp)
template class Spectra::GenEigsComplexShiftSolver<OpCF>;
