// thorough tier: small dense decompositions and BKLDLT in float / long double / complex<float>
#include <Spectra/LinAlg/UpperHessenbergEigen.h>
#include <Spectra/LinAlg/UpperHessenbergSchur.h>
#include <Spectra/LinAlg/UpperHessenbergQR.h>
#include <Spectra/LinAlg/DoubleShiftQR.h>
#include <Spectra/LinAlg/BKLDLT.h>
#include <Spectra/Util/SelectionRule.h>
#include <Spectra/Util/SimpleRandom.h>
#include "inst.h"
using namespace Spectra;
template class Spectra::UpperHessenbergEigen<float>;
template class Spectra::UpperHessenbergEigen<long double>;
template class Spectra::UpperHessenbergSchur<float>;
template class Spectra::UpperHessenbergSchur<long double>;
template class Spectra::UpperHessenbergQR<float>;
template class Spectra::UpperHessenbergQR<long double>;
template class Spectra::DoubleShiftQR<float>;
template class Spectra::DoubleShiftQR<long double>;
template class Spectra::BKLDLT<float>;
template class Spectra::BKLDLT<long double>;
template class Spectra::BKLDLT<std::complex<float>>;
typedef Eigen::Matrix<float, Eigen::Dynamic, Eigen::Dynamic> FMat;
typedef Eigen::Matrix<float, Eigen::Dynamic, Eigen::Dynamic, Eigen::RowMajor> FMatR;
typedef Eigen::Matrix<long double, Eigen::Dynamic, Eigen::Dynamic> LMat;
typedef Eigen::Matrix<std::complex<float>, Eigen::Dynamic, Eigen::Dynamic, Eigen::RowMajor> CFMatR;
void use_bkldlt_f(const FMat& a, const FMatR& b, const LMat& c, const CFMatR& d)
{
    BKLDLT<float> f1(a, Eigen::Upper, 0.5f);
    BKLDLT<float> f2;
    f2.compute(b, Eigen::Lower, 0.5f);
    BKLDLT<long double> f3(c, Eigen::Upper, 0.5L);
    BKLDLT<std::complex<float>> f4(d, Eigen::Upper, 0.5f);
}
typedef std::complex<float> cfloat;
typedef std::complex<long double> cldouble;
#define ST(T, R) template class Spectra::SortingTarget<T, SortRule::R>; template class Spectra::SortEigenvalue<T, SortRule::R>;
ST(float, LargestMagn) ST(float, LargestAlge) ST(float, BothEnds) ST(float, SmallestMagn) ST(float, SmallestAlge)
ST(long double, LargestMagn) ST(long double, LargestAlge) ST(long double, BothEnds) ST(long double, SmallestMagn) ST(long double, SmallestAlge)
ST(cfloat, LargestMagn) ST(cfloat, LargestReal) ST(cfloat, LargestImag) ST(cfloat, SmallestMagn) ST(cfloat, SmallestReal) ST(cfloat, SmallestImag)
ST(cldouble, LargestMagn) ST(cldouble, LargestReal) ST(cldouble, LargestImag) ST(cldouble, SmallestMagn) ST(cldouble, SmallestReal) ST(cldouble, SmallestImag)
template std::vector<Eigen::Index> Spectra::argsort<float>(SortRule, const Eigen::Matrix<float, Eigen::Dynamic, 1>&, Eigen::Index);
template std::vector<Eigen::Index> Spectra::argsort<long double>(SortRule, const Eigen::Matrix<long double, Eigen::Dynamic, 1>&, Eigen::Index);
template class Spectra::SimpleRandom<cfloat>;
template class Spectra::SimpleRandom<cldouble>;
template struct Spectra::RandomScalar<float>;
template struct Spectra::RandomScalar<long double>;
template struct Spectra::RandomScalar<cfloat>;
template struct Spectra::RandomScalar<cldouble>;
