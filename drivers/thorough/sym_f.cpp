// thorough tier: symmetric / Hermitian solvers in float, long double and complex<float>
#include <Spectra/SymEigsSolver.h>
#include <Spectra/HermEigsSolver.h>
#include <Spectra/SymEigsShiftSolver.h>
#include <Spectra/MatOp/DenseSymMatProd.h>
#include <Spectra/MatOp/DenseHermMatProd.h>
#include <Spectra/MatOp/SparseSymMatProd.h>
#include <Spectra/MatOp/DenseSymShiftSolve.h>
#include <Spectra/MatOp/SparseSymShiftSolve.h>
#include "inst.h"
typedef Spectra::DenseSymMatProd<float> OpF;
typedef Spectra::DenseSymMatProd<long double, Eigen::Upper, Eigen::RowMajor> OpL;
typedef Spectra::SparseSymMatProd<float, Eigen::Upper, Eigen::RowMajor, long> OpSF;
typedef Spectra::DenseHermMatProd<std::complex<float>, Eigen::Upper> OpCF;
typedef Spectra::DenseSymShiftSolve<long double, Eigen::Upper, Eigen::RowMajor> OpSL;
typedef Spectra::SparseSymShiftSolve<float, Eigen::Upper, Eigen::RowMajor, long> OpSSF;
INST_HERM(float, OpF, Spectra::IdentityBOp)
template class Spectra::SymEigsSolver<OpF>;
INST_HERM(long double, OpL, Spectra::IdentityBOp)
template class Spectra::SymEigsSolver<OpL>;
INST_HERM(float, OpSF, Spectra::IdentityBOp)
template class Spectra::SymEigsSolver<OpSF>;
INST_HERM(std::complex<float>, OpCF, Spectra::IdentityBOp)
template class Spectra::HermEigsSolver<OpCF>;
INST_HERM(long double, OpSL, Spectra::IdentityBOp)
template class Spectra::SymEigsShiftSolver<OpSL>;
// SparseSymShiftSolve is not copyable (SparseLU member): the rvalue constructor of the base cannot be instantiated explicitly
template class Spectra::SymEigsShiftSolver<OpSSF>;
void use_sparse_shift_f(OpSSF& op)
{
    Spectra::SymEigsShiftSolver<OpSSF> s(op, 2, 5, 1.0f);
    s.init();
    s.compute();
    (void) s.eigenvalues();
    (void) s.eigenvectors();
    (void) s.eigenvectors(1);
    (void) s.num_operations();
    (void) s.num_iterations();
    (void) s.info();
}
template class Spectra::TridiagEigen<float>;
template class Spectra::TridiagEigen<long double>;
template class Spectra::TridiagQR<float>;
template class Spectra::TridiagQR<long double>;
