// thorough tier: wrappers with RowMajor storage, long storage index, float scalar, both triangles
#include <Spectra/MatOp/DenseSymMatProd.h>
#include <Spectra/MatOp/DenseHermMatProd.h>
#include <Spectra/MatOp/SparseSymMatProd.h>
#include <Spectra/MatOp/SparseHermMatProd.h>
#include <Spectra/MatOp/DenseSymShiftSolve.h>
#include <Spectra/MatOp/SparseSymShiftSolve.h>
#include <Spectra/MatOp/DenseCholesky.h>
#include <Spectra/MatOp/SparseCholesky.h>
#include <Spectra/MatOp/SparseRegularInverse.h>
#include <Spectra/MatOp/SymShiftInvert.h>
#include "inst.h"
using namespace Spectra;
#define BOTH(X) X(Eigen::Lower) X(Eigen::Upper)
#define W(U) \
    template class Spectra::DenseSymMatProd<float, U, Eigen::RowMajor>; \
    template class Spectra::DenseHermMatProd<std::complex<float>, U, Eigen::RowMajor>; \
    template class Spectra::SparseSymMatProd<float, U, Eigen::RowMajor, long>; \
    template class Spectra::SparseHermMatProd<std::complex<float>, U, Eigen::RowMajor, long>; \
    template class Spectra::DenseSymShiftSolve<float, U, Eigen::RowMajor>; \
    template class Spectra::SparseSymShiftSolve<float, U, Eigen::RowMajor, long>; \
    template class Spectra::DenseCholesky<float, U, Eigen::RowMajor>; \
    template class Spectra::SparseCholesky<float, U, Eigen::RowMajor, long>; \
    template class Spectra::SparseRegularInverse<float, U, Eigen::RowMajor, long>;
BOTH(W)
typedef Eigen::Matrix<float, Eigen::Dynamic, Eigen::Dynamic, Eigen::RowMajor> FMatR;
typedef Eigen::SparseMatrix<float, Eigen::RowMajor, long> FSMatR;
#define SI(TA, TB, UA, UB) template class Spectra::SymShiftInvert<float, Eigen::TA, Eigen::TB, Eigen::UA, Eigen::UB, Eigen::RowMajor, Eigen::RowMajor, long, long>;
#define SI4(TA, TB) SI(TA, TB, Lower, Lower) SI(TA, TB, Lower, Upper) SI(TA, TB, Upper, Lower) SI(TA, TB, Upper, Upper)
SI4(Sparse, Sparse) SI4(Sparse, Dense) SI4(Dense, Sparse) SI4(Dense, Dense)
#define USE(TA, TB, UA, UB, a, b) { SymShiftInvert<float, Eigen::TA, Eigen::TB, Eigen::UA, Eigen::UB, Eigen::RowMajor, Eigen::RowMajor, long, long> op(a, b); op.set_shift(1.0f); }
#define USE4(TA, TB, a, b) USE(TA, TB, Lower, Lower, a, b) USE(TA, TB, Lower, Upper, a, b) USE(TA, TB, Upper, Lower, a, b) USE(TA, TB, Upper, Upper, a, b)
void use_shiftinv_rm(const FMatR& d, const FSMatR& s)
{
    USE4(Sparse, Sparse, s, s)
    USE4(Sparse, Dense, s, d)
    USE4(Dense, Sparse, d, s)
    USE4(Dense, Dense, d, d)
    DenseSymShiftSolve<float, Eigen::Upper, Eigen::RowMajor> a1(d);
    a1.set_shift(1.0f);
    SparseSymShiftSolve<float, Eigen::Lower, Eigen::RowMajor, long> a2(s);
    a2.set_shift(1.0f);
    DenseCholesky<float, Eigen::Upper, Eigen::RowMajor> a3(d);
    SparseCholesky<float, Eigen::Upper, Eigen::RowMajor, long> a4(s);
    SparseRegularInverse<float, Eigen::Upper, Eigen::RowMajor, long> a5(s);
    DenseSymMatProd<float, Eigen::Upper, Eigen::RowMajor> a6(d);
    SparseSymMatProd<float, Eigen::Upper, Eigen::RowMajor, long> a7(s);
    FMatR r6 = a6 * d;
    FMatR r7 = a7 * d;
}
