// Bunch-Kaufman LDLT: real and complex, compute() from dense sources of both storage orders
#include <Spectra/LinAlg/BKLDLT.h>
#include "inst.h"
using namespace Spectra;
template class Spectra::BKLDLT<double>;
template class Spectra::BKLDLT<cdouble>;
typedef Eigen::Matrix<cdouble, Eigen::Dynamic, Eigen::Dynamic, Eigen::RowMajor> CMatR;
void use_bkldlt(const DMat& d, const DMatR& dr, const CMat& c, const CMatR& cr)
{
    BKLDLT<double> f1(d, Eigen::Lower, 0.5);
    BKLDLT<double> f2;
    f2.compute(dr, Eigen::Upper, 0.5);
    BKLDLT<cdouble> f3(c, Eigen::Upper, 0.5);
    BKLDLT<cdouble> f4;
    f4.compute(cr, Eigen::Lower, 0.5);
}
