// Generalized symmetric solvers: shift-and-invert, buckling and Cayley modes
#include <Spectra/SymGEigsShiftSolver.h>
#include <Spectra/MatOp/SymShiftInvert.h>
#include <Spectra/MatOp/SparseSymMatProd.h>
#include <Spectra/MatOp/DenseSymMatProd.h>
#include "inst.h"
using namespace Spectra;
typedef SymShiftInvert<double, Eigen::Sparse, Eigen::Sparse> OpSS;
typedef SparseSymMatProd<double> BopS;
typedef SymGEigsShiftInvertOp<OpSS, BopS> SIOp;
template class Spectra::SymGEigsShiftInvertOp<OpSS, BopS>;
INST_HERM_B(double, SIOp, BopS)
template class Spectra::SymGEigsShiftSolver<OpSS, BopS, GEigsMode::ShiftInvert>;

typedef SymGEigsBucklingOp<OpSS, BopS> BkOp;
template class Spectra::SymGEigsBucklingOp<OpSS, BopS>;
INST_HERM_B(double, BkOp, BopS)
template class Spectra::SymGEigsShiftSolver<OpSS, BopS, GEigsMode::Buckling>;

typedef SymGEigsCayleyOp<OpSS, BopS> CyOp;
template class Spectra::SymGEigsCayleyOp<OpSS, BopS>;
INST_HERM_B(double, CyOp, BopS)
template class Spectra::SymGEigsShiftSolver<OpSS, BopS, GEigsMode::Cayley>;
