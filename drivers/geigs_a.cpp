// Generalized symmetric solvers: Cholesky and regular-inverse modes
#include <Spectra/SymGEigsSolver.h>
#include <Spectra/MatOp/DenseSymMatProd.h>
#include <Spectra/MatOp/SparseSymMatProd.h>
#include <Spectra/MatOp/DenseCholesky.h>
#include <Spectra/MatOp/SparseCholesky.h>
#include <Spectra/MatOp/SparseRegularInverse.h>
#include "inst.h"
using namespace Spectra;
typedef DenseSymMatProd<double> OpA;
typedef DenseCholesky<double> OpB;
typedef SymGEigsCholeskyOp<OpA, OpB> CholOp;
template class Spectra::SymGEigsCholeskyOp<OpA, OpB>;
INST_HERM(double, CholOp, Spectra::IdentityBOp)
template class Spectra::SymGEigsSolver<OpA, OpB, GEigsMode::Cholesky>;

typedef SparseSymMatProd<double> SOpA;
typedef SparseCholesky<double> SOpB;
typedef SymGEigsCholeskyOp<SOpA, SOpB> SCholOp;
template class Spectra::SymGEigsCholeskyOp<SOpA, SOpB>;
INST_HERM(double, SCholOp, Spectra::IdentityBOp)
template class Spectra::SymGEigsSolver<SOpA, SOpB, GEigsMode::Cholesky>;

typedef SparseRegularInverse<double> ROpB;
typedef SymGEigsRegInvOp<SOpA, ROpB> RegOp;
template class Spectra::SymGEigsRegInvOp<SOpA, ROpB>;
INST_HERM_B(double, RegOp, ROpB)
template class Spectra::SymGEigsSolver<SOpA, ROpB, GEigsMode::RegularInverse>;
