// Small dense decompositions used by the general solvers, double
#include <Spectra/LinAlg/UpperHessenbergEigen.h>
#include <Spectra/LinAlg/UpperHessenbergSchur.h>
#include <Spectra/LinAlg/UpperHessenbergQR.h>
#include <Spectra/LinAlg/DoubleShiftQR.h>
#include <Spectra/LinAlg/TridiagEigen.h>
#include "inst.h"
template class Spectra::UpperHessenbergEigen<double>;
template class Spectra::UpperHessenbergSchur<double>;
template class Spectra::DoubleShiftQR<double>;
