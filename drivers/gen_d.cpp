// General (nonsymmetric) solvers, double
#include <Spectra/GenEigsSolver.h>
#include <Spectra/GenEigsRealShiftSolver.h>
#include <Spectra/GenEigsComplexShiftSolver.h>
#include <Spectra/MatOp/DenseGenMatProd.h>
#include <Spectra/MatOp/DenseGenRealShiftSolve.h>
#include <Spectra/MatOp/DenseGenComplexShiftSolve.h>
#include "inst.h"
typedef Spectra::DenseGenMatProd<double> OpA;
typedef Spectra::DenseGenRealShiftSolve<double> OpR;
typedef Spectra::DenseGenComplexShiftSolve<double> OpC;
INST_GEN(double, OpA, Spectra::IdentityBOp)
template class Spectra::GenEigsSolver<OpA>;
INST_GEN(double, OpR, Spectra::IdentityBOp)
template class Spectra::GenEigsRealShiftSolver<OpR>;
INST_GEN(double, OpC, Spectra::IdentityBOp)
template class Spectra::GenEigsComplexShiftSolver<OpC>;
