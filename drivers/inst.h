// Helper macros for the instantiation drivers.  Each driver is a translation unit that forces clang to
// instantiate every member of the listed Spectra class templates, so that the fact extractor sees fully
// resolved bodies (callees, field types, template arguments) and can build their CFGs.
#ifndef VERIF_INST_H
#define VERIF_INST_H
#include <complex>
#include <Eigen/Core>
#include <Eigen/SparseCore>

#define INST_FAC(S, Op, BOp)                                            \
    template class Spectra::ArnoldiOp<S, Op, BOp>;                      \
    template class Spectra::Arnoldi<S, Spectra::ArnoldiOp<S, Op, BOp>>; \
    template class Spectra::Lanczos<S, Spectra::ArnoldiOp<S, Op, BOp>>;

#define INST_HERM(S, Op, BOp) \
    INST_FAC(S, Op, BOp)      \
    template class Spectra::HermEigsBase<Op, BOp>;

// With a non-identity B operator the adaptor is move-only, so Arnoldi's copying constructor cannot be
// instantiated: the factorization members are then instantiated implicitly through the solver base.
#define INST_HERM_B(S, Op, BOp)                    \
    template class Spectra::ArnoldiOp<S, Op, BOp>; \
    template class Spectra::HermEigsBase<Op, BOp>;

#define INST_GENFAC(S, Op, BOp)                    \
    template class Spectra::ArnoldiOp<S, Op, BOp>; \
    template class Spectra::Arnoldi<S, Spectra::ArnoldiOp<S, Op, BOp>>;

#define INST_GEN(S, Op, BOp) \
    INST_GENFAC(S, Op, BOp)  \
    template class Spectra::GenEigsBase<Op, BOp>;

typedef Eigen::Matrix<double, Eigen::Dynamic, Eigen::Dynamic> DMat;
typedef Eigen::Matrix<double, Eigen::Dynamic, Eigen::Dynamic, Eigen::RowMajor> DMatR;
typedef Eigen::SparseMatrix<double> SMat;
typedef Eigen::SparseMatrix<double, Eigen::RowMajor> SMatR;
typedef std::complex<double> cdouble;
typedef Eigen::Matrix<cdouble, Eigen::Dynamic, Eigen::Dynamic> CMat;
typedef Eigen::SparseMatrix<cdouble> CSMat;
#endif
