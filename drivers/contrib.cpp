// contrib: partial SVD (dense and sparse input) and LOBPCG
#include <Spectra/contrib/PartialSVDSolver.h>
#include <Spectra/contrib/LOBPCGSolver.h>
#include "inst.h"
using namespace Spectra;
template class Spectra::SVDMatOp<double>;
template class Spectra::SVDTallMatOp<double, DMat>;
template class Spectra::SVDWideMatOp<double, DMat>;
template class Spectra::PartialSVDSolver<DMat>;
template class Spectra::SVDTallMatOp<double, SMat>;
template class Spectra::SVDWideMatOp<double, SMat>;
template class Spectra::PartialSVDSolver<SMat>;
// SymEigsSolver<SVDMatOp> cannot be instantiated explicitly (abstract operator, rvalue constructor):
// its members are instantiated through PartialSVDSolver's uses.
template class Spectra::LOBPCGSolver<double>;
// the solver's constructor may be a member template: instantiate it by use, with arguments that map directly
// (same type) and arguments that need an evaluated temporary (other storage order)
void use_svd_ctors(const DMat& d, const DMatR& dr, const SMat& s, const SMatR& sr)
{
    PartialSVDSolver<DMat> a(d, 1, 2), b(dr, 1, 2);
    PartialSVDSolver<SMat> c(s, 1, 2), e(sr, 1, 2);
}
