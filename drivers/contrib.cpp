// contrib: partial SVD (dense and sparse input) and LOBPCG
#include <Spectra/contrib/PartialSVDSolver.h>
#include <Spectra/contrib/LOBPCGSolver.h>
#include "inst.h"
using namespace Spectra;
template class Spectra::SVDMatOp<double>;
template class Spectra::SVDTallMatOp<double, DMat>;
template class Spectra::SVDWideMatOp<double, DMat>;
template class Spectra::PartialSVDSolver<DMat>;
template class Spectra::SVDTallMatOp<double, SMat>;
template class Spectra::SVDWideMatOp<double, SMat>;
template class Spectra::PartialSVDSolver<SMat>;
// SymEigsSolver<SVDMatOp> cannot be instantiated explicitly (abstract operator, rvalue constructor):
// its members are instantiated through PartialSVDSolver's uses.
template class Spectra::LOBPCGSolver<double>;
