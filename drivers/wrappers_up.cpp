// Matrix-operation wrappers with the Upper triangle option (twin of wrappers_lo.cpp)
#define UPLO Eigen::Upper
#define TAG up
#include "wrappers_lo.cpp"
