// SymShiftInvert: the four dense/sparse pairings x the four (UploA, UploB) pairs, with set_shift (helper factorize)
#include <Spectra/MatOp/SymShiftInvert.h>
#include "inst.h"
using namespace Spectra;
#define SI(TA, TB, UA, UB) template class Spectra::SymShiftInvert<double, Eigen::TA, Eigen::TB, Eigen::UA, Eigen::UB>;
#define SI4(TA, TB) SI(TA, TB, Lower, Lower) SI(TA, TB, Lower, Upper) SI(TA, TB, Upper, Lower) SI(TA, TB, Upper, Upper)
SI4(Sparse, Sparse)
SI4(Sparse, Dense)
SI4(Dense, Sparse)
SI4(Dense, Dense)
#define USE(TA, TB, UA, UB, a, b) { SymShiftInvert<double, Eigen::TA, Eigen::TB, Eigen::UA, Eigen::UB> op(a, b); op.set_shift(1.0); }
#define USE4(TA, TB, a, b) USE(TA, TB, Lower, Lower, a, b) USE(TA, TB, Lower, Upper, a, b) USE(TA, TB, Upper, Lower, a, b) USE(TA, TB, Upper, Upper, a, b)
void use_shiftinv(const DMat& d, const SMat& s)
{
    USE4(Sparse, Sparse, s, s)
    USE4(Sparse, Dense, s, d)
    USE4(Dense, Sparse, d, s)
    USE4(Dense, Dense, d, d)
}
