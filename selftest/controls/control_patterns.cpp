// Positive controls: tiny constructs that the zero-count rules (no mutable static state, no try/catch,
// no raw allocation, no direct reduction in a factorization, ...) MUST match on every run.  If a rule
// stops seeing its control the check exits 2 (analysis broken) instead of passing vacuously.
#include <stdexcept>
#include <cstdlib>
namespace SpectraControl {

static int g_counter = 0;              // mutable namespace-scope static
const int g_const = 3;                 // constant: must NOT be reported

template <typename T>
struct WithStatics
{
    static T s_member;                 // mutable static data member of a template
    mutable T m_scratch;               // mutable field
    T next()
    {
        static T cache = T();          // function-local static in a template member
        cache += T(1);
        return cache;
    }
};
template <typename T>
T WithStatics<T>::s_member = T();

inline int swallow(int (*f)(int), int x)
{
    try
    {
        return f(x);
    }
    catch (const std::exception&)     // handler
    {
        return -1;
    }
}

inline int quiet(int x) noexcept { return x + g_counter; }

struct Owner
{
    int* p;
    Owner() : p(new int(1)) {}          // raw allocation
    ~Owner() { delete p; }
};

inline int uses_rand() { return std::rand(); }

template struct WithStatics<double>;
}  // namespace SpectraControl

// direct reductions inside a "factorization" (C03-D2 / C07-D1 positive control)
#include <Eigen/Core>
#include <Eigen/SparseCore>
namespace SpectraControl {
struct DirectReductions
{
    Eigen::VectorXd f;
    Eigen::MatrixXd V;
    double a() { return f.norm(); }
    double b(const Eigen::VectorXd& w) { return f.dot(w); }
    Eigen::VectorXd c() { return V.adjoint() * f; }
};
}  // namespace SpectraControl

// positive controls for the zero-count data-flow rules added in session 3
namespace SpectraControl {
struct AliasedNoalias
{
    Eigen::MatrixXd P;
    void restart(const Eigen::MatrixXd& S) { P.noalias() = P * S; }                 // destination is a product factor
    void fine(const Eigen::MatrixXd& S, const Eigen::MatrixXd& Q) { P.noalias() = Q * S; }
};
inline double advance(long& seed) { seed = seed * 3 + 1; return double(seed); }
struct Pair { double a, b; Pair(double x, double y) : a(x), b(y) {} };
inline Pair unsequenced_draws(long& seed) { return Pair(advance(seed), advance(seed)); }   // two modifying operands of one call
inline double stale_buffer(const Eigen::MatrixXd& A, int n)
{
    Eigen::VectorXd buf(A.rows());
    buf.setZero();
    double s = 0;
    for (int i = 0; i < n; i++)
    {
        if (i % 2 == 0)
            buf.noalias() = A.col(i);        // refreshed on some paths only
        s += buf.sum();                      // may read the previous iteration's value
    }
    return s;
}
}  // namespace SpectraControl

// positive control: aligned packet access whose alignment is tested for the first column only
#include <cstdint>
namespace SpectraControl {
template <int Mode>
inline double aligned_second_column(double* x, long stride)
{
    typedef Eigen::internal::packet_traits<double>::type Packet;
    double* x1 = x + stride;
    Packet p = Eigen::internal::ploadt<Packet, Mode>(x1);
    return Eigen::internal::pfirst(p);
}
inline double aligned_dispatch(double* x, long stride)
{
    if (reinterpret_cast<std::uintptr_t>(x) % 16 == 0)
        return aligned_second_column<16>(x, stride);
    return aligned_second_column<0>(x, stride);
}
}  // namespace SpectraControl

// positive control: a workspace sized by a constructor argument is allocated in the member-initialiser list of a member,
// before the range check in the outer constructor's body; and a Ref member copied from a `const Ref&` parameter
namespace SpectraControl {
struct EagerWorkspace
{
    long m_m;
    Eigen::MatrixXd m_work;
    EagerWorkspace(long n, long m) : m_m(m), m_work(n, m_m) {}
};
struct LateValidation
{
    long m_n, m_ncv;
    EagerWorkspace m_fac;
    Eigen::VectorXd m_buf;
    LateValidation(long n, long nev, long ncv) : m_n(n), m_ncv(ncv > n ? n : ncv), m_fac(n, m_ncv)
    {
        if (ncv <= nev || ncv > n)
            throw std::invalid_argument("ncv must satisfy nev < ncv <= n");
        m_buf.resize(ncv);          // fine: after the guard
    }
};
struct KeepsParameterRef
{
    typedef const Eigen::Ref<const Eigen::MatrixXd> ConstGenericMatrix;
    ConstGenericMatrix m_mat;
    KeepsParameterRef(ConstGenericMatrix& mat) : m_mat(mat) {}
    double first() const { return m_mat(0, 0); }
};
struct ViewStorageScan
{
    // raw value array of a sparse VIEW scanned from its start: for an inner-panel block the array is the parent's
    static double flat(const Eigen::Ref<const Eigen::SparseMatrix<double>>& m)
    {
        double s = 0;
        const double* v = m.valuePtr();
        for (long i = 0; i < m.nonZeros(); i++) s += v[i];
        return s;
    }
    // the same scan placed by the view's own outer index array: fine
    static double placed(const Eigen::Ref<const Eigen::SparseMatrix<double>>& m)
    {
        double s = 0;
        const double* v = m.valuePtr();
        for (long i = m.outerIndexPtr()[0]; i < m.outerIndexPtr()[m.outerSize()]; i++) s += v[i];
        return s;
    }
};
inline double use_controls(const Eigen::MatrixXd& A)
{
    LateValidation v(A.rows(), 1, 2);
    KeepsParameterRef k(A);
    return k.first() + double(v.m_ncv);
}
}  // namespace SpectraControl
