"""Hand-written mutants of /repo used to test the checkers (tools/selftest.py).  Each still compiles and is the
kind of change the existing suite does not notice.  edits: (file under include/Spectra, old text, new text)."""
MUTANTS = []


def M(name, props, expect, edits, note=''):
    MUTANTS.append({'name': name, 'props': props.split(','), 'expect': expect.split(',') if expect else [], 'edits': edits, 'note': note})


# ----------------------------------------------------------------------------- C01 / C02 / C05
M('herm-drop-final-refresh', 'C01,C05', 'flags-fresh-at-use',
  [('HermEigsBase.h', '''        nconv = num_converged(tol);
        // Sorting results''', '''        // Sorting results''')],
  'reverts fix F1: flags stale when maxit exhausted / 0')
M('gen-drop-final-refresh', 'C02,C05', 'flags-fresh-at-use',
  [('GenEigsBase.h', '''        nconv = num_converged(tol);
        // Sorting results''', '''        // Sorting results''')])
M('herm-sort-forgets-flags', 'C01,C05', 'coherent-permutation',
  [('HermEigsBase.h', '            new_ritz_conv[i] = m_ritz_conv[ind[i]];\n', '            new_ritz_conv[i] = m_ritz_conv[i];\n')],
  'flags no longer follow their values through the final sort')
M('gen-sort-vectors-other-index', 'C02,C05', 'coherent-permutation',
  [('GenEigsBase.h', '            new_ritz_vec.col(i).noalias() = m_ritz_vec.col(ind[i]);', '            new_ritz_vec.col(i).noalias() = m_ritz_vec.col(i);')])
M('herm-conv-test-drops-fnorm', 'C01', 'convergence-test-shape',
  [('HermEigsBase.h', 'RealArray resid = m_ritz_est.head(m_nev).array().abs() * m_fac.f_norm();', 'RealArray resid = m_ritz_est.head(m_nev).array().abs();')],
  'accepts unconverged pairs on badly scaled matrices')
M('gen-conv-test-le', 'C02', 'convergence-test-shape',
  [('GenEigsBase.h', 'Array thresh = tol * m_ritz_val.head(m_nev).array().abs().max(eps23);', 'Array thresh = tol * m_ritz_val.head(m_nev).array().abs().max(Scalar(1));')])
M('herm-retrieve-est-wrong-row', 'C01', 'coherent-retrieve',
  [('HermEigsBase.h', 'm_ritz_est[i] = evecs(m_ncv - 1, ind[i]);', 'm_ritz_est[i] = evecs(m_ncv - 1, i);')])
M('symshift-sort-before-backtransform', 'C01', 'backtransform-then-base-sort',
  [('SymEigsShiftSolver.h', '''        m_ritz_val.head(m_nev).array() = Scalar(1) / m_ritz_val.head(m_nev).array() + m_sigma;
        Base::sort_ritzpair(sort_rule);''', '''        Base::sort_ritzpair(sort_rule);
        m_ritz_val.head(m_nev).array() = Scalar(1) / m_ritz_val.head(m_nev).array() + m_sigma;''')],
  'values reported in the order of the transformed spectrum')
M('genrealshift-transform-all-ncv', 'C02', 'backtransform-then-base-sort',
  [('GenEigsRealShiftSolver.h', 'm_ritz_val.head(m_nev) = Scalar(1) / m_ritz_val.head(m_nev).array() + m_sigma;',
    'm_ritz_val.head(m_nev - 1) = Scalar(1) / m_ritz_val.head(m_nev - 1).array() + m_sigma;')],
  'last wanted eigenvalue stays in the transformed spectrum')
M('arnoldi-expand-basis-uncounted', 'C05', 'op-application-counted',
  [('LinAlg/Arnoldi.h', '''                m_op.perform_op(v.data(), f.data());
                op_counter++;''', '''                m_op.perform_op(v.data(), f.data());''')],
  'num_operations() misses the applications made when the basis breaks down')
M('herm-init-keeps-opcount', 'C05', 'counter-identity',
  [('HermEigsBase.h', '''        m_nmatop = 0;
        m_niter = 0;
''', '''        m_niter = 0;
''')],
  'operation count accumulates across init() calls')
M('gen-eigenvectors-no-clamp', 'C05', 'accessor-agreement',
  [('GenEigsBase.h', '''        nvec = (std::max)(Index(0), (std::min)(nvec, nconv));
        ComplexMatrix res(m_n, nvec);''', '''        ComplexMatrix res(m_n, nvec);''')])
M('herm-status-strict', 'C05', 'exit-status-and-count',
  [('HermEigsBase.h', 'm_info = (nconv >= m_nev) ? CompInfo::Successful : CompInfo::NotConverging;', 'm_info = (nconv > m_nev) ? CompInfo::Successful : CompInfo::NotConverging;')])
M('gen-return-count-plus-one', 'C05', 'exit-status-and-count',
  [('GenEigsBase.h', 'return (std::min)(m_nev, nconv);', 'return (std::min)(m_nev, nconv + 1);')])
M('herm-ctor-status-successful', 'C05', 'initial-state',
  [('HermEigsBase.h', '''        m_fac(ArnoldiOpType(op, Bop), m_ncv),
        m_info(CompInfo::NotComputed)''', '''        m_fac(ArnoldiOpType(op, Bop), m_ncv),
        m_info(CompInfo::NotConverging)''')])
M('gen-sort-gets-selection', 'C05', 'rule-argument-flow',
  [('GenEigsBase.h', '        sort_ritzpair(sorting);', '        sort_ritzpair(selection);')])
M('herm-eigenvalues-skips-flag', 'C05', 'accessor-agreement',
  [('HermEigsBase.h', '''            if (m_ritz_conv[i])
            {
                res[j] = m_ritz_val[i];
                j++;
            }''', '''            if (j < nconv)
            {
                res[j] = m_ritz_val[i];
                j++;
            }''')],
  'returns the first count values instead of the flagged ones')
M('herm-restart-twice', 'C05', 'restarts-bounded-by-maxit',
  [('HermEigsBase.h', '''            restart(nev_adj, selection);
        }''', '''            restart(nev_adj, selection);
            if (nconv == 0 && i > 2)
                restart(nev_adj, selection);
        }''')], 'still one loop: two restarts per iteration -> more than maxit restarts')

# ----------------------------------------------------------------------------- C06 / C14 / C19 / C20
M('gen-init-keeps-niter', 'C06', 'init-rebuilds-what-compute-reads',
  [('GenEigsBase.h', """        m_nmatop = 0;
        m_niter = 0;
""", """        m_nmatop = 0;
""")], 'num_iterations() accumulates over runs')
M('arnoldi-init-keeps-H', 'C06', 'init-rebuilds-what-compute-reads',
  [('LinAlg/Arnoldi.h', """        m_fac_f.resize(m_n);
        m_fac_H.setZero();""", """        m_fac_f.resize(m_n);""")], 'stale H entries of an earlier run survive init() (same size => resize keeps the data)')
M('complexshift-no-restore', 'C06,C14', 'operator-not-modified-outside-constructors',
  [('GenEigsComplexShiftSolver.h', "        ShiftRestorer restorer{m_op, m_sigmar, m_sigmai};\n", "")], 'reverts fix F2')
M('svd-keeps-cache', 'C06,C16', 'cached-accessor-results-invalidated',
  [('contrib/PartialSVDSolver.h', "        m_evecs.resize(0, 0);\n", "")], 'reverts fix F6')
M('arnoldiop-cache-read-first', 'C06', 'mutable-cache-overwritten-before-read',
  [('MatOp/internal/ArnoldiOp.h', """        m_Bop.perform_op(y.data(), m_cache.data());
        return x.dot(m_cache);""", """        const Scalar r = x.dot(m_cache);
        m_Bop.perform_op(y.data(), m_cache.data());
        return r + x.dot(m_cache) - r;""")])
M('complexsolve-writes-imag', 'C06', 'mutable-cache-overwritten-before-read',
  [('MatOp/DenseGenComplexShiftSolve.h', """        y.noalias() = m_solver.solve(m_x_cache).real();""", """        y.noalias() = m_solver.solve(m_x_cache).real();
        m_x_cache.imag() = y;""")], 'the imaginary half now carries the previous result into the next application')
M('factorize-reads-whole-basis', 'C06', 'basis-read-within-current-dimension',
  [('LinAlg/Arnoldi.h', """            m_op.adjoint_product(Vs, w, h);""", """            m_op.adjoint_product(Vs, w, h);
            if (i == from_k)
                h[0] += Scalar(0) * (m_fac_V.adjoint() * w)[0];""")], 'reads columns beyond the current dimension (stale / uninitialised)')
M('init-seeds-from-opcount', 'C19,C06', 'seed-provenance',
  [('HermEigsBase.h', "SimpleRandom<Scalar> rng(0);", "SimpleRandom<Scalar> rng(m_niter);")], 'default start vector depends on the history of the object')
M('lcg-static-state', 'C19,C20', 'generator-effects,no-mutable-static-state',
  [('Util/SimpleRandom.h', """    unsigned long lo, hi;
""", """    unsigned long lo, hi;
    static unsigned long calls = 0;
    seed += (++calls >> 40);
""")], 'hidden counter: the sequence is no longer a function of the seed (only after 2^40 draws -- no test sees it)')
M('matprod-static-buffer', 'C20', 'no-mutable-static-state',
  [('MatOp/DenseSymMatProd.h', """        MapConstVec x(x_in, m_mat.cols());""", """        static Index last_cols = 0;
        last_cols = m_mat.cols();
        MapConstVec x(x_in, last_cols);""")], 'shared wrapper races on a function-local static')
M('matprod-mutable-cache', 'C20', 'shareable-wrapper-is-immutable,mutable-fields-classified',
  [('MatOp/DenseGenMatProd.h', """    ConstGenericMatrix m_mat;
""", """    ConstGenericMatrix m_mat;
    mutable Index m_calls = 0;
""")])
M('arnoldi-catches-operator', 'C14', 'no-exception-handler-or-noexcept',
  [('LinAlg/Arnoldi.h', """            m_op.perform_op(&m_fac_V(0, i), w.data());
            op_counter++;""", """            try
            {
                m_op.perform_op(&m_fac_V(0, i), w.data());
            }
            catch (const std::bad_alloc&)
            {
                throw std::runtime_error("out of memory in operator");
            }
            op_counter++;""")], 'exception type changed on the way out')
M('svd-raw-new', 'C14,C12', 'no-raw-owning-pointer',
  [('contrib/PartialSVDSolver.h', """        m_eigs.reset(new SymEigsSolver<SVDMatOp<Scalar>>(*m_op, ncomp, ncv));""",
    """        SymEigsSolver<SVDMatOp<Scalar>>* raw = new SymEigsSolver<SVDMatOp<Scalar>>(*m_op, ncomp, ncv);
        raw->init();
        m_eigs.reset(raw);""")], 'init() may throw (operator) while the solver is held by a raw pointer')

# ----------------------------------------------------------------------------- C12 / C18
M('herm-ctor-nev-off-by-one', 'C12', 'range-guard-equals-documented-range',
  [('HermEigsBase.h', """        m_info(CompInfo::NotComputed)
    {
        if (m_op.rows() != m_op.cols())
            throw std::invalid_argument("the matrix operation must represent a square matrix");

        if (nev < 1 || nev > m_n - 1)
            throw std::invalid_argument("nev must satisfy 1 <= nev <= n - 1, n is the size of matrix");

        if (ncv <= nev || ncv > m_n)
            throw std::invalid_argument("ncv must satisfy nev < ncv <= n, n is the size of matrix");
    }

    // If op is an rvalue""", """        m_info(CompInfo::NotComputed)
    {
        if (nev < 0 || nev > m_n - 1)
            throw std::invalid_argument("nev must satisfy 1 <= nev <= n - 1, n is the size of matrix");

        if (ncv <= nev || ncv > m_n)
            throw std::invalid_argument("ncv must satisfy nev < ncv <= n, n is the size of matrix");
    }

    // If op is an rvalue""")], 'lvalue constructor accepts nev = 0; siblings disagree')
M('gen-ctor-ncv-relaxed', 'C12,C13', 'range-guard-equals-documented-range,index-within-extent',
  [('GenEigsBase.h', "if (ncv < nev + 2 || ncv > m_n)", "if (ncv < nev + 1 || ncv > m_n)")], 'ncv = nev + 1 accepted: restart size can reach ncv - 1 and the conjugate-pair look-ahead')
M('gen-ctor-wrong-exception', 'C12', 'rejections-are-invalid_argument',
  [('GenEigsBase.h', 'throw std::invalid_argument("nev must satisfy 1 <= nev <= n - 2, n is the size of matrix");', 'throw std::out_of_range("nev must satisfy 1 <= nev <= n - 2, n is the size of matrix");')])
M('cayley-accepts-zero-sigma', 'C12', 'guard-dominates-use',
  [('SymGEigsShiftSolver.h', """        if (sigma == Scalar(0))
            throw std::invalid_argument("SymGEigsShiftSolver: sigma cannot be zero in the Cayley mode");
        op.set_shift(sigma);""", """        op.set_shift(sigma);
        if (sigma == Scalar(0))
            throw std::invalid_argument("SymGEigsShiftSolver: sigma cannot be zero in the Cayley mode");""")], 'the factorization at sigma = 0 runs first (may throw a different exception / wrong type)')
M('cholesky-square-guard-weak', 'C12', 'square-matrix-guard',
  [('MatOp/DenseCholesky.h', "if (m_n != mat.cols())", "if (m_n < mat.cols())")], 'tall matrices accepted')
M('gen-largestimag-builds-smallest', 'C18,C04', 'dispatch-arm-matches-case-label',
  [('GenEigsBase.h', """            case SortRule::LargestImag:
            {
                SortEigenvalue<Complex, SortRule::LargestImag> sorting(evals.data(), m_ncv);""", """            case SortRule::LargestImag:
            {
                SortEigenvalue<Complex, SortRule::SmallestImag> sorting(evals.data(), m_ncv);""")], 'no test uses LargestImag as selection')
M('smallestmagn-key-negated', 'C18', 'sort-key-matches-rule-name',
  [('Util/SelectionRule.h', """        using std::abs;
        return abs(val);
    }
};

// Specialization for SortRule::SmallestReal""", """        using std::abs;
        return -abs(val);
    }
};

// Specialization for SortRule::SmallestReal""")])
M('comparator-nonstrict', 'C18', 'comparator-and-full-range-sort',
  [('Util/SelectionRule.h', "return SortingTarget<T, Rule>::get(m_evals[i]) < SortingTarget<T, Rule>::get(m_evals[j]);", "return SortingTarget<T, Rule>::get(m_evals[i]) <= SortingTarget<T, Rule>::get(m_evals[j]);")],
  'not a strict weak order: std::sort has undefined behaviour on ties')
M('bothends-off-by-one', 'C18', 'bothends-interleave',
  [('Util/SelectionRule.h', "ind[i] = ind_copy[len - 1 - i / 2];", "ind[i] = ind_copy[len - 1 - (i + 1) / 2];")], 'odd positions skip the smallest value')
M('argsort-missing-break', 'C18', 'dispatch-arm-matches-case-label',
  [('Util/SelectionRule.h', """            SortEigenvalue<Scalar, SortRule::LargestMagn> sorting(values.data(), len);
            sorting.swap(ind);
            break;""", """            SortEigenvalue<Scalar, SortRule::LargestMagn> sorting(values.data(), len);
            sorting.swap(ind);""")], 'LargestMagn falls through into the LargestAlge arm')
M('herm-sorting-accepts-bothends', 'C18,C12', 'dispatch-arm-matches-case-label',
  [('HermEigsBase.h', "        if ((sort_rule != SortRule::LargestAlge) && (sort_rule != SortRule::LargestMagn) &&", "        if ((sort_rule != SortRule::LargestAlge) && (sort_rule != SortRule::LargestMagn) && (sort_rule != SortRule::BothEnds) &&")])

# ----------------------------------------------------------------------------- C10
M('bkldlt-1x1-status', 'C10', 'status-assigned-on-every-path',
  [('LinAlg/BKLDLT.h', "        m_info = CompInfo::Successful;\n        Index k = 0;", "        Index k = 0;")], 'reverts fix F3: 1x1 matrices keep NotComputed')
M('denseshiftsolve-ignores-status', 'C10', 'factorization-status-checked',
  [('MatOp/DenseSymShiftSolve.h', """        if (m_solver.info() != CompInfo::Successful)
            throw std::invalid_argument("DenseSymShiftSolve: factorization failed with the given shift");""", "")], 'a singular shift gives inf/NaN instead of an exception')
M('bkldlt-1x1-no-zero-test', 'C10', 'pivot-division-guarded',
  [('LinAlg/BKLDLT.h', """        if (akk == Scalar(0))
            return CompInfo::NumericalIssue;

        // [inverse]
        // diag_coeff(k) = Scalar(1) / akk;""", """        // [inverse]
        // diag_coeff(k) = Scalar(1) / akk;""")])
M('bkldlt-copy-upper-reads-lower', 'C10,C11', 'copy-reads-named-triangle-only',
  [('LinAlg/BKLDLT.h', "*dest = ScalarOp<Scalar>::conj(src.coeff(j, i));", "*dest = ScalarOp<Scalar>::conj(src.coeff(i, j));")], 'tests only use full symmetric matrices: both triangles equal')
M('bkldlt-no-break-on-failure', 'C10', 'pivot-division-guarded',
  [('LinAlg/BKLDLT.h', """            if (m_info != CompInfo::Successful)
                break;""", "")], 'status of a later block overwrites NumericalIssue')
M('shiftinvert-helper-ignores-status', 'C10', 'factorization-status-checked',
  [('MatOp/SymShiftInvert.h', """        const bool success = Helper::factorize(m_solver, m_matA, m_matB, sigma);
        if (!success)
            throw std::invalid_argument("SymShiftInvert: factorization failed with the given shift");""", """        Helper::factorize(m_solver, m_matA, m_matB, sigma);""")])

# ----------------------------------------------------------------------------- C11
M('reginv-cg-default-triangle', 'C11', 'triangle-option-reaches-every-use',
  [('MatOp/SparseRegularInverse.h', "Eigen::ConjugateGradient<SparseMatrix, Uplo> m_cg;", "Eigen::ConjugateGradient<SparseMatrix> m_cg;")], 'reverts fix F4')
M('sparsecholesky-lower-only', 'C11', 'triangle-option-reaches-every-use',
  [('MatOp/SparseCholesky.h', "Eigen::SimplicialLLT<SparseMatrix, Uplo> m_decomp;", "Eigen::SimplicialLLT<SparseMatrix, Eigen::Lower> m_decomp;")])
M('denseshiftsolve-lower-only', 'C11', 'triangle-option-reaches-every-use',
  [('MatOp/DenseSymShiftSolve.h', "m_solver.compute(m_mat, Uplo, sigma);", "m_solver.compute(m_mat, Eigen::Lower, sigma);")])
M('sparsesymprod-matmul-lower', 'C11', 'triangle-option-reaches-every-use',
  [('MatOp/SparseSymMatProd.h', "return m_mat.template selfadjointView<Uplo>() * mat_in;", "return m_mat.template selfadjointView<Eigen::Lower>() * mat_in;")], 'only operator* (used by Davidson), not perform_op')
M('helper-factorizes-other-triangle', 'C11', 'assembled-matrix-triangle-typestate',
  [('MatOp/SymShiftInvert.h', "fac.compute(mat, UploA);", "fac.compute(mat, UploB);")], 'only wrong when UploA != UploB')
M('helper-mixed-not-transposed', 'C11', 'assembled-matrix-triangle-typestate',
  [('MatOp/SymShiftInvert.h', "mat += A.template triangularView<UploA>().transpose();", "mat += A.template triangularView<UploA>();")], 'sparse A / dense B with different triangles')
M('helper-reads-b-through-a-option', 'C11', 'assembled-matrix-triangle-typestate',
  [('MatOp/SymShiftInvert.h', "SpMat matB = B.template selfadjointView<UploB>();", "SpMat matB = B.template selfadjointView<UploA>();")])

# ----------------------------------------------------------------------------- C09
M('schur-cap-no-throw', 'C09', 'iteration-cap-implies-throw',
  [('LinAlg/UpperHessenbergSchur.h', """        if (total_iter > max_iter)
            throw std::runtime_error("UpperHessenbergSchur: Schur decomposition failed");
""", "")], 'never hit by the suite: unconverged T/U returned')
M('schur-cap-throw-off-by-one', 'C09', 'iteration-cap-implies-throw',
  [('LinAlg/UpperHessenbergSchur.h', """        if (total_iter > max_iter)
            throw std::runtime_error""", """        if (total_iter > max_iter + 1)
            throw std::runtime_error""")], 'the break fires at max_iter+1, the throw needs max_iter+2')
M('tridiag-cap-forgets-flag', 'C09', 'iteration-cap-implies-throw',
  [('LinAlg/TridiagEigen.h', """                info = 1;
                break;""", """                break;""")])
M('hesseigen-pair-order-swapped', 'C09', 'exact-real-and-conjugate-pair-convention',
  [('LinAlg/UpperHessenbergEigen.h', """                m_eivalues.coeffRef(i) = Complex(m_matT.coeff(i + 1, i + 1) + p, z);
                m_eivalues.coeffRef(i + 1) = Complex(m_matT.coeff(i + 1, i + 1) + p, -z);""", """                m_eivalues.coeffRef(i) = Complex(m_matT.coeff(i + 1, i + 1) + p, -z);
                m_eivalues.coeffRef(i + 1) = Complex(m_matT.coeff(i + 1, i + 1) + p, z);""")])
M('hesseigen-real-via-complex-ctor', 'C09', 'exact-real-and-conjugate-pair-convention',
  [('LinAlg/UpperHessenbergEigen.h', "m_eivalues.coeffRef(i) = m_matT.coeff(i, i);", "m_eivalues.coeffRef(i) = Complex(m_matT.coeff(i, i), m_matT.coeff(i, i) * Scalar(0));")],
  'imaginary part is 0*x: NaN for infinite x, -0 for negative x')
M('bkldlt-pivot-test-wrong-entry', 'C10', 'interchanged-pivot-is-tested',
  [('LinAlg/BKLDLT.h', "if (abs(diag_coeff(r)) >= alpha * sigma)", "if (abs_akk >= alpha * sigma)")],
  'reverts fix be8ca1b: nonsingular [1 2 0; 2 4 1; 0 1 0] reported as NumericalIssue')

# ----------------------------------------------------------------------------- C15 / C16 / C17
M('svd-matrixU-predicate-strict', 'C16', 'shape-predicates-agree',
  [('contrib/PartialSVDSolver.h', "        if (m_m <= m_n)\n        {\n            return m_evecs.leftCols(nu);", "        if (m_m < m_n)\n        {\n            return m_evecs.leftCols(nu);")], 'square matrices: U derived although the eigenvectors are U already')
M('svd-tall-op-order', 'C16', 'shape-predicates-agree',
  [('contrib/PartialSVDSolver.h', """        m_cache /= m_scale;
        y.noalias() = m_mat.transpose() * m_cache;""", """        m_cache /= m_scale;
        y.noalias() = m_mat.transpose() * m_cache * Scalar(1);""")], 'neutral-looking; kept to see the rule is not brittle -- expected to stay silent? no: product shape changes')
M('svd-no-clamp', 'C16', 'clamps-and-fixed-rule',
  [('contrib/PartialSVDSolver.h', "        nv = (std::min)(nv, m_nconv);\n", "")])
M('svd-selection-largestmagn', 'C16', 'clamps-and-fixed-rule',
  [('contrib/PartialSVDSolver.h', "m_eigs->compute(SortRule::LargestAlge, maxit, tol);", "m_eigs->compute(SortRule::LargestMagn, maxit, tol);")], 'same spectrum for PSD A\'A up to rounding; tiny negative eigenvalues reorder')
M('lobpcg-eigenvectors-coefficients', 'C17', 'accessor-returns-iterate-block',
  [('contrib/LOBPCGSolver.h', "        return Matrix(X);", "        return m_evectors;")], 'reverts fix F7')
M('lobpcg-success-on-preconditioned-residuals', 'C17', 'success-only-after-fresh-residual-test',
  [('contrib/LOBPCGSolver.h', """        // calculate last residuals\r\n        m_residuals.resize(m_n, m_nev);\r\n        for (int i = 0; i < m_nev; i++)\r\n        {\r\n            m_residuals.col(i) = AX.col(i) - m_evalues(i) * BX.col(i);\r\n        }\r\n""", """        // calculate last residuals\r\n""")],
  'final test runs on the residuals of the previous iteration (preconditioned / with removed columns)')
M('davidson-check-before-sort', 'C15', 'success-only-after-fresh-sorted-convergence-test',
  [('JDSymEigsBase.h', """            m_ritz_pairs.sort(selection);

            bool converged = m_ritz_pairs.check_convergence(tol, m_number_eigenvalues);""", """            bool converged = m_ritz_pairs.check_convergence(tol, m_number_eigenvalues);
            m_ritz_pairs.sort(selection);""")], 'convergence judged on the first nev pairs in ascending order, not in the selection order')
M('davidson-notconverging-dropped', 'C15', 'status-assigned-on-every-path',
  [('JDSymEigsBase.h', """            else if (niter_ == maxit - 1)
            {
                m_info = CompInfo::NotConverging;
                break;
            }""", "")], 'a different escape than the known finding (must still be reported)')
M('ritzpairs-sort-forgets-residues', 'C15', 'ritz-pairs-consistency',
  [('LinAlg/RitzPairs.h', "            m_residues.col(i) = temp.m_residues.col(ind[i]);\n", "")])

# ----------------------------------------------------------------------------- C07 / C03
M('arnoldi-forgets-restart-flag', 'C07', 'subdiagonal-zero-iff-fresh-direction',
  [('LinAlg/Arnoldi.h', """                expand_basis(V, 2 * i, m_fac_f, m_beta, op_counter);
                restart = true;""", """                expand_basis(V, 2 * i, m_fac_f, m_beta, op_counter);""")], 'after a breakdown H(i,i-1) = new beta: A V = V H + f e\' broken')
M('lanczos-subdiag-arms-swapped', 'C07', 'subdiagonal-zero-iff-fresh-direction',
  [('LinAlg/Lanczos.h', "m_fac_H(i, i - 1) = restart ? Scalar(0) : Scalar(m_beta);", "m_fac_H(i, i - 1) = restart ? Scalar(m_beta) : Scalar(0);")])
M('doubleshift-decrements-once', 'C07', 'restart-shift-accounting',
  [('LinAlg/Arnoldi.h', """        decomp.matrix_QtHQ(m_fac_H);
        m_k -= 2;""", """        decomp.matrix_QtHQ(m_fac_H);
        m_k--;""")], 'only complex Ritz values as shifts expose it')
M('gen-restart-double-shift-no-skip', 'C07', 'restart-shift-accounting',
  [('GenEigsBase.h', """                m_fac.compress_H(decomp_ds);

                i++;""", """                m_fac.compress_H(decomp_ds);
""")])
M('arnoldiop-B-applied-to-left', 'C07,C03', 'adaptor-applies-B-once',
  [('MatOp/internal/ArnoldiOp.h', """        m_Bop.perform_op(y.data(), m_cache.data());
        res.noalias() = x.adjoint() * m_cache;""", """        m_Bop.perform_op(y.data(), m_cache.data());
        res.noalias() = x.adjoint() * y;""")], 'B-inner product silently Euclidean in adjoint_product only')
M('lanczos-normalises-with-euclid', 'C07,C03', 'no-direct-reduction-in-factorization',
  [('LinAlg/Lanczos.h', "            m_beta = m_op.norm(m_fac_f);\n\n            // f/||f|| is going to be the next column of V", "            m_beta = m_fac_f.norm();\n\n            // f/||f|| is going to be the next column of V")])
M('arnoldi-divides-before-test', 'C07,C13', 'division-by-beta-guarded',
  [('LinAlg/Arnoldi.h', """            bool restart = false;
            // If beta = 0, then the next V is not full rank""", """            bool restart = false;
            m_fac_V.col(i).noalias() = m_fac_f / m_beta;
            // If beta = 0, then the next V is not full rank""")])

# ----------------------------------------------------------------------------- C03 / C04
M('reginv-identity-inner-product', 'C03', 'mode-uses-documented-operator-pair',
  [('SymGEigsSolver.h', "    public HermEigsBase<SymGEigsRegInvOp<OpType, BOpType>, BOpType>", "    public HermEigsBase<SymGEigsRegInvOp<OpType, BOpType>, IdentityBOp>"),
   ('SymGEigsSolver.h', """    using ModeMatOp = SymGEigsRegInvOp<OpType, BOpType>;
    using Base = HermEigsBase<ModeMatOp, BOpType>;""", """    using ModeMatOp = SymGEigsRegInvOp<OpType, BOpType>;
    using Base = HermEigsBase<ModeMatOp, IdentityBOp>;"""),
   ('SymGEigsSolver.h', "        Base(ModeMatOp(op, Bop), Bop, nev, ncv)", "        Base(ModeMatOp(op, Bop), IdentityBOp(), nev, ncv)")],
  'B^-1 A is not symmetric in the Euclidean inner product: X\'BX != I, Lanczos on a non-symmetric operator')
M('cholesky-eigenvectors0-not-backsubstituted', 'C03', 'cholesky-eigenvectors-back-substituted',
  [('SymGEigsSolver.h', "        return SymGEigsSolver<OpType, BOpType, GEigsMode::Cholesky>::eigenvectors(this->m_nev);", "        return Base::eigenvectors(this->m_nev);")],
  'eigenvectors() returns y = L^T x instead of x; eigenvectors(k) still right')
M('shiftinvert-backtransform-sign', 'C03,C04', 'back-transformation-inverts-spectral-map',
  [('SymGEigsShiftSolver.h', "m_ritz_val.head(m_nev).array() = Scalar(1) / m_ritz_val.head(m_nev).array() + m_sigma;", "m_ritz_val.head(m_nev).array() = Scalar(1) / m_ritz_val.head(m_nev).array() - m_sigma;")])
M('buckling-backtransform-wrong', 'C03,C04', 'back-transformation-inverts-spectral-map',
  [('SymGEigsShiftSolver.h', """        m_ritz_val.head(m_nev).array() = m_sigma * m_ritz_val.head(m_nev).array() /
            (m_ritz_val.head(m_nev).array() - Scalar(1));""", """        m_ritz_val.head(m_nev).array() = m_sigma * m_ritz_val.head(m_nev).array() /
            (m_ritz_val.head(m_nev).array() + Scalar(1));""")])
M('herm-rvalue-fac-from-argument', 'C03', 'moved-operator-outlives-its-references',
  [('HermEigsBase.h', "        m_fac(ArnoldiOpType(m_op, Bop), m_ncv),", "        m_fac(ArnoldiOpType(op, Bop), m_ncv),")], 'factorization keeps a reference to the moved-from temporary')
M('herm-restart-shifts-from-head', 'C04', 'wanted-first-split',
  [('HermEigsBase.h', "RealVector shifts = m_ritz_val.tail(nshift);", "RealVector shifts = m_ritz_val.head(nshift);")], 'the WANTED Ritz values are used as shifts: converges to the other end')
M('symshift-writes-ritz-in-ctor-helper', 'C04', 'ritz-values-written-only-by-retrieve-and-final-sort',
  [('SymEigsShiftSolver.h', """        Base::sort_ritzpair(sort_rule);
    }""", """        Base::sort_ritzpair(sort_rule);
    }

    void shift_back() { m_ritz_val.head(m_nev).array() -= m_sigma; }""")])

# ----------------------------------------------------------------------------- C13
M('gen-restart-lookahead-unbounded', 'C13,C02', 'index-within-extent',
  [('GenEigsBase.h', "if (i + 1 < m_ncv && is_complex(m_ritz_val[i]) && is_conj(m_ritz_val[i], m_ritz_val[i + 1]))", "if (is_complex(m_ritz_val[i]) && is_conj(m_ritz_val[i], m_ritz_val[i + 1]))")],
  'reverts fix F8: reads m_ritz_val[ncv] (only with ncv > 16 and an exact-tie conjugate pair split by the unstable sort)')
M('herm-restart-size-clamp-off-by-one', 'C13', 'index-within-extent',
  [('HermEigsBase.h', """        if (nev_new > m_ncv - 1)
            nev_new = m_ncv - 1;""", """        if (nev_new > m_ncv)
            nev_new = m_ncv;""")], 'k = ncv: restart() returns early, the loop in compute() spins without progress towards convergence')
M('herm-sort-loop-inclusive', 'C13', 'index-within-extent',
  [('HermEigsBase.h', """        for (Index i = 0; i < m_nev; i++)
        {
            new_ritz_val[i] = m_ritz_val[ind[i]];""", """        for (Index i = 0; i <= m_nev; i++)
        {
            new_ritz_val[i] = m_ritz_val[ind[i]];""")])
M('gen-retrieve-vectors-all-ncv', 'C13', 'index-within-extent',
  [('GenEigsBase.h', """        for (Index i = 0; i < m_nev; i++)
        {
            m_ritz_vec.col(i).noalias() = evecs.col(ind[i]);""", """        for (Index i = 0; i < m_ncv; i++)
        {
            m_ritz_vec.col(i).noalias() = evecs.col(ind[i]);""")], 'm_ritz_vec has nev columns')
M('expand-basis-applies-every-attempt', 'C13', 'operator-application-bound',
  [('LinAlg/Arnoldi.h', """            if (iter == 0)
            {
                rng.random_vec(v);
                m_op.perform_op(v.data(), f.data());
                op_counter++;
            }
            else
            {
                rng.random_vec(f);
            }""", """            rng.random_vec(v);
            m_op.perform_op(v.data(), f.data());
            op_counter++;""")], 'up to 5 applications per breakdown: the documented bound no longer holds')
M('arnoldi-reorth-loop-no-count', 'C13', 'loop-makes-progress',
  [('LinAlg/Arnoldi.h', """                m_op.adjoint_product(Vs, m_fac_f, Vf.head(i1));
                ortho_err = Vf.head(i1).cwiseAbs().maxCoeff();
                count++;""", """                m_op.adjoint_product(Vs, m_fac_f, Vf.head(i1));
                ortho_err = Vf.head(i1).cwiseAbs().maxCoeff();""")], 'terminates only if the orthogonality error happens to drop')
M('arnoldi-init-in-place-apply', 'C13', 'operator-buffers-distinct',
  [('LinAlg/Arnoldi.h', """        Vector w(m_n);
        m_op.perform_op(v.data(), w.data());
        op_counter++;

        m_fac_H(0, 0) = m_op.inner_product(v, w);""", """        Vector w(m_n);
        m_op.perform_op(v.data(), v.data());
        op_counter++;
        w = v;

        m_fac_H(0, 0) = m_op.inner_product(v, w);""")], 'operator applied in place')
M('schur-exceptional-shift-uncounted', 'C13', 'loop-makes-progress',
  [('LinAlg/UpperHessenbergSchur.h', """                    iter++;
                    total_iter++;
                    if (total_iter > max_iter)
                        break;""", """                    iter++;
                    if (iter > 10)
                        total_iter++;
                    if (total_iter > max_iter)
                        break;""")], 'iterations with iter <= 10 are not counted: cap can be evaded indefinitely if iter keeps being reset')
M('compressV-nnz-off-by-one', 'C13', 'factorization-index-within-extent',
  [('LinAlg/Arnoldi.h', "const Index nnz = m_m - m_k + i + 1;", "const Index nnz = m_m - m_k + i + 2;")], 'reads one column past V for the last i')
M('factorize-H-subdiag-from-zero', 'C13', 'factorization-index-within-extent',
  [('HermEigsBase.h', "        m_fac.factorize_from((std::max)(Index(1), m_fac.subspace_dim()), m_ncv, m_nmatop);", "        m_fac.factorize_from((std::max)(Index(0), m_fac.subspace_dim() - 1), m_ncv, m_nmatop);")],
  'H(i, i-1) with i = 0')
M('lanczos-vf-too-short', 'C13', 'factorization-index-within-extent',
  [('LinAlg/Lanczos.h', "        Vector Vf(to_m);", "        Vector Vf(to_m - 1);")], 'Vf.head(i1) with i1 = to_m in the last step')

# behaviour-preserving edits: every listed check must stay silent (exit 0)
NEUTRAL = []


def N(name, props, edits, note=''):
    NEUTRAL.append({'name': name, 'props': props.split(','), 'edits': edits, 'note': note})


N('gen-return-unclamped', 'C05', [('GenEigsBase.h', 'return (std::min)(m_nev, nconv);', 'return nconv;')],
  'count <= nev always: same value')
N('herm-refresh-under-if', 'C01,C05', [('HermEigsBase.h', """        nconv = num_converged(tol);
        // Sorting results""", """        if (i >= maxit)
            nconv = num_converged(tol);
        // Sorting results""")], 'F1 written conditionally: after break the flags are already fresh (needs FEAS)')
N('herm-ctor-nev-ge-n', 'C12', [('HermEigsBase.h', """        m_info(CompInfo::NotComputed)
    {
        if (m_op.rows() != m_op.cols())
            throw std::invalid_argument("the matrix operation must represent a square matrix");

        if (nev < 1 || nev > m_n - 1)
            throw std::invalid_argument("nev must satisfy 1 <= nev <= n - 1, n is the size of matrix");

        if (ncv <= nev || ncv > m_n)
            throw std::invalid_argument("ncv must satisfy nev < ncv <= n, n is the size of matrix");
    }

    // If op is an rvalue""", """        m_info(CompInfo::NotComputed)
    {
        if (m_op.rows() != m_op.cols())
            throw std::invalid_argument("the matrix operation must represent a square matrix");

        if (!(nev >= 1) || nev >= m_n)
            throw std::invalid_argument("nev must satisfy 1 <= nev <= n - 1, n is the size of matrix");

        if (!(ncv > nev && ncv <= m_n))
            throw std::invalid_argument("ncv must satisfy nev < ncv <= n, n is the size of matrix");
    }

    // If op is an rvalue""")], 'same predicate written differently')
N('bothends-rewritten', 'C18', [('Util/SelectionRule.h', "ind[i] = ind_copy[len - 1 - i / 2];", "ind[i] = ind_copy[len - (i + 1) / 2];")], 'same index for odd i')
N('ritzpairs-sort-permutation-matrix', 'C15', [('LinAlg/RitzPairs.h', """        RitzPairs<Scalar> temp = *this;
        for (Index i = 0; i < size(); i++)
        {
            m_values[i] = temp.m_values[ind[i]];
            m_vectors.col(i) = temp.m_vectors.col(ind[i]);
            m_residues.col(i) = temp.m_residues.col(ind[i]);
            m_small_vectors.col(i) = temp.m_small_vectors.col(ind[i]);
        }""", """        Eigen::PermutationMatrix<Eigen::Dynamic, Eigen::Dynamic, Index> perm(size());
        for (Index i = 0; i < size(); i++)
        {
            perm.indices()[i] = ind[i];
        }
        m_values = perm.transpose() * m_values;
        m_vectors = m_vectors * perm;
        m_residues = m_residues * perm;
        m_small_vectors = m_small_vectors * perm;""")], 'the correct permutation-matrix rewrite of the seeded C15 change')

# ----------------------------------------------------------------------------- C08 (rotation consumers vs generator)
Q = 'LinAlg/UpperHessenbergQR.h'
M('qr-applyQY-vector-uses-transposed-rotation', 'C08', 'consumer-agrees-with-generator',
  [(Q, '''            Y[i] = c * tmp + s * Y[i + 1];
            Y[i + 1] = -s * tmp + c * Y[i + 1];''', '''            Y[i] = c * tmp - s * Y[i + 1];
            Y[i + 1] = s * tmp + c * Y[i + 1];''')], 'Q y computed with G\' instead of G (vector overload only)')
M('qr-applyYQ-descending', 'C08', 'consumer-agrees-with-generator',
  [(Q, '''        for (Index i = 0; i < n1; i++)
        {
            const Scalar c = m_rot_cos.coeff(i);
            const Scalar s = m_rot_sin.coeff(i);

            Y_col_i = &Y.coeffRef(0, i);''', '''        for (Index i = n1 - 1; i >= 0; i--)
        {
            const Scalar c = m_rot_cos.coeff(i);
            const Scalar s = m_rot_sin.coeff(i);

            Y_col_i = &Y.coeffRef(0, i);''')], 'Y Q applies G_{n-1} first: a different product')
M('qr-applyYQt-reads-sine-as-cosine', 'C08', 'consumer-agrees-with-generator',
  [(Q, '''            const Scalar c = m_rot_cos.coeff(i);
            const Scalar s = m_rot_sin.coeff(i);
            // Y[, i:(i + 1)] = Y[, i:(i + 1)] * Gi'
''', '''            const Scalar c = m_rot_sin.coeff(i);
            const Scalar s = m_rot_cos.coeff(i);
            // Y[, i:(i + 1)] = Y[, i:(i + 1)] * Gi'
''')])
M('qr-QtHQ-forgets-shift', 'C08', 'consumer-agrees-with-generator',
  [(Q, '''        // Add the shift to the diagonal
        dest.diagonal().array() += m_shift;''', '''        // Add the shift to the diagonal''')], 'returns R Q instead of R Q + s I')
M('qr-applyQtY-matrix-acts-on-columns', 'C08', 'consumer-agrees-with-generator',
  [(Q, '''            Yi.noalias() = Y.row(i);
            Yi1.noalias() = Y.row(i + 1);
            Y.row(i) = c * Yi - s * Yi1;
            Y.row(i + 1) = s * Yi + c * Yi1;''', '''            Yi.noalias() = Y.row(i);
            Yi1.noalias() = Y.row(i + 1);
            Y.row(i) = c * Yi + s * Yi1;
            Y.row(i + 1) = -s * Yi + c * Yi1;''')], 'Q\'Y with the pattern of Q Y')
M('rotation-zero-x-sign', 'C08', 'rotation-annihilates',
  [(Q, '''            c = Scalar(0);
            s = -ysign;''', '''            c = Scalar(0);
            s = ysign;''')], 'x == 0 special case: G\'[0; y] = [-|y|; 0], r negative / not annihilating')
M('rotation-scaling-outputs-not-swapped', 'C08', 'rotation-annihilates',
  [(Q, 'stable_scaling(yabs, xabs, r, s, c);', 'stable_scaling(yabs, xabs, r, c, s);')], '|x| <= |y| branch: c gets |y|/r')
M('rotation-scaling-smaller-first', 'C08', 'rotation-annihilates',
  [(Q, 'stable_scaling(xabs, yabs, r, c, s);', 'stable_scaling(yabs, xabs, r, s, c);')], 'helper precondition a >= b broken in the |x| > |y| branch')
M('hessqr-compute-forgets-shift', 'C08', 'generator-is-a-rotation',
  [(Q, '        m_mat_R.diagonal().array() -= m_shift;\n', '')])
M('tridiag-compute-supd2-sign', 'C08', 'band-updates-follow-generator',
  [(Q, 'm_R_supd2.coeffRef(i) = -(*s) * m_R_supd.coeff(i + 1);', 'm_R_supd2.coeffRef(i) = (*s) * m_R_supd.coeff(i + 1);')])
M('tridiag-compute-swapped-outputs', 'C08', 'band-updates-follow-generator',
  [(Q, 'this->compute_rotation(m_R_diag.coeff(i), m_T_subd.coeff(i), r, *c, *s);', 'this->compute_rotation(m_R_diag.coeff(i), m_T_subd.coeff(i), r, *s, *c);')])
M('tridiag-compute-pointer-advanced-in-branch', 'C08', 'band-updates-follow-generator',
  [(Q, '''                m_R_supd.coeffRef(i + 1) *= (*c);
            }

            c++;
            s++;''', '''                m_R_supd.coeffRef(i + 1) *= (*c);
                c++;
                s++;
            }
''')], 'last rotation overwrites the previous one')
M('tridiag-QtHQ-missing-factor-two', 'C08', 'two-sided-formulas-equal-PTP',
  [(Q, 'const Scalar csy2 = Scalar(2) * c * s * y;', 'const Scalar csy2 = c * s * y;')])
M('tridiag-QtHQ-bulge-sign', 'C08', 'two-sided-formulas-equal-PTP',
  [(Q, "const Scalar o = -s * m_T_subd.coeff(i + 1);                     // o'", "const Scalar o = s * m_T_subd.coeff(i + 1);                     // o'")])
M('tridiag-QtHQ-offdiag-formula', 'C08', 'two-sided-formulas-equal-PTP',
  [(Q, "dest.coeffRef(i + 1, i) = cs * (x - z) + (c2 - s2) * y;  // y'", "dest.coeffRef(i + 1, i) = cs * (x + z) + (c2 - s2) * y;  // y'")])

N('hessqr-compute-subdiagonal-computed', 'C08',
  [(Q, '''            Rii[1] = 0;       // R[i + 1, i] => 0''', '''            Rii[1] = s * xi + c * xj;''')],
  'R[i+1,i] computed by the rotation instead of set to zero: zero to rounding, within the stated tolerance')
N('qr-formulas-rewritten', 'C08',
  [(Q, '''            const Scalar tmp = Y[i];
            Y[i] = c * tmp - s * Y[i + 1];
            Y[i + 1] = s * tmp + c * Y[i + 1];''', '''            const Scalar tmp = Y[i];
            Y[i] = -(s * Y[i + 1]) + tmp * c;
            Y[i + 1] = c * Y[i + 1] + tmp * s;'''),
   (Q, 'const Scalar csy2 = Scalar(2) * c * s * y;', 'const Scalar csy2 = Scalar(2) * cs * y;'),
   (Q, "dest.coeffRef(i + 1, i) = cs * (x - z) + (c2 - s2) * y;  // y'", "dest.coeffRef(i + 1, i) = cs * x - cs * z + c2 * y - s2 * y;  // y'")],
  'algebraically identical formulas')
N('qr-sine-sign-convention-flipped-everywhere', 'C08',
  [(Q, '            s = -ysign;', '            s = ysign;'),
   (Q, 's = -ysign * s;', 's = ysign * s;', 'all'),
   (Q, '- s * ', '@MS@', 'all'), (Q, '+ s * ', '- s * ', 'all'), (Q, '@MS@', '+ s * ', 'all'),
   (Q, '= -s * ', '= @S@', 'all'), (Q, '= s * ', '= -s * ', 'all'), (Q, '= @S@', '= s * ', 'all'),
   (Q, 's2 = -s * s;', 's2 = s * s;'),
   (Q, '(*c) * Tii1 - (*s) * Ti1i1', '(*c) * Tii1 + (*s) * Ti1i1'),
   (Q, '(*s) * Tii1 + (*c) * Ti1i1', '-(*s) * Tii1 + (*c) * Ti1i1'),
   (Q, 'm_R_supd2.coeffRef(i) = -(*s) * m_R_supd.coeff(i + 1);', 'm_R_supd2.coeffRef(i) = (*s) * m_R_supd.coeff(i + 1);'),
   (Q, "dest.coeffRef(i, i) = c2x - csy2 + s2z;", "dest.coeffRef(i, i) = c2x + csy2 + s2z;"),
   (Q, "dest.coeffRef(i + 1, i) = cs * (x - z) + (c2 - s2) * y;", "dest.coeffRef(i + 1, i) = cs * (z - x) + (c2 - s2) * y;"),
   (Q, "dest.coeffRef(i + 1, i + 1) = s2x + csy2 + c2z;", "dest.coeffRef(i + 1, i + 1) = s2x - csy2 + c2z;"),
   (Q, "dest.coeffRef(i + 1, i) = ci1 * dest.coeff(i + 1, i) - si1 * o;", "dest.coeffRef(i + 1, i) = ci1 * dest.coeff(i + 1, i) + si1 * o;")],
  'G_i = [c -s; s c] with s = y / r everywhere: the same Q, R and Q\'HQ; every rule is relative to the generator and stays discharged')

D = 'LinAlg/DoubleShiftQR.h'
M('ds-vector-reflector-missing-factor-two', 'C08', 'reflector-application-is-I-minus-2uut',
  [(D, 'const Scalar dot2 = Scalar(2) * (x[0] * u0', 'const Scalar dot2 = Scalar(1) * (x[0] * u0')], 'I - uu\' is not orthogonal')
M('ds-applyXP-third-column-uses-u1', 'C08', 'reflector-application-is-I-minus-2uut',
  [(D, 'X2[i] -= tmp * u2;', 'X2[i] -= tmp * u1;')])
M('ds-applyPX-two-row-case-uses-three', 'C08', 'reflector-application-is-I-minus-2uut',
  [(D, '''        if (nr == 2 || nrow == 2)
        {
            for (Index i = 0; i < ncol; i++, xptr += stride)
            {
                const Scalar tmp = u0_2 * xptr[0] + u1_2 * xptr[1];
                xptr[0] -= tmp * u0;
                xptr[1] -= tmp * u1;''', '''        if (nr == 2 || nrow == 2)
        {
            for (Index i = 0; i < ncol; i++, xptr += stride)
            {
                const Scalar tmp = u0_2 * xptr[0] + u1_2 * xptr[1];
                xptr[0] -= tmp * u0;
                xptr[1] -= tmp * u0;''')])
M('ds-first-column-m10-sign', 'C08', 'first-reflector-from-shifted-square',
  [(D, 'const Scalar m10 = x10 * (x00 + x11 - m_shift_s);', 'const Scalar m10 = x10 * (x00 - x11 - m_shift_s);')])
M('ds-first-column-m20-entry', 'C08', 'first-reflector-from-shifted-square',
  [(D, 'const Scalar m20 = m_mat_H.coeff(il + 2, il + 1) * m_mat_H.coeff(il + 1, il);', 'const Scalar m20 = m_mat_H.coeff(il + 2, il + 1) * m_mat_H.coeff(il + 1, il + 1);')])
M('ds-first-column-forgets-t', 'C08', 'first-reflector-from-shifted-square',
  [(D, 'const Scalar m00 = x00 * (x00 - m_shift_s) + x01 * x10 + m_shift_t;', 'const Scalar m00 = x00 * (x00 - m_shift_s) + x01 * x10;')])
M('ds-reflector-sign-cancels', 'C08', 'reflector-sign-and-scaling-order',
  [(D, 'const Scalar rho = (x1 <= Scalar(0)) - (x1 > Scalar(0));', 'const Scalar rho = (x1 > Scalar(0)) - (x1 <= Scalar(0));')])
M('ds-scaling-branch-ignores-third', 'C08', 'reflector-sign-and-scaling-order',
  [(D, 'else if (x2m >= x1m && x2m >= x3m)', 'else if (x2m >= x1m)')])
M('ds-apply-before-compute-in-chase', 'C08', 'reflector-defined-before-applied',
  [(D, '''            compute_reflector(&m_mat_H.coeffRef(il + i, il + i - 1), il + i);
            // Apply the reflector to X
            apply_PX(m_mat_H.block(il + i, il + i - 1, 3, m_n - il - i + 1), m_n, il + i);''', '''            apply_PX(m_mat_H.block(il + i, il + i - 1, 3, m_n - il - i + 1), m_n, il + i);
            compute_reflector(&m_mat_H.coeffRef(il + i, il + i - 1), il + i);''')])
M('ds-last-reflector-index', 'C08', 'reflector-defined-before-applied',
  [(D, 'apply_XP(m_mat_H.block(0, iu - 1, il + bsize, 2), m_n, iu - 1);', 'apply_XP(m_mat_H.block(0, iu - 1, il + bsize, 2), m_n, iu - 2);')])
M('ds-applyQtY-reversed-index', 'C08', 'reflector-order-and-offsets',
  [(D, 'apply_PX(y_ptr, i);', 'apply_PX(y_ptr, n1 - 1 - i);')])
M('ds-applyYQ-last-block-index', 'C08', 'reflector-order-and-offsets',
  [(D, 'apply_XP(Y.block(0, n2, nrow, 2), stride, n2);', 'apply_XP(Y.block(0, n2, nrow, 2), stride, n2 - 1);')])
N('ds-formulas-rewritten', 'C08',
  [(D, 'const Scalar m00 = x00 * (x00 - m_shift_s) + x01 * x10 + m_shift_t;', 'const Scalar m00 = x00 * x00 - m_shift_s * x00 + x10 * x01 + m_shift_t;'),
   (D, 'X2[i] -= tmp * u2;', 'X2[i] -= u2 * tmp;'),
   (D, 'const Scalar dot2 = Scalar(2) * (x[0] * u0', 'const Scalar dot2 = (Scalar(2) * x[0] * u0 + Scalar(2) * x[1] * u1 + (nr_is_2 ? 0 : Scalar(2) * (x[2] * u2))) + Scalar(0) * (x[0] * u0')],
  'algebraically identical')

# ----------------------------------------------------------------------------- C13 dense-kernel contracts
S_ = 'LinAlg/UpperHessenbergSchur.h'
E_ = 'LinAlg/UpperHessenbergEigen.h'
T_ = 'LinAlg/TridiagEigen.h'
M('schur-split-zeroes-row-minus-one', 'C13', 'dense-kernel-index-contracts',
  [(S_, '''        if (iu > 1)
            m_T.coeffRef(iu - 1, iu - 2) = Scalar(0);''', '''        if (iu > 0)
            m_T.coeffRef(iu - 1, iu - 2) = Scalar(0);''')], 'iu == 1: column index -1')
M('schur-francis-start-one-too-high', 'C13', 'dense-kernel-index-contracts',
  [(S_, 'for (im = iu - 2; im >= il; --im)', 'for (im = iu - 1; im >= il; --im)')], 'reads T(im + 2, im + 1) with im + 2 = iu + 1')
M('schur-householder-right-window-too-tall', 'C13', 'dense-kernel-index-contracts',
  [(S_, 'apply_householder_right_simd(ess, tau, &m_T.coeffRef(0, k), (std::min)(iu, k + 3) + 1, m_n);', 'apply_householder_right_simd(ess, tau, &m_T.coeffRef(0, k), (std::min)(iu, k + 3) + 2, m_n);')], 'rows 0..iu+1')
M('schur-cleanup-loop-low-start', 'C13', 'dense-kernel-index-contracts',
  [(S_, 'for (Index i = im + 2; i <= iu; ++i)', 'for (Index i = im + 1; i <= iu; ++i)')], 'T(i, i - 2) with i - 2 = im - 1 may be -1')
M('schur-find-subdiag-may-return-negative', 'C13', 'dense-kernel-index-contracts',
  [(S_, 'while (res > 0)\n', 'while (res >= 0)\n')], 'reads T(res - 1, ..) at res = 0')
M('eigen-pair-at-last-column', 'C13', 'dense-kernel-index-contracts',
  [(E_, 'if (Eigen::numext::imag(m_eivalues.coeff(j)) == Scalar(0) || j + 1 == n)', 'if (Eigen::numext::imag(m_eivalues.coeff(j)) == Scalar(0))')], 'column j + 1 = n read when the last eigenvalue has a non-zero imaginary part')
M('eigen-values-loop-last-block', 'C13', 'dense-kernel-index-contracts',
  [(E_, 'if (i == m_n - 1 || m_matT.coeff(i + 1, i) == Scalar(0))', 'if (m_matT.coeff(i + 1, i) == Scalar(0) || i == m_n - 1)')], 'reads T(n, n - 1) before testing for the last row')
M('tridiag-subdiag-scan-past-end', 'C13', 'dense-kernel-index-contracts',
  [(T_, 'while (end > 0 && subdiag[end - 1] == Scalar(0))', 'while (end >= 0 && subdiag[end - 1] == Scalar(0))')])
M('tridiag-qr-step-bulge-guard', 'C13', 'dense-kernel-index-contracts',
  [(T_, 'if (k < end - 1)\n', 'if (k < end)\n')], 'subdiag[k + 1] with k + 1 = end = n - 1: one past the sub-diagonal')
M('tridiag-subdiag-sized-n-minus-2', 'C13', 'dense-kernel-index-contracts',
  [(T_, 'm_sub_diag.resize(m_n - 1);', 'm_sub_diag.resize(m_n - 2);')], 'declared extent no longer established')
N('schur-guards-rewritten', 'C13',
  [(S_, '''        if (iu > 1)
            m_T.coeffRef(iu - 1, iu - 2) = Scalar(0);''', '''        if (iu >= 2)
            m_T.coeffRef(iu - 1, iu - 2) = Scalar(0);'''),
   (S_, 'for (Index i = im + 2; i <= iu; ++i)', 'for (Index i = im + 2; i < iu + 1; ++i)')], 'same ranges')

N('svd-derived-factor-reciprocal-via-array', 'C16',
  [('contrib/PartialSVDSolver.h', "return (svals.array() > Scalar(0)).select(svals.cwiseInverse(), Vector::Zero(k));", "return (svals.array() > Scalar(0)).select(svals.array().inverse().matrix(), Vector::Zero(k));")],
  'the same reciprocal through the array interface')
M('svd-derived-factor-relative-floor-missing-sqrt', 'C16', 'shape-predicates-agree',
  [('contrib/PartialSVDSolver.h', "const Vector svals = m_eigs->eigenvalues().head(k).cwiseMax(Scalar(0)).cwiseSqrt() * m_op->scale();", "const Vector svals = m_eigs->eigenvalues().head(k).cwiseMax(Scalar(0)) * m_op->scale();")],
  'U and V scaled by 1/lambda instead of 1/sigma')

B_ = 'LinAlg/BKLDLT.h'
M('bkldlt-lambda-scan-includes-end', 'C13', 'packed-storage-index-contracts',
  [(B_, 'for (const Scalar* ptr = head + 2; ptr < end; ptr++)', 'for (const Scalar* ptr = head + 2; ptr <= end; ptr++)')], 'reads the first entry of the next column (past the storage for the last column)')
M('bkldlt-elimination-view-one-too-long', 'C13', 'packed-storage-index-contracts',
  [(B_, 'MapVec(col_pointer(j + k + 1), ldim - j).noalias() -= (l_conj / akk) * l.tail(ldim - j);', 'MapVec(col_pointer(j + k + 1), ldim - j + 1).noalias() -= (l_conj / akk) * l.tail(ldim - j);')])
M('bkldlt-2x2-block-length', 'C13', 'packed-storage-index-contracts',
  [(B_, 'const Index ldim = m_n - k - 2;', 'const Index ldim = m_n - k - 1;')], 'views of the two eliminated columns run one past their end')
M('bkldlt-main-loop-includes-last-column', 'C13', 'packed-storage-index-contracts',
  [(B_, 'for (k = 0; k < m_n - 1; k++)', 'for (k = 0; k < m_n; k++)')], 'pivot search called on the last column: reads A[n, n-1]')
M('bkldlt-sigma-search-on-last-column', 'C13', 'packed-storage-index-contracts',
  [(B_, '''        if (r < m_n - 1)
            sigma = find_lambda(r, p);''', '''        if (r < m_n)
            sigma = find_lambda(r, p);''')])
M('bkldlt-coeff-transposed-index', 'C13', 'packed-storage-index-contracts',
  [(B_, 'const RealScalar abs_elem = abs(coeff(r, j));', 'const RealScalar abs_elem = abs(coeff(j, r));')], 'reads above the diagonal: not in the packed triangle')
M('bkldlt-column-lengths', 'C13', 'packed-storage-index-contracts',
  [(B_, 'head += (m_n - i);', 'head += (m_n - i - 1);')], 'layout assumed by every pointer proof')
N('bkldlt-loops-rewritten', 'C13',
  [(B_, 'for (const Scalar* ptr = head + 2; ptr < end; ptr++)', 'for (const Scalar* ptr = head + 2; end > ptr; ptr++)'),
   (B_, 'for (k = 0; k < m_n - 1; k++)', 'for (k = 0; k + 1 < m_n; k++)')], 'same ranges')

M('hesseigen-zero-matrix-guard-removed', 'C09', 'scale-divisor-guarded',
  [('LinAlg/UpperHessenbergEigen.h', '''        if (scale == Scalar(0))
        {
            m_matT.resize(m_n, m_n);
            m_matT.setZero();
            m_eivec.resize(m_n, m_n);
            m_eivec.setIdentity();
            m_eivalues.resize(m_n);
            m_eivalues.setZero();
            m_computed = true;
            return;
        }
''', '')], 'reverts fix F10: 0/0 for the zero matrix')
M('tridiageigen-zero-matrix-guard-removed', 'C09', 'scale-divisor-guarded',
  [('LinAlg/TridiagEigen.h', 'if (scale < near_0)\n', 'if (false && scale < near_0)\n')], 'the sibling guard')
M('hessenberg-norm-skips-last-column', 'C09', 'zero-matrix-test-covers-all-entries',
  [('LinAlg/UpperHessenbergSchur.h', 'for (Index j = 0; j < n; j++)\n            norm +=', 'for (Index j = 0; j < n - 1; j++)\n            norm +=')], 'the last column is left out of the norm')

M('arnoldi-reorth-keeps-stale-norm', 'C07,C01', 'residual-norm-tracks-residual',
  [('LinAlg/Arnoldi.h', '''                m_fac_f.noalias() -= Vs * Vf.head(i1);
                // h <- h + Vf
                h.noalias() += Vf.head(i1);
                // beta <- ||f||
                m_beta = m_op.norm(m_fac_f);''', '''                m_fac_f.noalias() -= Vs * Vf.head(i1);
                // h <- h + Vf
                h.noalias() += Vf.head(i1);''')], 'norm of the residual before re-orthogonalisation is kept')
M('arnoldi-compress-forgets-norm', 'C07,C01', 'residual-norm-tracks-residual',
  [('LinAlg/Arnoldi.h', '''        m_k = 0;
        m_beta = m_op.norm(m_fac_f);
        m_k = k;''', '''        m_k = 0;
        m_k = k;''')], 'after an implicit restart the convergence test uses the old residual norm')

# ----------------------------------------------------------------------------- C13 pointer kernels (dense model)
M('hessqr-row-update-runs-past-last-column', 'C13', 'pointer-kernel-contracts',
  [(Q, 'for (Index j = i + 1; j < m_n; j++, ptr += m_n)', 'for (Index j = i + 1; j <= m_n; j++, ptr += m_n)')])
M('hessqr-fill-range-too-long', 'C13', 'pointer-kernel-contracts',
  [(Q, 'std::fill(Rii + 2, Rii + m_n - i, Scalar(0));', 'std::fill(Rii + 2, Rii + m_n - i + 1, Scalar(0));')], 'writes the first entry of the next column / past the matrix for the last column')
M('hessqr-RQ-column-height', 'C13', 'pointer-kernel-contracts',
  [(Q, 'const Index i2 = i + 2;', 'const Index i2 = i + 3;')], 'row i + 2 = n for the last rotation')
M('hessqr-applyYQ-row-count', 'C13', 'pointer-kernel-contracts',
  [(Q, 'for (Index j = 0; j < nrow; j++)', 'for (Index j = 0; j <= nrow; j++)')])
M('tridiagqr-rotation-pointer-double-step', 'C13', 'pointer-kernel-contracts',
  [(Q, '''            c++;
            s++;

            // If we do not need to calculate the R matrix, then''', '''            c += 2;
            s++;

            // If we do not need to calculate the R matrix, then''')], 'cosine pointer leaves the array after n/2 rotations')
M('ds-compute-deflation-scan-last-row', 'C13', 'pointer-kernel-contracts',
  [(D, '''        for (Index i = 0; i < m_n - 1; i++, Hii += (m_n + 1))
        {
            // Hii[0] => m_mat_H(i, i)''', '''        for (Index i = 0; i < m_n; i++, Hii += (m_n + 1))
        {
            // Hii[0] => m_mat_H(i, i)''')], 'reads H(n, n-1) and H(n, n)')
M('ds-applyPX-reads-third-row-of-two-row-block', 'C13', 'pointer-kernel-contracts',
  [(D, '''        if (nr == 2 || nrow == 2)
        {
            for (Index i = 0; i < ncol; i++, xptr += stride)''', '''        if (nr == 2)
        {
            for (Index i = 0; i < ncol; i++, xptr += stride)''')], 'a 3-entry reflector applied to a 2-row block reads row 2')
M('ds-reflector-storage-column', 'C13', 'pointer-kernel-contracts',
  [(D, 'Scalar* u = &m_ref_u.coeffRef(0, ind);', 'Scalar* u = &m_ref_u.coeffRef(1, ind);')], 'u[2] is the first entry of the next column')
M('ds-chase-window-one-row-low', 'C13', 'pointer-kernel-contracts',
  [(D, 'compute_reflector(&m_mat_H.coeffRef(il + i, il + i - 1), il + i);', 'compute_reflector(&m_mat_H.coeffRef(il + i + 1, il + i - 1), il + i);')], '3-row window may end at row iu + 1')
M('schur-householder-left-reads-fourth-row', 'C13', 'pointer-kernel-contracts',
  [(S_, 'const Scalar tvx = tau * (x[0] + v1 * x[1] + v2 * x[2]);', 'const Scalar tvx = tau * (x[0] + v1 * x[1] + v2 * x[3]);')])
M('schur-householder-left-one-column-too-many', 'C13', 'pointer-kernel-contracts',
  [(S_, 'for (; x < x_end; x += stride)', 'for (; x <= x_end; x += stride)')])
M('schur-householder-right-column-pointer', 'C13', 'pointer-kernel-contracts',
  [(S_, '''        Scalar* x0 = x;
        Scalar* x1 = x + stride;
        Scalar* x2 = x1 + stride;
        for (Index i = 0; i < nrow; i++)''', '''        Scalar* x0 = x;
        Scalar* x1 = x + stride;
        Scalar* x2 = x1 + stride + stride;
        for (Index i = 0; i < nrow; i++)''')], 'fourth column of a three-column window')
M('schur-simd-peeling-end-rounded-to-packet', 'C13', 'pointer-kernel-contracts',
  [(S_, 'const Index peeling_end = nrow - (nrow & (Increment - 1));', 'const Index peeling_end = nrow - (nrow & (PacketSize - 1));')], 'the peeled loop moves two packets per step but its bound is only a multiple of one packet')
M('schur-simd-remainder-packet-unconditional', 'C13', 'pointer-kernel-contracts',
  [(S_, 'if (aligned_end != peeling_end)\n', 'if (aligned_end >= peeling_end)\n')], 'loads a packet at peeling_end even when fewer than PacketSize rows remain')
M('schur-simd-row-pointer-step', 'C13', 'pointer-kernel-contracts',
  [(S_, '''            px0 += Increment;
            px1 += Increment;''', '''            px0 += Increment + 1;
            px1 += Increment;''')])
N('schur-simd-mask-rewritten', 'C13',
  [(S_, 'const Index aligned_end = nrow - (nrow & (PacketSize - 1));', 'const Index aligned_end = nrow - (nrow & (Peeling * PacketSize / 2 - 1));')], 'same mask')

M('herm-compute-restarts-from-step-one', 'C01', 'factorization-resumed-at-its-own-dimension',
  [('HermEigsBase.h', 'm_fac.factorize_from((std::max)(Index(1), m_fac.subspace_dim()), m_ncv, m_nmatop);', 'm_fac.factorize_from(1, m_ncv, m_nmatop);')], 'reverts fix F11')
M('gen-compute-restarts-from-step-one', 'C02', 'factorization-resumed-at-its-own-dimension',
  [('GenEigsBase.h', 'm_fac.factorize_from((std::max)(Index(1), m_fac.subspace_dim()), m_ncv, m_nmatop);', 'm_fac.factorize_from(1, m_ncv, m_nmatop);')], 'reverts fix F11')

# ----------------------------------------------------------------------------- C13 reflector-size invariant (array content)
M('ds-reflector-size-three-for-two-row-reflector', 'C13', 'pointer-kernel-contracts',
  [(D, 'nr[ind] = (x3m < m_near_0) ? 2 : 3;', 'nr[ind] = (x3m < m_near_0) ? 3 : 3;')], 'a size-3 reflector recorded for the last-but-one column: apply_PX(vector) reads y[n]')
M('ds-last-reflector-with-third-entry', 'C13', 'pointer-kernel-contracts',
  [(D, 'compute_reflector(m_mat_H.coeff(iu - 1, iu - 2), m_mat_H.coeff(iu, iu - 2), 0, iu - 1);', 'compute_reflector(m_mat_H.coeff(iu - 1, iu - 2), m_mat_H.coeff(iu, iu - 2), m_mat_H.coeff(iu, iu - 1), iu - 1);')], 'may record size 3 at column iu - 1')
M('ds-vector-apply-ignores-size-one', 'C13', 'pointer-kernel-contracts',
  [(D, '''        const Index nr = m_ref_nr.coeff(u_ind);
        if (nr == 1)
            return;

        const Scalar u0 = m_ref_u.coeff(0, u_ind),
                     u1 = m_ref_u.coeff(1, u_ind),
                     u2 = m_ref_u.coeff(2, u_ind);''', '''        const Index nr = m_ref_nr.coeff(u_ind);

        const Scalar u0 = m_ref_u.coeff(0, u_ind),
                     u1 = m_ref_u.coeff(1, u_ind),
                     u2 = m_ref_u.coeff(2, u_ind);''')], 'reads y[u_ind + 1] for the last column, whose reflector has size 1')
M('ds-block-tail-size-not-recorded', 'C13', 'reflector-size-written-for-every-column',
  [(D, '''        apply_XP(m_mat_H.block(0, iu - 1, il + bsize, 2), m_n, iu - 1);

        m_ref_nr.coeffRef(iu) = 1;''', '''        apply_XP(m_mat_H.block(0, iu - 1, il + bsize, 2), m_n, iu - 1);
''')], 'the size of the last column of a block is left uninitialised')
M('ds-chase-loop-stops-one-early', 'C13', 'reflector-size-written-for-every-column',
  [(D, 'for (Index i = 1; i < bsize - 2; i++)', 'for (Index i = 1; i < bsize - 3; i++)')], 'column iu - 2 gets no reflector and no size')

# ----------------------------------------------------------------------------- lifetime of the stored matrix reference (F12)
M('svd-ctor-takes-ref-by-reference', 'C16', 'stored-matrix-reference-outlives-its-argument',
  [('contrib/PartialSVDSolver.h', """    template <typename Derived>
    PartialSVDSolver(const Eigen::EigenBase<Derived>& mat, Index ncomp, Index ncv) :
        m_mat(mat.derived()), m_m(m_mat.rows()), m_n(m_mat.cols()), m_evecs(0, 0)""", """    PartialSVDSolver(ConstGenericMatrix& mat, Index ncomp, Index ncv) :
        m_mat(mat), m_m(m_mat.rows()), m_n(m_mat.cols()), m_evecs(0, 0)""")],
  'reverts fix F12: the member copies a Ref whose evaluated temporary dies with the constructor call (row-major argument)')
M('svd-operator-built-from-argument', 'C16', 'stored-matrix-reference-outlives-its-argument',
  [('contrib/PartialSVDSolver.h', "m_op.reset(new SVDTallMatOp<Scalar, MatrixType>(m_mat));", "m_op.reset(new SVDTallMatOp<Scalar, MatrixType>(mat.derived()));")],
  'the operator copies a temporary Ref made from the argument: dangles for tall row-major input')
N('svd-ctor-takes-matrixbase-like-the-wrappers', 'C16', [('contrib/PartialSVDSolver.h', "m_mat(mat.derived()), m_m(m_mat.rows())", "m_mat(mat.derived()), m_m(mat.rows())")],
  'sizes read from the argument instead of the member: same values')

# ----------------------------------------------------------------------------- allocation before validation (round-9 seed C12i)
M('herm-ctor-preallocates-ritz-values-before-guards', 'C12', 'no-allocation-sized-by-unvalidated-argument',
  [('HermEigsBase.h', """        m_info(CompInfo::NotComputed)
    {
        if (m_op.rows() != m_op.cols())
            throw std::invalid_argument("the matrix operation must represent a square matrix");

        if (nev < 1 || nev > m_n - 1)
            throw std::invalid_argument("nev must satisfy 1 <= nev <= n - 1, n is the size of matrix");

        if (ncv <= nev || ncv > m_n)
            throw std::invalid_argument("ncv must satisfy nev < ncv <= n, n is the size of matrix");
    }

    // If op is an rvalue""", """        m_info(CompInfo::NotComputed)
    {
        m_ritz_val.resize(m_ncv);
        if (nev < 1 || nev > m_n - 1)
            throw std::invalid_argument("nev must satisfy 1 <= nev <= n - 1, n is the size of matrix");

        if (ncv <= nev || ncv > m_n)
            throw std::invalid_argument("ncv must satisfy nev < ncv <= n, n is the size of matrix");
    }

    // If op is an rvalue""")], 'negative ncv reaches resize() before the range guard: bad_alloc instead of invalid_argument')
M('gen-ctor-ritz-estimates-in-initialiser-list', 'C12', 'no-allocation-sized-by-unvalidated-argument',
  [('GenEigsBase.h', "        m_info(CompInfo::NotComputed)\n    {\n        if (op.rows() != op.cols())\n            throw std::invalid_argument(\"the matrix operation must represent a square matrix\");\n\n        if (nev < 1 || nev > m_n - 2)", "        m_ritz_est(m_ncv),\n        m_info(CompInfo::NotComputed)\n    {\n        if (op.rows() != op.cols())\n            throw std::invalid_argument(\"the matrix operation must represent a square matrix\");\n\n        if (nev < 1 || nev > m_n - 2)", 'all')],
  'sized member construction in the initialiser list')
N('herm-ctor-preallocates-ritz-values-after-guards', 'C12',
  [('HermEigsBase.h', """            throw std::invalid_argument("ncv must satisfy nev < ncv <= n, n is the size of matrix");
    }

    // If op is an rvalue""", """            throw std::invalid_argument("ncv must satisfy nev < ncv <= n, n is the size of matrix");
        m_ritz_val.resize(m_ncv);
    }

    // If op is an rvalue""")], 'allocation after both guards: only validated sizes reach it')
N('herm-compute-skips-complete-factorization', 'C01,C03,C04,C05,C06,C13',
  [('HermEigsBase.h', "        m_fac.factorize_from((std::max)(Index(1), m_fac.subspace_dim()), m_ncv, m_nmatop);\n        retrieve_ritzpair(selection);",
    "        const Index from_k = (std::max)(Index(1), m_fac.subspace_dim());\n        if (from_k < m_ncv)\n            m_fac.factorize_from(from_k, m_ncv, m_nmatop);\n        retrieve_ritzpair(selection);")],
  'factorize_from(ncv, ncv) is a no-op: skipping it for a complete factorization changes nothing; the Ritz pairs are still retrieved')
M('herm-compute-skips-retrieve-for-complete-factorization', 'C03,C04,C01', 'ritz-data-retrieved-by-this-call',
  [('HermEigsBase.h', "        m_fac.factorize_from((std::max)(Index(1), m_fac.subspace_dim()), m_ncv, m_nmatop);\n        retrieve_ritzpair(selection);",
    "        const Index from_k = (std::max)(Index(1), m_fac.subspace_dim());\n        if (from_k < m_ncv)\n        {\n            m_fac.factorize_from(from_k, m_ncv, m_nmatop);\n            retrieve_ritzpair(selection);\n        }")],
  'round-9 seed C03i as an edit: second compute() reads the back-transformed, re-ordered values of the first')

# ----------------------------------------------------------------------------- LOBPCG status / verdict (F13, round-9 seed C17i)
M('lobpcg-status-not-reset-at-entry', 'C17', 'success-only-after-fresh-residual-test',
  [('contrib/LOBPCGSolver.h', "        m_info = Eigen::NoConvergence;\r\n\r\n        Scalar tolerance_L2", "        Scalar tolerance_L2")],
  'reverts fix F13: a failed call keeps the Success of an earlier call')
N('lobpcg-status-reset-then-else-branch', 'C17',
  [('contrib/LOBPCGSolver.h', "            m_info = Eigen::Success;\r\n        }\r\n    }  // compute",
    "            m_info = Eigen::Success;\r\n        }\r\n        else if (m_info == Eigen::Success)\r\n        {\r\n            m_info = Eigen::NoConvergence;\r\n        }\r\n    }  // compute")],
  'redundant second reset: same status on every path')

# ----------------------------------------------------------------------------- BKLDLT::solve_inplace: block structure of m_perm (C13-D15)
BK = 'LinAlg/BKLDLT.h'
M('bkldlt-2x2-marks-first-position-only', 'C13', 'permutation-sign-structure',
  [(BK, "        m_perm[k] = -m_perm[k] - 1;\n        m_perm[k + 1] = -m_perm[k + 1] - 1;\n", "        m_perm[k] = -m_perm[k] - 1;\n")],
  'a lone negative entry: the diagonal solve reads x[i + 1] / diag_coeff(i + 1) for the last position')
M('bkldlt-2x2-mark-before-store', 'C13', 'permutation-sign-structure',
  [(BK, "        pivoting_1x1(k, p);\n        pivoting_1x1(k + 1, r);\n", "        m_perm[k] = -m_perm[k] - 1;\n        pivoting_1x1(k, p);\n        pivoting_1x1(k + 1, r);\n"),
   (BK, "        m_perm[k] = -m_perm[k] - 1;\n        m_perm[k + 1] = -m_perm[k + 1] - 1;\n", "        m_perm[k + 1] = -m_perm[k + 1] - 1;\n")],
  'the mark of position k is overwritten by the store of pivoting_1x1: pair with one negative entry')
M('bkldlt-diagonal-solve-forgets-extra-step', 'C13', 'permutation-sign-structure',
  [(BK, "                solve_inplace_2x2(e11, e21, e22, x[i], x[i + 1]);\n\n                i++;\n", "                solve_inplace_2x2(e11, e21, e22, x[i], x[i + 1]);\n")],
  'the scan then stands on the second entry of a pair: for a pair at the end reads position n')
M('bkldlt-backward-scan-starts-on-last-block', 'C13', 'permutation-sign-structure',
  [(BK, "        Index i = (m_perm[m_n - 1] < 0) ? (m_n - 3) : (m_n - 2);", "        Index i = (m_perm[m_n - 1] < 0) ? (m_n - 2) : (m_n - 2);")],
  'n = 2 with one 2x2 block: coeff(1, -1)')
M('bkldlt-factorization-loop-ignores-block-size', 'C13', 'permutation-sign-structure',
  [(BK, "                m_info = gaussian_elimination_2x2(k);\n                k++;\n", "                m_info = gaussian_elimination_2x2(k);\n")],
  'the next iteration re-pivots the second position of the pair (numerically wrong as well)')
M('bkldlt-compressed-list-stores-raw-entry', 'C13', 'permutation-sign-structure',
  [(BK, "                m_permc.push_back(std::make_pair(i, perm));", "                m_permc.push_back(std::make_pair(i, Index(m_perm[i])));")],
  'negative entries end up as subscripts of x')
M('bkldlt-permutation-loop-one-past', 'C13', 'permutation-sign-structure',
  [(BK, "        for (Index i = 0; i < npermc; i++)\n        {\n            std::swap(x[m_permc[i].first], x[m_permc[i].second]);", "        for (Index i = 0; i <= npermc; i++)\n        {\n            std::swap(x[m_permc[i].first], x[m_permc[i].second]);")],
  'reads one pair past the list')
N('bkldlt-marks-in-other-order', 'C13',
  [(BK, "        m_perm[k] = -m_perm[k] - 1;\n        m_perm[k + 1] = -m_perm[k + 1] - 1;\n", "        m_perm[k + 1] = -m_perm[k + 1] - 1;\n        m_perm[k] = -m_perm[k] - 1;\n")], 'same pair')
N('bkldlt-diagonal-solve-branches-swapped', 'C13',
  [(BK, """            if (m_perm[i] >= 0)
            {
                // [inverse]
                // x[i] *= e11;
                // [solve]
                x[i] /= e11;
            }
            else
            {""", """            if (m_perm[i] >= 0)
                x[i] /= e11;
            if (m_perm[i] < 0)
            {""")], 'two tests instead of if/else: same scan')

# ----------------------------------------------------------------------------- extents established by init() are kept (round-10 seed C13j)
M('herm-sorted-values-buffer-has-nev-entries', 'C13', 'index-within-extent',
  [('HermEigsBase.h', "        RealVector new_ritz_val(m_ncv);", "        RealVector new_ritz_val(m_nev);")],
  'after the swap m_ritz_val has nev entries: the next retrieve_ritzpair (compute() after compute()) writes ncv')
M('gen-convergence-flags-over-all-ncv', 'C13', 'index-within-extent',
  [('GenEigsBase.h', "m_ritz_est.head(m_nev).array().abs()", "m_ritz_est.head(m_ncv).array().abs()", 'all')],
  'the flag array silently grows to ncv entries (Eigen resizes on assignment)')

# ----------------------------------------------------------------------------- series branches of the magnitude helpers (round-10 seed C08j)
N('givens-series-cosine-fourth-order-coefficient', 'C08',
  [('LinAlg/UpperHessenbergQR.h', "const Scalar c38 = Scalar(0.375);", "const Scalar c38 = Scalar(0.25);")],
  '3/8 t^4 replaced by 1/4 t^4: the difference is at most 1/8 cutoff^4 = 1.25e-5 eps, far below rounding: the rule bounds the remainder, it does not compare text')
M('givens-series-r-drops-quadratic-term', 'C08', 'series-branch-matches-closed-form',
  [('LinAlg/UpperHessenbergQR.h', "r = a + c2 * b * t * (c1 - t2 * (c4 - c8 * t2));", "r = a + c2 * b * t2 * (c1 - t2 * (c4 - c8 * t2));")],
  'r = a (1 + t^3/2 ...): relative error t^2/2 up to 1e-2 sqrt(eps)')
M('norm3-series-wrong-sign', 'C08', 'series-branch-matches-closed-form',
  [('LinAlg/DoubleShiftQR.h', "(Scalar(1) + r * (Scalar(0.5) - Scalar(0.125) * r));", "(Scalar(1) - r * (Scalar(0.5) - Scalar(0.125) * r));")],
  'sqrt(1 + u) ~ 1 - u/2: first-order term has the wrong sign')
N('givens-series-r-expanded', 'C08',
  [('LinAlg/UpperHessenbergQR.h', "r = a + c2 * b * t * (c1 - t2 * (c4 - c8 * t2));", "r = a + b * t * (c2 - t2 * (c8 - c8 * c2 * t2));")],
  'the same polynomial with the 1/2 folded in: a + b t (1/2 - t^2/8 + t^4/16)')

# ----------------------------------------------------------------------------- F14
M('herm-eigenvectors-negative-count-not-clamped', 'C05', 'accessor-agreement',
  [('HermEigsBase.h', "nvec = (std::max)(Index(0), (std::min)(nvec, nconv));", "nvec = (std::min)(nvec, nconv);")], 'reverts fix F14')
N('gen-eigenvectors-clamp-in-two-steps', 'C05',
  [('GenEigsBase.h', "nvec = (std::max)(Index(0), (std::min)(nvec, nconv));", "nvec = (std::min)(nvec, nconv);\n        nvec = (std::max)(nvec, Index(0));")], 'same value')

# ----------------------------------------------------------------------------- normalisation of the small eigen-solvers (round-10 seed C09j)
M('hesseigen-scale-clamped-from-below', 'C09', 'input-normalised-to-unit-magnitude',
  [('LinAlg/UpperHessenbergEigen.h', "const Scalar scale = mat.cwiseAbs().maxCoeff();", "const Scalar scale = (std::max)(Scalar(1e-8), mat.cwiseAbs().maxCoeff());")],
  'matrices below 1e-8 are not normalised')

# ----------------------------------------------------------------------------- F15
M('complexshift-pairing-by-rounded-lambda', 'C02', 'neighbour-overwritten-only-for-a-conjugate-pair',
  [('GenEigsComplexShiftSolver.h', "            if (Eigen::numext::imag(nu) != Scalar(0))", "            if (std::abs(Eigen::numext::imag(lambdaj)) > TypeTraits<Scalar>::epsilon())")],
  'reverts fix F15')
N('complexshift-pairing-test-operands-swapped', 'C02',
  [('GenEigsComplexShiftSolver.h', "            if (Eigen::numext::imag(nu) != Scalar(0))", "            if (Scalar(0) != Eigen::numext::imag(nu))")], 'same exact test')

# ----------------------------------------------------------------------------- F16
M('schur-input-not-normalised', 'C09', 'input-normalised-to-unit-magnitude',
  [('LinAlg/UpperHessenbergSchur.h', "        m_T.noalias() = mat / scale;\n", "        m_T.noalias() = mat;\n"),
   ('LinAlg/UpperHessenbergSchur.h', "        m_T *= scale;\n        m_computed = true;", "        m_computed = true;")], 'reverts fix F16')
M('schur-result-not-scaled-back', 'C09', 'input-normalised-to-unit-magnitude',
  [('LinAlg/UpperHessenbergSchur.h', "        m_T *= scale;\n        m_computed = true;", "        m_computed = true;")], 'T describes mat / scale')

# ----------------------------------------------------------------------------- F17
M('doubleshift-applyYQ-stride-is-row-count', 'C13,C08', 'C13=pointer-kernel-contracts,C08=apply-methods-walk-the-argument-storage',
  [('LinAlg/DoubleShiftQR.h', "        const Index stride = Y.outerStride();", "        const Index stride = Y.rows();")], 'reverts fix F17')

# ----------------------------------------------------------------------------- F18
M('davidson-initial-space-used-as-given', 'C15', 'search-space-basis-orthonormal',
  [('LinAlg/SearchSpace.h', "        twice_is_enough_orthogonalisation(m_basis_vectors);\n", "")], 'reverts fix F18')
M('davidson-extend-without-orthogonalisation', 'C15', 'search-space-basis-orthonormal',
  [('LinAlg/SearchSpace.h', "        twice_is_enough_orthogonalisation(m_basis_vectors, left_cols_to_skip);\n", "")], 'corrections appended to the basis as they are')

# ----------------------------------------------------------------------------- F19
N('davidson-max-size-setter-unclamped', 'C15',
  [('JDSymEigsBase.h', "        m_max_search_space_size = max_search_space_size;\n        // Apply the same limits as the constructor: the search space\n        // cannot have more vectors than the dimension of the matrix\n        initialize();\n", "        m_max_search_space_size = max_search_space_size;\n")], 'reverts fix F19 -- harmless since fix F34: the rank-revealing extension keeps the basis within n columns (replayed on 200 solves with a maximum of 2n)')
M('davidson-max-size-setter-unclamped-with-plain-extension', 'C15', 'rayleigh-ritz-basis-fits-the-matrix',
  [('JDSymEigsBase.h', "        m_max_search_space_size = max_search_space_size;\n        // Apply the same limits as the constructor: the search space\n        // cannot have more vectors than the dimension of the matrix\n        initialize();\n", "        m_max_search_space_size = max_search_space_size;\n"),
   ('LinAlg/SearchSpace.h', "        append_new_vectors_to_basis(Q);", "        append_new_vectors_to_basis(new_vect);")], 'reverts F19 and F34 together: the size clauses are demanded again')
N('davidson-max-size-setter-clamps-inline', 'C15',
  [('JDSymEigsBase.h', "        m_max_search_space_size = max_search_space_size;\n        // Apply the same limits as the constructor: the search space\n        // cannot have more vectors than the dimension of the matrix\n        initialize();\n", "        m_max_search_space_size = (std::min)(max_search_space_size, Index(m_matrix_operator.cols()));\n")], 'clamped in place')

# ----------------------------------------------------------------------------- F20
M('arnoldi-init-divides-by-zero-norm', 'C13', 'division-by-norm-guarded',
  [('LinAlg/Arnoldi.h', "        if (vnorm < m_near_0)\n            v.noalias() = v0 / v0norm;\n        else\n            v /= vnorm;\n", "        v /= vnorm;\n")], 'reverts fix F20')

# ----------------------------------------------------------------------------- F21
M('svd-singular-values-sqrt-unguarded', 'C16', 'clamps-and-fixed-rule',
  [('contrib/PartialSVDSolver.h', "m_eigs->eigenvalues().cwiseMax(Scalar(0)).cwiseSqrt() * m_op->scale();", "m_eigs->eigenvalues().cwiseSqrt() * m_op->scale();")], 'reverts fix F21')

# ----------------------------------------------------------------------------- F22
M('arnoldi-init-keeps-old-dimension-until-the-end', 'C12', 'rejected-init-leaves-no-half-built-state',
  [('LinAlg/Arnoldi.h', "        m_k = 0;\n\n        m_fac_V.resize(m_n, m_m);", "        m_fac_V.resize(m_n, m_m);")], 'reverts fix F22')

# ----------------------------------------------------------------------------- F23
M('densesym-product-accepts-non-square', 'C12', 'square-matrix-guard',
  [('MatOp/DenseSymMatProd.h', '        if (mat.rows() != mat.cols())\n            throw std::invalid_argument("DenseSymMatProd: matrix must be square");\n', '')], 'reverts fix F23 (wrapper)')
M('gen-base-accepts-rectangular-operator', 'C12', 'square-matrix-guard',
  [('GenEigsBase.h', '        if (op.rows() != op.cols())\n            throw std::invalid_argument("the matrix operation must represent a square matrix");\n\n', '')], 'reverts fix F23 (solver base)')

# ----------------------------------------------------------------------------- F24
M('davidson-small-problem-sizes-ignore-nev', 'C15', 'constructed-search-space-sizes-admissible',
  [('JDSymEigsBase.h', "m_initial_search_space_size = (std::max)(m_number_eigenvalues, m_matrix_operator.cols() / 3);", "m_initial_search_space_size = m_matrix_operator.cols() / 3;")], 'reverts the initial-size part of fix F24')
M('davidson-maximal-size-below-initial', 'C15', 'constructed-search-space-sizes-admissible',
  [('JDSymEigsBase.h', "        if (m_max_search_space_size < m_initial_search_space_size)\n        {\n            m_max_search_space_size = m_initial_search_space_size;\n        }\n", "")], 'reverts the maximal-size part of fix F24')

# ----------------------------------------------------------------------------- F25 (former known finding K2)
M('davidson-status-not-reset-at-entry', 'C15', 'status-assigned-on-every-path',
  [('JDSymEigsBase.h', "        m_info = CompInfo::NotConverging;\n        m_ritz_pairs = RitzPairs<Scalar>();\n", "        m_ritz_pairs = RitzPairs<Scalar>();\n")], 'reverts the status part of fix F25: maxit <= 0 keeps the status of an earlier call')

# ----------------------------------------------------------------------------- F26
M('hesseigen-kept-block-with-zero-imaginary-part', 'C09', 'kept-2x2-block-emitted-as-complex-pair',
  [('LinAlg/UpperHessenbergEigen.h', "                    if (z == Scalar(0))\n                        z = Eigen::NumTraits<Scalar>::epsilon() * maxval;\n", "")], 'reverts fix F26')

# ----------------------------------------------------------------------------- F27
M('arnoldi-init-first-residual-never-checked', 'C07,C02,C01', 'projected-residual-checked-against-the-basis',
  [('LinAlg/Arnoldi.h', """        if (m_op.norm(m_fac_f) <= sqrt(sqrt(m_eps)) * abs(m_fac_H(0, 0)))
        {
            for (int pass = 0; pass < 2; pass++)
            {
                const Scalar vf = m_op.inner_product(v, m_fac_f);
                m_fac_f.noalias() -= v * vf;
                m_fac_H(0, 0) += vf;
            }
        }
""", "")], 'reverts fix F27')
M('arnoldi-step-residual-never-checked', 'C07', 'projected-residual-checked-against-the-basis',
  [('LinAlg/Arnoldi.h', "            m_op.adjoint_product(Vs, m_fac_f, Vf.head(i1));\n            RealScalar ortho_err = Vf.head(i1).cwiseAbs().maxCoeff();", "            continue;\n\n            m_op.adjoint_product(Vs, m_fac_f, Vf.head(i1));\n            RealScalar ortho_err = Vf.head(i1).cwiseAbs().maxCoeff();")], 'the orthogonality test of every step is skipped')

# ----------------------------------------------------------------------------- F28, F29
M('arnoldi-orthogonality-test-skipped-by-norm-ratio', 'C07', 'projected-residual-checked-against-the-basis',
  [('LinAlg/Arnoldi.h', "            // f/||f|| is going to be the next column of V, so we need to test\n            // whether (V^H)B(f/||f||) ~= 0\n            // The test is made in every step",
    "            if (m_beta > RealScalar(0.717) * m_op.norm(h))\n                continue;\n\n            // f/||f|| is going to be the next column of V, so we need to test\n            // whether (V^H)B(f/||f||) ~= 0\n            // The test is made in every step")], 'reverts fix F28')
M('arnoldi-breakdown-threshold-absolute', 'C07,C01', 'residual-thresholds-scale-with-the-operator',
  [('LinAlg/Arnoldi.h', "if (m_beta < beta_thresh * m_op.norm(h))", "if (m_beta < beta_thresh)")], 'reverts fix F29 (Arnoldi)')
M('lanczos-restart-gate-absolute', 'C07', 'residual-thresholds-scale-with-the-operator',
  [('LinAlg/Lanczos.h', "if (m_beta < eps_sqrt * wscale)", "if (m_beta < eps_sqrt)")], 'reverts fix F29 (Lanczos gate)')
N('lanczos-breakdown-threshold-uses-sum-of-squares', 'C07',
  [('LinAlg/Lanczos.h', "if (m_beta < beta_thresh * hscale)", "if (m_beta < beta_thresh * sqrt(hscale * hscale))")], 'another degree-1 scale')

# ----------------------------------------------------------------------------- F30
M('arnoldi-init-zero-test-entrywise', 'C03,C07', 'no-direct-reduction-in-factorization',
  [('LinAlg/Arnoldi.h', "if (m_op.norm(m_fac_f) < m_eps * abs(m_fac_H(0, 0)))", "if (m_fac_f.cwiseAbs().maxCoeff() < m_eps * abs(m_fac_H(0, 0)))")], 'reverts fix F30')

# ----------------------------------------------------------------------------- F31
M('tridiageigen-size-assigned-before-rejection', 'C12', 'rejected-call-leaves-the-object-unchanged',
  [('LinAlg/TridiagEigen.h', '        if (mat.rows() != mat.cols())\n            throw std::invalid_argument("TridiagEigen: matrix must be square");\n        m_n = mat.rows();\n',
    '        m_n = mat.rows();\n        if (m_n != mat.cols())\n            throw std::invalid_argument("TridiagEigen: matrix must be square");\n')], 'reverts fix F31 for one class')

# ----------------------------------------------------------------------------- F32
M('bkldlt-solution-not-scaled-back', 'C10', 'factorized-matrix-normalised',
  [('LinAlg/BKLDLT.h', "        res *= (RealScalar(1) / m_scale);\n", "")], 'x solves (A / scale) x = b: the right-hand side is not divided by the scale')
N('bkldlt-data-not-normalised', 'C10',
  [('LinAlg/BKLDLT.h', "            m_data *= (RealScalar(1) / m_scale);\n        else\n            m_scale = RealScalar(1);", "            m_scale = RealScalar(1);\n        else\n            m_scale = RealScalar(1);")], 'reverts the scaling of fix F32 (m_scale = 1 in both branches, consistently): harmless since the pivot tests were rewritten in quotient form (F48)')

M('lanczos-subdiag-zero-only-on-exact-breakdown', 'C01,C07', 'subdiagonal-zero-iff-fresh-direction',
  [('LinAlg/Lanczos.h', "            bool restart = (m_beta < m_near_0);", "            const bool breakdown = (m_beta < m_near_0);\n            bool restart = breakdown;"),
   ('LinAlg/Lanczos.h', "m_fac_H(i, i - 1) = restart ? Scalar(0) : Scalar(m_beta);", "m_fac_H(i, i - 1) = breakdown ? Scalar(0) : Scalar(m_beta);")],
  'retired seed C01h: on the second restart criterion the norm of the fresh random vector lands in H')

# ----------------------------------------------------------------------------- F34 / F35
M('davidson-extension-plain-qr', 'C15', 'search-space-basis-orthonormal',
  [('LinAlg/SearchSpace.h', "        append_new_vectors_to_basis(Q);", "        append_new_vectors_to_basis(new_vect);")], 'reverts fix F34: the raw corrections are appended')
M('davidson-extension-unpivoted-qr', 'C15', 'search-space-basis-orthonormal',
  [('LinAlg/SearchSpace.h', "Eigen::ColPivHouseholderQR<Matrix> qr(W);", "Eigen::HouseholderQR<Matrix> qr(W);"),
   ('LinAlg/SearchSpace.h', "        Index rank = 0;\n        while (rank < qr.nonzeroPivots() && std::abs(qr.matrixR()(rank, rank)) > new_dir_thresh)\n            rank++;\n", "        const Index rank = W.cols();\n        (void) new_dir_thresh;\n")], 'a plain QR cannot reveal the rank')
M('davidson-extension-rank-not-applied', 'C15', 'search-space-basis-orthonormal',
  [('LinAlg/SearchSpace.h', "Matrix::Identity(W.rows(), rank);", "Matrix::Identity(W.rows(), W.cols());")], 'all columns of Q kept')
M('davidson-correction-loop-unclamped', 'C15', 'counts-clamped-by-available-pairs',
  [('DavidsonSymEigsSolver.h', "const Index ncorr = (std::min)(this->m_correction_size, Index(residues.cols()));", "const Index ncorr = this->m_correction_size;")], 'reverts fix F35 (a)')
M('davidson-restart-unclamped', 'C15', 'counts-clamped-by-available-pairs',
  [('LinAlg/SearchSpace.h', "        size = (std::min)(size, Index(ritz_pairs.ritz_vectors().cols()));\n", "")], 'reverts fix F35 (b)')
M('davidson-converged-starts-true', 'C15', 'counts-clamped-by-available-pairs',
  [('LinAlg/RitzPairs.h', "bool converged = (norms.size() >= number_eigenvalues);", "bool converged = true;")], 'reverts fix F35 (c)')
N('davidson-extension-full-pivoting', 'C15',
  [('LinAlg/SearchSpace.h', "Eigen::ColPivHouseholderQR<Matrix> qr(W);", "Eigen::FullPivHouseholderQR<Matrix> qr(W);"),
   ('LinAlg/SearchSpace.h', "qr.householderQ() * Matrix::Identity(W.rows(), rank);", "qr.matrixQ().leftCols(rank);"),
   ('LinAlg/SearchSpace.h', "while (rank < qr.nonzeroPivots() && std::abs(qr.matrixR()(rank, rank)) > new_dir_thresh)", "while (rank < qr.nonzeroPivots() && std::abs(qr.matrixQR()(rank, rank)) > new_dir_thresh)")], 'another rank-revealing factorization')
N('davidson-correction-count-from-ritz-values', 'C15',
  [('DavidsonSymEigsSolver.h', "Index(residues.cols()));", "Index(eigvals.size()));")], 'same count from the other array')

# ----------------------------------------------------------------------------- F49
M('geigs-cholesky-composite-does-not-check-A', 'C12', 'square-matrix-guard',
  [('MatOp/internal/SymGEigsCholeskyOp.h', "        if (op.rows() != op.cols() || op.rows() != Bop.rows())\n            throw std::invalid_argument(\"SymGEigsCholeskyOp: A must be a square matrix of the same size as B\");\n", "")], 'reverts fix F49 (Cholesky mode)')
M('geigs-reginv-composite-checks-squareness-only', 'C12', 'square-matrix-guard',
  [('MatOp/internal/SymGEigsRegInvOp.h', "if (op.rows() != op.cols() || op.rows() != Bop.rows())", "if (op.rows() != op.cols())")], 'A square but of another size than B')

# ----------------------------------------------------------------------------- F48
M('bkldlt-solve-scales-the-solution-instead-of-the-right-hand-side', 'C10', 'factorized-matrix-normalised',
  [('LinAlg/BKLDLT.h', "        res *= (RealScalar(1) / m_scale);\n        Index npermc = m_permc.size();", "        res *= m_scale;\n        Index npermc = m_permc.size();")], 'multiplies instead of divides: wrong by scale^2')

M('bkldlt-solution-scaled-after-the-substitutions', 'C10', 'factorized-matrix-normalised',
  [('LinAlg/BKLDLT.h', "        res *= (RealScalar(1) / m_scale);\n        Index npermc = m_permc.size();", "        Index npermc = m_permc.size();"),
   ('LinAlg/BKLDLT.h', "            std::swap(x[m_permc[i].first], x[m_permc[i].second]);\n        }\n    }\n\n    Vector solve(", "            std::swap(x[m_permc[i].first], x[m_permc[i].second]);\n        }\n        res *= (RealScalar(1) / m_scale);\n    }\n\n    Vector solve(")],
  'reverts the order of fix F48: the intermediate vector is scale * x')

M('bkldlt-pivot-test-multiplies-two-magnitudes-again', 'C10', 'factorized-matrix-normalised',
  [('LinAlg/BKLDLT.h', "if (abs_akk < alpha * lambda * (lambda / sigma))", "if (sigma * abs_akk < alpha * lambda * lambda)"),
   ('LinAlg/BKLDLT.h', "            m_data *= (RealScalar(1) / m_scale);\n        else\n            m_scale = RealScalar(1);", "            m_scale = RealScalar(1);\n        else\n            m_scale = RealScalar(1);")],
  'product form of the pivot test without the normalisation: the demand of F32 is back')
M('bkldlt-vector-divided-by-complex-pivot', 'C10', 'no-element-wise-division-by-a-complex-scalar',
  [('LinAlg/BKLDLT.h', "        l *= (Scalar(1) / akk);\n", "        l /= akk;\n")], 'reverts fix F48 (c) for the 1x1 pivot')

# ----------------------------------------------------------------------------- K6
N('buckling-pole-guarded', 'C13',
  [('SymGEigsShiftSolver.h', "        m_ritz_val.head(m_nev).array() = m_sigma * m_ritz_val.head(m_nev).array() /\n            (m_ritz_val.head(m_nev).array() - Scalar(1));",
    "        m_ritz_val.head(m_nev).array() = (m_ritz_val.head(m_nev).array() == Scalar(1)).select((std::numeric_limits<Scalar>::max)(), m_sigma * m_ritz_val.head(m_nev).array() /\n            (m_ritz_val.head(m_nev).array() - Scalar(1)));")], 'one possible design decision for K6 (largest finite value): the rule is silent on it, no KNOWN-FINDING line')

# ----------------------------------------------------------------------------- F47
M('arnoldi-init-overflowed-norm-not-handled', 'C13,C01', 'division-by-norm-guarded',
  [('LinAlg/Arnoldi.h', "        if (!(std::isfinite)(vnorm))\n        {\n            v /= v.cwiseAbs().maxCoeff();\n            vnorm = m_op.norm(v);\n        }\n", "")], 'reverts fix F47')

# ----------------------------------------------------------------------------- F46
M('expand-basis-accepts-a-rounding-residue', 'C07,C13', 'fresh-direction-has-positive-norm',
  [('LinAlg/Arnoldi.h', "if (ortho_err < m_eps * fnorm && fnorm > sqrt(m_eps) * fnorm0)", "if (ortho_err < m_eps * fnorm)")], 'reverts fix F46')
M('expand-basis-reference-norm-taken-after-the-projection', 'C07', 'fresh-direction-has-positive-norm',
  [('LinAlg/Arnoldi.h', "            const RealScalar fnorm0 = m_op.norm(f);\n            // f <- f - V * (V^H)Bf, so that f is orthogonal to V in B-norm\n            m_op.adjoint_product(V, f, Vf);\n            f.noalias() -= V * Vf;\n",
    "            // f <- f - V * (V^H)Bf, so that f is orthogonal to V in B-norm\n            m_op.adjoint_product(V, f, Vf);\n            f.noalias() -= V * Vf;\n            const RealScalar fnorm0 = m_op.norm(f);\n")], 'the reference is the norm AFTER the first projection: already noise')

# ----------------------------------------------------------------------------- F45
M('arnoldi-extension-keeps-advertising-its-dimension', 'C07', 'interrupted-extension-advertises-no-dimension',
  [('LinAlg/Arnoldi.h', "        m_k = 0;\n\n        // Keep the upperleft k x k submatrix of H", "        // Keep the upperleft k x k submatrix of H")], 'reverts fix F45 (Arnoldi)')
M('lanczos-dimension-withdrawn-after-the-first-step', 'C07', 'interrupted-extension-advertises-no-dimension',
  [('LinAlg/Lanczos.h', "        m_k = 0;\n\n        // Keep the upperleft k x k submatrix of H", "        // Keep the upperleft k x k submatrix of H"),
   ('LinAlg/Lanczos.h', "            // H[i+1, i+1] = <v, w> = (v^H)Bw\n", "            m_k = 0;\n            // H[i+1, i+1] = <v, w> = (v^H)Bw\n")], 'withdrawn only after the operator has been applied once')

# ----------------------------------------------------------------------------- F44
M('complexshift-double-root-from-the-quadratic', 'C02', 'back-transformation-conditioned-at-the-double-root',
  [('GenEigsComplexShiftSolver.h', "                lambdaj = shift + vv / vOPv;\n", "                lambdaj = (err1 < err2) ? root1 : root2;\n")], 'reverts fix F44')
M('complexshift-probe-estimate-never-taken', 'C02', 'back-transformation-conditioned-at-the-double-root',
  [('GenEigsComplexShiftSolver.h', "if (abs(disc) < sqrt(sqrt(Eigen::NumTraits<Scalar>::epsilon())) && vOPv != Complex(0))", "if (abs(nu) < Scalar(0) && vOPv != Complex(0))")], 'the guard no longer looks at the discriminant')
N('complexshift-probe-estimate-threshold-sqrt-eps', 'C02',
  [('GenEigsComplexShiftSolver.h', "if (abs(disc) < sqrt(sqrt(Eigen::NumTraits<Scalar>::epsilon())) && vOPv != Complex(0))", "if (abs(disc) < sqrt(Eigen::NumTraits<Scalar>::epsilon()) * Scalar(100) && vOPv != Complex(0))")], 'another small threshold on the discriminant')

# ----------------------------------------------------------------------------- F43 (K1)
M('davidson-correction-denominator-unguarded', 'C15', 'division-guarded',
  [('DavidsonSymEigsSolver.h', "            tmp = (tmp.array().abs() < den_floor).select(Vector::Constant(tmp.size(), den_floor), tmp);\n", "")], 'reverts fix F43')
M('davidson-correction-floor-can-be-zero', 'C15', 'division-guarded',
  [('DavidsonSymEigsSolver.h', "const Scalar den_floor = (std::max)(Eigen::NumTraits<Scalar>::epsilon() * (std::abs(eigvals(k)) + diag_scale),\n                                                (std::numeric_limits<Scalar>::min)());", "const Scalar den_floor = Eigen::NumTraits<Scalar>::epsilon() * (std::abs(eigvals(k)) + diag_scale);")], 'for the zero matrix the floor is 0: 0 / 0 again')
N('davidson-correction-clamped-by-cwise-max-of-abs', 'C15',
  [('DavidsonSymEigsSolver.h', "            tmp = (tmp.array().abs() < den_floor).select(Vector::Constant(tmp.size(), den_floor), tmp);\n            correction.col(k) = residues.col(k).array() / tmp.array();", "            correction.col(k) = residues.col(k).array() / ((tmp.array() < Scalar(0)).select(-Vector::Ones(tmp.size()), Vector::Ones(tmp.size())).array() * tmp.array().abs().cwiseMax(den_floor));")], 'sign times max(|v|, floor): another clamp')

# ----------------------------------------------------------------------------- F41 / F42 / K5
M('davidson-new-directions-by-rank-of-projected-block', 'C15', 'search-space-basis-orthonormal',
  [('LinAlg/SearchSpace.h', "        Index rank = 0;\n        while (rank < qr.nonzeroPivots() && std::abs(qr.matrixR()(rank, rank)) > new_dir_thresh)\n            rank++;\n", "        qr.setThreshold(new_dir_thresh);\n        const Index rank = qr.rank();\n")], 'reverts fix F41: pivots compared with the largest pivot of the projected block')
M('davidson-corrections-not-normalised-before-projection', 'C15', 'search-space-basis-orthonormal',
  [('LinAlg/SearchSpace.h', "            if (wnorm > Scalar(0))\n                W.col(j) /= wnorm;\n", "            (void) wnorm;\n")], 'absolute threshold on unnormalised corrections: the count depends on their scale')
N('davidson-threshold-carries-the-norm-of-the-corrections', 'C15',
  [('LinAlg/SearchSpace.h', "            if (wnorm > Scalar(0))\n                W.col(j) /= wnorm;\n", "            (void) wnorm;\n"),
   ('LinAlg/SearchSpace.h', "const Scalar new_dir_thresh = std::sqrt(Eigen::NumTraits<Scalar>::epsilon());", "const Scalar new_dir_thresh = std::sqrt(Eigen::NumTraits<Scalar>::epsilon()) * new_vect.colwise().norm().maxCoeff();")], 'the other accepted form: threshold times a norm of the caller\'s block')
M('davidson-restart-without-pairs', 'C15', 'counts-clamped-by-available-pairs',
  [('JDSymEigsBase.h', "(m_search_space.size() > m_max_search_space_size) && (m_ritz_pairs.size() > 0);", "(m_search_space.size() > m_max_search_space_size);")], 'reverts fix F42')
N('lobpcg-gram-pivots-tested', 'C17',
  [('contrib/LOBPCGSolver.h', "        SparseComplexMatrix Upper_MBM = chol_MBM.matrixU().template cast<Complex>();\r\n", "        if (!(chol_MBM.vectorD().array() > Scalar(0)).all())\r\n        {\r\n            m_info = Eigen::NumericalIssue;\r\n            return Eigen::NumericalIssue;\r\n        }\r\n\r\n        SparseComplexMatrix Upper_MBM = chol_MBM.matrixU().template cast<Complex>();\r\n")], 'the repair that was tried for K5: the rule is silent on it (no KNOWN-FINDING line either)')

# ----------------------------------------------------------------------------- F40
M('lanczos-noise-test-against-the-current-step', 'C13,C07', 'noise-test-relative-to-the-whole-operator',
  [('LinAlg/Lanczos.h', "if (m_beta < beta_thresh * hscale)", "if (m_beta < beta_thresh * (abs(m_fac_H(i, i - 1)) + abs(m_fac_H(i, i))))")], 'reverts fix F40')
M('lanczos-noise-scale-not-accumulated', 'C13', 'noise-test-relative-to-the-whole-operator',
  [('LinAlg/Lanczos.h', "hscale = (std::max)(hscale, (std::max)(abs(m_fac_H(i, i - 1)), abs(m_fac_H(i, i))));", "hscale = (std::max)(abs(m_fac_H(i, i - 1)), abs(m_fac_H(i, i)));")], 'the scale is overwritten in every step: local again')
N('lanczos-noise-scale-from-a-block-of-H', 'C13,C07',
  [('LinAlg/Lanczos.h', "if (m_beta < beta_thresh * hscale)", "if (m_beta < beta_thresh * m_fac_H.topLeftCorner(i + 1, i + 1).cwiseAbs().maxCoeff())")], 'the same reference recomputed from the block of H')

# ----------------------------------------------------------------------------- F38 / F39 (LOBPCG; the file has CRLF line ends)
M('lobpcg-gram-factor-default-ordering', 'C17', 'sparse-factors-used-with-their-ordering',
  [('contrib/LOBPCGSolver.h', "Eigen::SimplicialLDLT<SparseMatrix, Eigen::Lower, Eigen::NaturalOrdering<int>> chol_MBM(", "Eigen::SimplicialLDLT<SparseMatrix> chol_MBM(")], 'reverts fix F38')
N('lobpcg-gram-factor-llt-natural', 'C17',
  [('contrib/LOBPCGSolver.h', "Eigen::SimplicialLDLT<SparseMatrix, Eigen::Lower, Eigen::NaturalOrdering<int>> chol_MBM(", "Eigen::SimplicialLDLT<SparseMatrix, Eigen::Upper, Eigen::NaturalOrdering<int>> chol_MBM(")], 'the other triangle, still the natural ordering')
M('lobpcg-verdict-on-residuals-alone', 'C17', 'success-requires-a-b-orthonormal-iterate',
  [('contrib/LOBPCGSolver.h', "if (BlockSize == 0 && iterate_is_B_orthonormal(X, BX))", "if (BlockSize == 0)")], 'reverts fix F39')
M('lobpcg-orthonormality-test-of-the-wrong-block', 'C17', 'success-requires-a-b-orthonormal-iterate',
  [('contrib/LOBPCGSolver.h', "if (BlockSize == 0 && iterate_is_B_orthonormal(X, BX))", "if (BlockSize == 0 && iterate_is_B_orthonormal(m_residuals, BR))")], 'the residual block is orthonormal by construction: says nothing about X')
M('lobpcg-success-inside-the-loop-again', 'C17', 'success-requires-a-b-orthonormal-iterate',
  [('contrib/LOBPCGSolver.h', "                // The verdict is given after the loop\r\n                break;", "                m_info = Eigen::Success;\r\n                break;"),
   ('contrib/LOBPCGSolver.h', "if (BlockSize == 0 && iterate_is_B_orthonormal(X, BX))", "if (BlockSize != 0 || !iterate_is_B_orthonormal(X, BX))"),
   ('contrib/LOBPCGSolver.h', "            m_info = Eigen::Success;\r\n        }\r\n    }  // compute", "            m_info = Eigen::NoConvergence;\r\n        }\r\n    }  // compute")],
  'Success inside the loop, withdrawn afterwards when the tests fail: equivalent outcome, but written so that the assignment itself is unguarded by the orthonormality test')

# ----------------------------------------------------------------------------- F36 / F37 / K4
M('complexshift-roots-divide-by-nu', 'C13,C02', 'back-transformation-defined-for-a-zero-ritz-value',
  [('GenEigsComplexShiftSolver.h', "const Complex root1 = (nu == Complex(0)) ? root2 : Complex(m_sigmar + (Scalar(1) + disc) / (Scalar(2) * nu));",
    "const Complex root1 = Complex(m_sigmar + (Scalar(1) + disc) / (Scalar(2) * nu));")], 'the large root is computed for nu == 0 as well: (1 + 1) / 0')
M('complexshift-small-root-cancelling-form', 'C13,C02', 'back-transformation-defined-for-a-zero-ritz-value',
  [('GenEigsComplexShiftSolver.h', "m_sigmar + Scalar(2) * m_sigmai * m_sigmai * nu / (Scalar(1) + disc);", "m_sigmar + (Scalar(1) - disc) / (Scalar(2) * nu);")], 'reverts fix F36: 0/0 for nu == 0')
N('complexshift-zero-test-written-as-if', 'C13',
  [('GenEigsComplexShiftSolver.h', "const Complex root1 = (nu == Complex(0)) ? root2 : Complex(m_sigmar + (Scalar(1) + disc) / (Scalar(2) * nu));",
    "Complex root1 = root2;\n            if (nu != Complex(0))\n                root1 = m_sigmar + (Scalar(1) + disc) / (Scalar(2) * nu);")], 'same guard as an if statement')
M('svd-vectors-divide-by-raw-singular-values', 'C16,C13', 'shape-predicates-agree',
  [('contrib/PartialSVDSolver.h', "return (svals.array() > Scalar(0)).select(svals.cwiseInverse(), Vector::Zero(k));", "return svals.cwiseInverse();")], 'reverts the guard of fix F37: 1/0 for the zero matrix')
N('svd-vectors-unclamped-sqrt', 'C16,C13',
  [('contrib/PartialSVDSolver.h', "const Vector svals = m_eigs->eigenvalues().head(k).cwiseMax(Scalar(0)).cwiseSqrt() * m_op->scale();", "const Vector svals = m_eigs->eigenvalues().head(k).cwiseSqrt() * m_op->scale();")], 'sqrt of a rounding-level negative eigenvalue is NaN, NaN > 0 is false, the column is zeroed all the same: behaviour unchanged')
# ----------------------------------------------------------------------------- F33
M('svd-operator-not-normalised', 'C16', 'svd-operator-normalised',
  [('contrib/PartialSVDSolver.h', "        m_cache /= m_scale;\n        y.noalias() = m_mat.transpose() * m_cache;\n        y /= m_scale;\n", "        y.noalias() = m_mat.transpose() * m_cache;\n"),
   ('contrib/PartialSVDSolver.h', "        m_cache /= m_scale;\n        y.noalias() = m_mat * m_cache;\n        y /= m_scale;\n", "        y.noalias() = m_mat * m_cache;\n")],
  'the operators apply A\'A as it is while the accessors still multiply by the scale')
M('svd-singular-values-not-scaled-back', 'C16', 'clamps-and-fixed-rule',
  [('contrib/PartialSVDSolver.h', "Vector svals = m_eigs->eigenvalues().cwiseMax(Scalar(0)).cwiseSqrt() * m_op->scale();", "Vector svals = m_eigs->eigenvalues().cwiseMax(Scalar(0)).cwiseSqrt();")], 'singular values of A / s')
M('svd-operator-scaled-once', 'C16', 'svd-operator-normalised',
  [('contrib/PartialSVDSolver.h', "        y.noalias() = m_mat.transpose() * m_cache;\n        y /= m_scale;\n", "        y.noalias() = m_mat.transpose() * m_cache;\n")], 'A\'A / s: eigenvalues scale with ||A||')
# ----------------------------------------------------------------------------- C19: Park-Miller congruence (session 4)
M('lcg-high-mask-one-bit-short', 'C19', 'step-congruent-to-park-miller',
  [('Util/SimpleRandom.h', "lo += (hi & 0x7FFF) << 16;", "lo += (hi & 0x3FFF) << 16;")], 'bit 14 of the high product is dropped: still in range, no longer 16807*s mod 2^31-1')
M('lcg-carry-shift-off-by-one', 'C19', 'step-congruent-to-park-miller',
  [('Util/SimpleRandom.h', "lo += hi >> 15;", "lo += hi >> 16;")], 'bit 15 of the high product is lost')
M('lcg-second-fold-forgets-increment', 'C19', 'step-congruent-to-park-miller',
  [('Util/SimpleRandom.h', """    lo += hi >> 15;
    if (lo > m_max)
    {
        lo &= m_max;
        ++lo;
    }""", """    lo += hi >> 15;
    if (lo > m_max)
    {
        lo &= m_max;
    }""")], 'x - 2^31 instead of x - (2^31 - 1): in range, off by one on the folded path only; can return the degenerate state 0')
M('lcg-other-multiplier', 'C19', 'step-congruent-to-park-miller',
  [('Util/SimpleRandom.h', "constexpr unsigned int m_a = 16807;           // multiplier", "constexpr unsigned int m_a = 16087;           // multiplier")], 'a transposed digit: a different (worse) generator, every test still passes')
N('lcg-64-bit-product-two-folds', 'C19',
  [('Util/SimpleRandom.h', """    lo = m_a * (long) (seed & 0xFFFF);
    hi = m_a * (long) ((unsigned long) seed >> 16);
    lo += (hi & 0x7FFF) << 16;
    if (lo > m_max)
    {
        lo &= m_max;
        ++lo;
    }
    lo += hi >> 15;
    if (lo > m_max)""", """    hi = (unsigned long) m_a * (unsigned long) seed;
    lo = (hi & m_max) + (hi >> 31);
    if (lo > m_max)""")], 'the same map written with one 64-bit product and one fold plus the final reduction: must stay silent')
# ----------------------------------------------------------------------------- view storage (session 4, seed C16m)
N('svd-scale-through-a-helper', 'C16',
  [('contrib/PartialSVDSolver.h', """    using std::abs;
    Scalar s(0);
    for (Eigen::Index j = 0; j < mat.outerSize(); j++)
    {
        for (typename RefType::InnerIterator it(mat, j); it; ++it)
        {
            s = (std::max)(s, Scalar(abs(it.value())));
        }
    }
    return (s > Scalar(0) && (std::isfinite)(s)) ? s : Scalar(1);
}
""", """    const Scalar s = svd_largest_magnitude<Scalar>(mat);
    return (s > Scalar(0) && (std::isfinite)(s)) ? s : Scalar(1);
}
"""),
   ('contrib/PartialSVDSolver.h', """// Largest magnitude of the entries of a dense or sparse matrix; 1 if that is zero or not finite
""", """template <typename Scalar, typename RefType>
Scalar svd_largest_magnitude(const RefType& mat)
{
    using std::abs;
    Scalar s(0);
    for (Eigen::Index j = 0; j < mat.outerSize(); j++)
    {
        for (typename RefType::InnerIterator it(mat, j); it; ++it)
        {
            s = (std::max)(s, Scalar(abs(it.value())));
        }
    }
    return s;
}
// Largest magnitude of the entries of a dense or sparse matrix; 1 if that is zero or not finite
""")], 'the reduction moved into a helper: same scale (the provenance of the scale is followed through helpers)')
# ----------------------------------------------------------------------------- back-transformation formulas (session 4, seed C03m)
M('buckling-backtransform-one-plus-reciprocal', 'C03,C04', 'back-transformation-formula-well-conditioned',
  [('SymGEigsShiftSolver.h', "m_ritz_val.head(m_nev).array() = m_sigma * m_ritz_val.head(m_nev).array() /\n            (m_ritz_val.head(m_nev).array() - Scalar(1));",
    "m_ritz_val.head(m_nev).array() = m_sigma * (Scalar(1) + Scalar(1) / (m_ritz_val.head(m_nev).array() - Scalar(1)));")],
  'sigma (1 + 1/(nu-1)): same map, 1 - (1 + nu + ..) cancels for |sigma| >> |lambda|')
N('cayley-backtransform-shift-plus-correction', 'C03,C04',
  [('SymGEigsShiftSolver.h', "m_ritz_val.head(m_nev).array() = m_sigma * (m_ritz_val.head(m_nev).array() + Scalar(1)) /\n            (m_ritz_val.head(m_nev).array() - Scalar(1));",
    "m_ritz_val.head(m_nev).array() = m_sigma + Scalar(2) * m_sigma / (m_ritz_val.head(m_nev).array() - Scalar(1));")],
  'sigma + 2 sigma/(nu-1) cancels for |sigma| >> |lambda| -- but there the Cayley map itself has condition |sigma / 2 lambda| (nu -> -1): the formula loses no more than the map, silent')
N('buckling-backtransform-divide-first', 'C03,C04',
  [('SymGEigsShiftSolver.h', "m_ritz_val.head(m_nev).array() = m_sigma * m_ritz_val.head(m_nev).array() /\n            (m_ritz_val.head(m_nev).array() - Scalar(1));",
    "m_ritz_val.head(m_nev).array() = m_sigma * (m_ritz_val.head(m_nev).array() /\n            (m_ritz_val.head(m_nev).array() - Scalar(1)));")], 'sigma * (nu / (nu - 1)): same conditioning')
# ----------------------------------------------------------------------------- F50 / seed C05m (session 4)
M('herm-init-keeps-status', 'C05', 'init-restores-the-initial-accessor-state',
  [('HermEigsBase.h', "        m_niter = 0;\n        m_info = CompInfo::NotComputed;\n", "        m_niter = 0;\n")], 'reverts fix F50: info() after re-init() reports the earlier outcome')
M('gen-init-keeps-flags', 'C05', 'init-restores-the-initial-accessor-state',
  [('GenEigsBase.h', "        m_ritz_conv.setZero();\n", "")], 'flags of the earlier compute() survive init(): accessors return nev zeros')
M('herm-init-status-successful', 'C05', 'flag-writers',
  [('HermEigsBase.h', "        m_niter = 0;\n        m_info = CompInfo::NotComputed;\n", "        m_niter = 0;\n        m_info = CompInfo::Successful;\n")], 'init may only reset the status')
# ----------------------------------------------------------------------------- orientation of the sesquilinear form (session 4, seed C01m)
M('arnoldi-init-projection-coefficient-conjugated', 'C07,C01', 'inner-product-conjugates-the-basis-vector',
  [('LinAlg/Arnoldi.h', "const Scalar vf = m_op.inner_product(v, m_fac_f);", "const Scalar vf = m_op.inner_product(m_fac_f, v);")], 'conj of the component: exact for real scalars')
N('lanczos-diagonal-entry-conjugated', 'C07',
  [('LinAlg/Lanczos.h', "m_fac_H(i, i) = m_op.inner_product(v, w);", "m_fac_H(i, i) = m_op.inner_product(w, v);")], '<A v, v>: the conjugate, equal up to an imaginary rounding residue for a Hermitian operator: not demanded')
# ----------------------------------------------------------------------------- LOBPCG cached products (session 4, seed C17m)
M('lobpcg-ax-updated-without-the-direction-term', 'C17', 'cached-products-follow-the-iterate',
  [('contrib/LOBPCGSolver.h', "            AX = AX * sparse_eVecX + ADD;", "            AX = AX * sparse_eVecX + AD;")], 'AX recombined with the previous direction block')
M('lobpcg-bx-not-rotated-initially', 'C17', 'cached-products-follow-the-iterate',
  [('contrib/LOBPCGSolver.h', "            BX = BX * sparse_eVecX;\r\n        }", "        }")], 'X and AX rotated by the first Rayleigh-Ritz vectors, BX not')
# ----------------------------------------------------------------------------- F51 (session 4): compress_V interrupted by the B operator
M('compress-v-norm-with-dimension-advertised', 'C07', 'interrupted-extension-advertises-no-dimension',
  [('LinAlg/Arnoldi.h', "        const Index k = m_k;\n        m_k = 0;\n        m_beta = m_op.norm(m_fac_f);\n        m_k = k;\n", "        m_beta = m_op.norm(m_fac_f);\n")],
  'reverts fix F51: a B-operator fault in the norm at the end of compress_V leaves k with the new residual and the old norm')
M('compress-v-dimension-restored-before-the-norm', 'C07', 'interrupted-extension-advertises-no-dimension',
  [('LinAlg/Arnoldi.h', "        m_beta = m_op.norm(m_fac_f);\n        m_k = k;\n", "        m_k = k;\n        m_beta = m_op.norm(m_fac_f);\n")], 'the dimension is advertised again before the risky call')
# ----------------------------------------------------------------------------- F52 (session 4): sorting rule validated before the iteration
M('herm-compute-validates-sorting-late', 'C12', 'sorting-rule-validated-before-the-iteration',
  [('HermEigsBase.h', """        if ((sorting != SortRule::LargestAlge) && (sorting != SortRule::LargestMagn) &&
            (sorting != SortRule::SmallestAlge) && (sorting != SortRule::SmallestMagn))
            throw std::invalid_argument("unsupported sorting rule");

        // The m-step Lanczos""", """        // The m-step Lanczos""")], 'reverts fix F52 (symmetric base)')
M('gen-compute-validates-sorting-after-the-factorization', 'C12', 'sorting-rule-validated-before-the-iteration',
  [('GenEigsBase.h', """        if ((sorting != SortRule::LargestMagn) && (sorting != SortRule::LargestReal) &&
            (sorting != SortRule::LargestImag) && (sorting != SortRule::SmallestMagn) &&
            (sorting != SortRule::SmallestReal) && (sorting != SortRule::SmallestImag))
            throw std::invalid_argument("unsupported sorting rule");

""", ""),
   ('GenEigsBase.h', """        retrieve_ritzpair(selection);
        // Restarting""", """        retrieve_ritzpair(selection);
        if ((sorting != SortRule::LargestMagn) && (sorting != SortRule::LargestReal) &&
            (sorting != SortRule::LargestImag) && (sorting != SortRule::SmallestMagn) &&
            (sorting != SortRule::SmallestReal) && (sorting != SortRule::SmallestImag))
            throw std::invalid_argument("unsupported sorting rule");
        // Restarting""")], 'the test runs after the factorization has been extended')
M('herm-compute-guard-accepts-bothends', 'C12', 'sorting-rule-validated-before-the-iteration',
  [('HermEigsBase.h', """        if ((sorting != SortRule::LargestAlge) && (sorting != SortRule::LargestMagn) &&
            (sorting != SortRule::SmallestAlge) && (sorting != SortRule::SmallestMagn))
            throw std::invalid_argument("unsupported sorting rule");

        // The m-step Lanczos""", """        if ((sorting != SortRule::LargestAlge) && (sorting != SortRule::LargestMagn) &&
            (sorting != SortRule::SmallestAlge) && (sorting != SortRule::SmallestMagn) && (sorting != SortRule::BothEnds))
            throw std::invalid_argument("unsupported sorting rule");

        // The m-step Lanczos""")], 'BothEnds passes the early test and is rejected by the final sort after the iteration')
N('herm-compute-guard-written-as-switch-free-equalities', 'C12',
  [('HermEigsBase.h', """        if ((sorting != SortRule::LargestAlge) && (sorting != SortRule::LargestMagn) &&
            (sorting != SortRule::SmallestAlge) && (sorting != SortRule::SmallestMagn))
            throw std::invalid_argument("unsupported sorting rule");

        // The m-step Lanczos""", """        if (!(sorting == SortRule::LargestAlge || sorting == SortRule::LargestMagn ||
              sorting == SortRule::SmallestAlge || sorting == SortRule::SmallestMagn))
            throw std::invalid_argument("unsupported sorting rule");

        // The m-step Lanczos""")], 'the same test written with equalities')
