"""Hand-written mutants of /repo used to test the checkers (tools/selftest.py).  Each still compiles and is the
kind of change the existing suite does not notice.  edits: (file under include/Spectra, old text, new text)."""
MUTANTS = []


def M(name, props, expect, edits, note=''):
    MUTANTS.append({'name': name, 'props': props.split(','), 'expect': expect.split(',') if expect else [], 'edits': edits, 'note': note})


# ----------------------------------------------------------------------------- C01 / C02 / C05
M('herm-drop-final-refresh', 'C01,C05', 'flags-fresh-at-use',
  [('HermEigsBase.h', '''        nconv = num_converged(tol);
        // Sorting results''', '''        // Sorting results''')],
  'reverts fix F1: flags stale when maxit exhausted / 0')
M('gen-drop-final-refresh', 'C02,C05', 'flags-fresh-at-use',
  [('GenEigsBase.h', '''        nconv = num_converged(tol);
        // Sorting results''', '''        // Sorting results''')])
M('herm-sort-forgets-flags', 'C01,C05', 'coherent-permutation',
  [('HermEigsBase.h', '            new_ritz_conv[i] = m_ritz_conv[ind[i]];\n', '            new_ritz_conv[i] = m_ritz_conv[i];\n')],
  'flags no longer follow their values through the final sort')
M('gen-sort-vectors-other-index', 'C02,C05', 'coherent-permutation',
  [('GenEigsBase.h', '            new_ritz_vec.col(i).noalias() = m_ritz_vec.col(ind[i]);', '            new_ritz_vec.col(i).noalias() = m_ritz_vec.col(i);')])
M('herm-conv-test-drops-fnorm', 'C01', 'convergence-test-shape',
  [('HermEigsBase.h', 'RealArray resid = m_ritz_est.head(m_nev).array().abs() * m_fac.f_norm();', 'RealArray resid = m_ritz_est.head(m_nev).array().abs();')],
  'accepts unconverged pairs on badly scaled matrices')
M('gen-conv-test-le', 'C02', 'convergence-test-shape',
  [('GenEigsBase.h', 'Array thresh = tol * m_ritz_val.head(m_nev).array().abs().max(eps23);', 'Array thresh = tol * m_ritz_val.head(m_nev).array().abs().max(Scalar(1));')])
M('herm-retrieve-est-wrong-row', 'C01', 'coherent-retrieve',
  [('HermEigsBase.h', 'm_ritz_est[i] = evecs(m_ncv - 1, ind[i]);', 'm_ritz_est[i] = evecs(m_ncv - 1, i);')])
