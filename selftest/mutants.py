"""Hand-written mutants of /repo used to test the checkers (tools/selftest.py).  Each still compiles and is the
kind of change the existing suite does not notice.  edits: (file under include/Spectra, old text, new text)."""
MUTANTS = []


def M(name, props, expect, edits, note=''):
    MUTANTS.append({'name': name, 'props': props.split(','), 'expect': expect.split(',') if expect else [], 'edits': edits, 'note': note})


# ----------------------------------------------------------------------------- C01 / C02 / C05
M('herm-drop-final-refresh', 'C01,C05', 'flags-fresh-at-use',
  [('HermEigsBase.h', '''        nconv = num_converged(tol);
        // Sorting results''', '''        // Sorting results''')],
  'reverts fix F1: flags stale when maxit exhausted / 0')
M('gen-drop-final-refresh', 'C02,C05', 'flags-fresh-at-use',
  [('GenEigsBase.h', '''        nconv = num_converged(tol);
        // Sorting results''', '''        // Sorting results''')])
M('herm-sort-forgets-flags', 'C01,C05', 'coherent-permutation',
  [('HermEigsBase.h', '            new_ritz_conv[i] = m_ritz_conv[ind[i]];\n', '            new_ritz_conv[i] = m_ritz_conv[i];\n')],
  'flags no longer follow their values through the final sort')
M('gen-sort-vectors-other-index', 'C02,C05', 'coherent-permutation',
  [('GenEigsBase.h', '            new_ritz_vec.col(i).noalias() = m_ritz_vec.col(ind[i]);', '            new_ritz_vec.col(i).noalias() = m_ritz_vec.col(i);')])
M('herm-conv-test-drops-fnorm', 'C01', 'convergence-test-shape',
  [('HermEigsBase.h', 'RealArray resid = m_ritz_est.head(m_nev).array().abs() * m_fac.f_norm();', 'RealArray resid = m_ritz_est.head(m_nev).array().abs();')],
  'accepts unconverged pairs on badly scaled matrices')
M('gen-conv-test-le', 'C02', 'convergence-test-shape',
  [('GenEigsBase.h', 'Array thresh = tol * m_ritz_val.head(m_nev).array().abs().max(eps23);', 'Array thresh = tol * m_ritz_val.head(m_nev).array().abs().max(Scalar(1));')])
M('herm-retrieve-est-wrong-row', 'C01', 'coherent-retrieve',
  [('HermEigsBase.h', 'm_ritz_est[i] = evecs(m_ncv - 1, ind[i]);', 'm_ritz_est[i] = evecs(m_ncv - 1, i);')])
M('symshift-sort-before-backtransform', 'C01', 'backtransform-then-base-sort',
  [('SymEigsShiftSolver.h', '''        m_ritz_val.head(m_nev).array() = Scalar(1) / m_ritz_val.head(m_nev).array() + m_sigma;
        Base::sort_ritzpair(sort_rule);''', '''        Base::sort_ritzpair(sort_rule);
        m_ritz_val.head(m_nev).array() = Scalar(1) / m_ritz_val.head(m_nev).array() + m_sigma;''')],
  'values reported in the order of the transformed spectrum')
M('genrealshift-transform-all-ncv', 'C02', 'backtransform-then-base-sort',
  [('GenEigsRealShiftSolver.h', 'm_ritz_val.head(m_nev) = Scalar(1) / m_ritz_val.head(m_nev).array() + m_sigma;',
    'm_ritz_val.head(m_nev - 1) = Scalar(1) / m_ritz_val.head(m_nev - 1).array() + m_sigma;')],
  'last wanted eigenvalue stays in the transformed spectrum')
M('arnoldi-expand-basis-uncounted', 'C05', 'op-application-counted',
  [('LinAlg/Arnoldi.h', '''                m_op.perform_op(v.data(), f.data());
                op_counter++;''', '''                m_op.perform_op(v.data(), f.data());''')],
  'num_operations() misses the applications made when the basis breaks down')
M('herm-init-keeps-opcount', 'C05', 'counter-identity',
  [('HermEigsBase.h', '''        m_nmatop = 0;
        m_niter = 0;

        // Initialize the Lanczos''', '''        m_niter = 0;

        // Initialize the Lanczos''')],
  'operation count accumulates across init() calls')
M('gen-eigenvectors-no-clamp', 'C05', 'accessor-agreement',
  [('GenEigsBase.h', '''        nvec = (std::min)(nvec, nconv);
        ComplexMatrix res(m_n, nvec);''', '''        ComplexMatrix res(m_n, nvec);''')])
M('herm-status-strict', 'C05', 'exit-status-and-count',
  [('HermEigsBase.h', 'm_info = (nconv >= m_nev) ? CompInfo::Successful : CompInfo::NotConverging;', 'm_info = (nconv > m_nev) ? CompInfo::Successful : CompInfo::NotConverging;')])
M('gen-return-count-plus-one', 'C05', 'exit-status-and-count',
  [('GenEigsBase.h', 'return (std::min)(m_nev, nconv);', 'return (std::min)(m_nev, nconv + 1);')])
M('herm-ctor-status-successful', 'C05', 'initial-state',
  [('HermEigsBase.h', '''        m_fac(ArnoldiOpType(op, Bop), m_ncv),
        m_info(CompInfo::NotComputed)''', '''        m_fac(ArnoldiOpType(op, Bop), m_ncv),
        m_info(CompInfo::NotConverging)''')])
M('gen-sort-gets-selection', 'C05', 'rule-argument-flow',
  [('GenEigsBase.h', '        sort_ritzpair(sorting);', '        sort_ritzpair(selection);')])
M('herm-eigenvalues-skips-flag', 'C05', 'accessor-agreement',
  [('HermEigsBase.h', '''            if (m_ritz_conv[i])
            {
                res[j] = m_ritz_val[i];
                j++;
            }''', '''            if (j < nconv)
            {
                res[j] = m_ritz_val[i];
                j++;
            }''')],
  'returns the first count values instead of the flagged ones')
M('herm-restart-twice', 'C05', 'restarts-bounded-by-maxit',
  [('HermEigsBase.h', '''            restart(nev_adj, selection);
        }''', '''            restart(nev_adj, selection);
            if (nconv == 0 && i > 2)
                restart(nev_adj, selection);
        }''')], 'still one loop: two restarts per iteration -> more than maxit restarts')

# behaviour-preserving edits: every listed check must stay silent (exit 0)
NEUTRAL = []


def N(name, props, edits, note=''):
    NEUTRAL.append({'name': name, 'props': props.split(','), 'edits': edits, 'note': note})


N('gen-return-unclamped', 'C05', [('GenEigsBase.h', 'return (std::min)(m_nev, nconv);', 'return nconv;')],
  'count <= nev always: same value')
N('herm-refresh-under-if', 'C01,C05', [('HermEigsBase.h', """        nconv = num_converged(tol);
        // Sorting results""", """        if (i >= maxit)
            nconv = num_converged(tol);
        // Sorting results""")], 'F1 written conditionally: after break the flags are already fresh (needs FEAS)')
