"""Rules shared by the two Arnoldi/Lanczos solver bases (HermEigsBase, GenEigsBase): used by C01, C02, C05 (and C04)."""
from .facts import AnalysisBroken
from . import paths
from .sym import sym, show, match, single_defs, atoms
from .xeval import ev, CannotEval

BASES = {'herm': 'Spectra::HermEigsBase', 'gen': 'Spectra::GenEigsBase'}


def short(q):
    return q.replace('Spectra::', '')


class BaseModel:
    """Names the roles of one instantiated solver base from its declarations (types), not from text."""

    def __init__(self, ctx, comp):
        F = ctx.F
        self.comp = comp
        self.record = comp.record
        recs = [r for r in F.records.values() if r['qname'] == comp.record and not r['dep']]
        if not recs:
            raise AnalysisBroken('record %s not in fact base' % comp.record)
        self.rec = recs[0]
        flags = [f['name'] for f in self.rec['fields'] if f['type'].startswith('Eigen::Array<bool')]
        infos = [f['name'] for f in self.rec['fields'] if f['type'] == 'Spectra::CompInfo']
        if len(flags) != 1 or len(infos) != 1:
            raise AnalysisBroken('cannot identify the convergence-flag / status fields of %s' % comp.record)
        self.flag = flags[0]
        self.info = infos[0]
        self.all_methods = sorted(F.methods(comp.record), key=lambda f: (f.name, f.line))
        # name -> the overload with the largest body (init(ptr) rather than init(), eigenvectors(nvec) rather than eigenvectors())
        self.methods = {}
        for f in self.all_methods:
            if f.name not in self.methods or len(f.nodes) > len(self.methods[f.name].nodes):
                self.methods[f.name] = f
        self.F = F
        self.E = ctx.E

    def named(self):
        """(name, function) for every analysed member function of the record, all overloads."""
        return [(f.name, f) for f in self.all_methods]

    def whole_flag_assign(self, fn):
        """Nodes in fn that overwrite the whole flag array by assignment (`flags = <expr>`)."""
        out = []
        for a in self.E.of(fn).accesses:
            if a.path == (self.flag,) and a.mode == 'w' and a.whole:
                n = fn.nodes[a.node]
                if n.get('op') == '=' or n['k'] == 'BinaryOperator':
                    out.append(n)
        return out

    def refreshers(self):
        """Methods that, on every normal path, assign the whole flag array from a comparison."""
        out = {}
        for name, fn in self.named():
            if fn.d.get('ctor') or fn.d.get('dtor'):
                continue
            for w in self.whole_flag_assign(fn):
                t = sym(fn, w)
                if not (len(t) == 3 and t[0] == '=' and isinstance(t[2], tuple) and t[2][0] in ('<', '<=')):
                    continue
                # every path from entry to a return passes w
                wid = w['id']
                hit = paths.search(fn, [], stop=lambda n, wid=wid: n['id'] == wid,
                                   target=lambda n: n['k'] == 'ReturnStmt', include_entry=True,
                                   exit_is_target=lambda b: True)
                if hit is None:
                    out[name] = (fn, w, t)
        return out


def target_methods(model, comp, call):
    """Methods of the same object a call in `comp` may run (static callee + overriders), or []."""
    F = model.F
    t = F.resolve(call)
    if t is None:
        return []
    obj = comp.call_object(call) if call['k'] == 'CXXMemberCallExpr' else None
    if obj is not None:
        o = comp.strip(obj)
        if o['k'] != 'CXXThisExpr':
            return []
    out = [t]
    if call.get('cvirtual'):
        out += F.overriders(t)
    return out


# ---------------------------------------------------------------------------------------------------
# D1  flag freshness (must-pass-through)
# ---------------------------------------------------------------------------------------------------
def flag_freshness(ctx, base_tq, rule='flags-fresh-at-use'):
    for comp in ctx.F.insts(base_tq + '::compute'):
        m = BaseModel(ctx, comp)
        refs = m.refreshers()
        if not refs:
            raise AnalysisBroken('%s: no member assigns the convergence flags from a comparison' % comp.record)
        # inputs of the convergence test = what the refreshers read (minus the flags and immutable sizes)
        const_fields = set(f['name'] for f in m.rec['fields'] if f.get('const'))
        ritz = set()
        for name, (fn, w, t) in refs.items():
            for p in ctx.E.may_read(fn):
                if p and p[0] != m.flag and p[0] not in const_fields:
                    ritz.add(p)
        ritz = set(p for p in ritz if not any(q != p and q[:len(p)] == p for q in ritz))   # keep most specific paths
        permuters = permuter_names(ctx, m)

        def klass(n):
            if n['k'] == 'ReturnStmt':
                return 'consumer'
            if n['k'] in ('BinaryOperator',) and n.get('op') == '=' and comp.field_name(comp.nodes[n['c'][0]]) == m.info:
                return 'consumer'
            if n['k'] not in ('CXXMemberCallExpr', 'CallExpr', 'CXXOperatorCallExpr'):
                return None
            tg = target_methods(m, comp, n)
            names = set(t.name for t in tg)
            if names and names <= set(refs):
                return 'refresh'
            if names and names <= permuters:
                return 'consumer'
            w = ctx.E.call_may_write(comp, n)
            for p in w:
                for r in ritz | {(m.flag,)}:
                    if p[:len(r)] == r or r[:len(p)] == p:
                        return 'writer'
            if (m.flag,) in ctx.E.call_may_read(comp, n):
                return 'consumer'
            return None

        starts = paths.positions_of(comp, lambda n: klass(n) == 'writer')
        consumers = paths.positions_of(comp, lambda n: klass(n) == 'consumer')
        refreshes = paths.positions_of(comp, lambda n: klass(n) == 'refresh')
        if not starts or not consumers or not refreshes:
            raise AnalysisBroken('%s: compute() has %d writer / %d consumer / %d refresh events' %
                                 (comp.record, len(starts), len(consumers), len(refreshes)))
        hit = paths.search(comp, starts, stop=lambda n: klass(n) == 'refresh',
                           target=lambda n: klass(n) == 'consumer', include_entry=True, feas=True)
        inst = short(base_tq) + '::compute'
        ctx.check(hit is None, rule, inst, comp.qname,
                  'convergence flags are re-evaluated after the last change of the Ritz data on every path to a consumer '
                  '(%d writer, %d refresh, %d consumer events; test inputs %s)' %
                  (len(starts), len(refreshes), len(consumers), sorted('.'.join(p) for p in ritz))
                  if hit is None else
                  'a path reaches a consumer of the convergence flags without re-evaluating them after the Ritz data changed',
                  path=hit)
        count_source(ctx, m, comp, refs, klass, base_tq)


def count_source(ctx, m, comp, refs, klass, base_tq, rule='count-is-fresh-flag-count'):
    """The local whose value decides the status / return value is, at those uses, the result of the last flag test."""
    uses = []
    for n in comp.walk():
        if klass(n) == 'consumer' and n['k'] in ('ReturnStmt', 'BinaryOperator'):
            uses.append(n)
    locs = set()
    for u in uses:
        for x in comp.walk(u):
            if x['k'] == 'DeclRefExpr' and x.get('dk') == 'local':
                locs.add(x['var'])
    inst = short(base_tq) + '::compute'
    if not locs:
        ctx.fail(rule, inst, comp.qname, 'status / return value do not depend on a converged count')
        return
    for v in sorted(locs):
        vname = comp.locals[v]['name']

        def is_def(n, v=v):
            if n['k'] == 'BinaryOperator' and n.get('op') == '=':
                l = comp.strip(comp.nodes[n['c'][0]])
                return l['k'] == 'DeclRefExpr' and l.get('var') == v
            if n['k'] in ('CompoundAssignOperator', 'UnaryOperator') and n.get('op') in ('+=', '-=', '++', '--', '*=', '/='):
                l = comp.strip(comp.nodes[n['c'][0]])
                return l['k'] == 'DeclRefExpr' and l.get('var') == v
            return False

        def fresh(n):
            r = comp.strip(comp.nodes[n['c'][1]]) if n['k'] == 'BinaryOperator' else None
            return r is not None and klass(r) == 'refresh'

        use_ids = set()
        for u in uses:
            if any(x['k'] == 'DeclRefExpr' and x.get('var') == v for x in comp.walk(u)):
                use_ids.add(u['id'])
        # stale definitions: declaration initialiser and non-fresh assignments
        starts = []
        for b, i, e in paths.iter_positions(comp):
            if isinstance(e, dict) and e.get('decl') == v:
                starts.append((b, i))
            elif isinstance(e, int):
                n = comp.nodes[e]
                if n['k'] == 'DeclStmt' and any(d.get('var') == v for d in n.get('decls', [])):
                    starts.append((b, i))
                elif is_def(n) and not fresh(n):
                    starts.append((b, i))
        hit = paths.search(comp, starts, stop=is_def, target=lambda n: n['id'] in use_ids, feas=True)
        ctx.check(hit is None, rule, inst + ':' + vname, comp.qname,
                  'every definition of `%s` reaching the status / return value is the result of the convergence test' % vname
                  if hit is None else
                  'a value of `%s` that is not the result of the convergence test reaches the status / return value' % vname,
                  path=hit)


# ---------------------------------------------------------------------------------------------------
# D2  coherent permutation of the per-index Ritz arrays
# ---------------------------------------------------------------------------------------------------
def indexed_copies(fn):
    """Assignments `dst<index> = src<index>` inside the function, as normal forms with their enclosing loop."""
    out = []
    for n in fn.walk():
        t = None
        if n['k'] == 'BinaryOperator' and n.get('op') == '=':
            t = sym(fn, n, inline=False)
        elif n['k'] == 'CXXOperatorCallExpr' and n.get('op') == '=':
            t = sym(fn, n, inline=False)
        if t is None or len(t) != 3:
            continue
        loop = None
        for a in fn.ancestors(n):
            if a['k'] == 'ForStmt':
                loop = a
                break
        out.append((n, t[1], t[2], loop))
    return out


def loop_range(fn, loop):
    """(var name, lower normal form, upper-exclusive normal form) of `for (i = lo; i < hi; i++)`, else None."""
    if loop is None:
        return None
    init = fn.node(loop.get('init', -1))
    cond = fn.node(loop.get('cond', -1))
    inc = fn.node(loop.get('inc', -1))
    if init is None or cond is None or inc is None:
        return None
    var = lo = None
    if init['k'] == 'DeclStmt' and len(init.get('decls', [])) == 1 and 'init' in init['decls'][0]:
        var = fn.locals[init['decls'][0]['var']]['name']
        lo = sym(fn, init['decls'][0]['init'], inline=False)
    elif init['k'] == 'BinaryOperator' and init.get('op') == '=':
        l = fn.strip(fn.nodes[init['c'][0]])
        if l['k'] == 'DeclRefExpr':
            var = l['name']
            lo = sym(fn, init['c'][1], inline=False)
    c = sym(fn, cond, inline=False)
    i = sym(fn, inc, inline=False)
    if var is None or c[0] != '<' or c[1] != ('L', var):
        return None
    if i not in (('u++', ('L', var)), ('+=', ('L', var), ('lit', '1'))):
        return None
    return var, lo, c[2]


def split_index(t):
    """(root, index tuple) of an indexed access normal form: F[i], col(F, i), F(r, c), head ..."""
    if not isinstance(t, tuple):
        return None, ()
    if t[0] in ('[]', '()') and len(t) >= 3:
        return t[1], tuple(t[2:])
    if t[0] in ('col', 'row') and len(t) == 3:
        return t[1], (t[0], t[2])
    return t, ()


def permuter_names(ctx, m):
    """Names of the methods that reorder the result arrays: they replace, by swap with a local copy, the flags or an array
    the accessors read (whether they do so coherently is decided by coherent_permutation)."""
    acc_reads = set()
    for an in ('eigenvalues', 'eigenvectors'):
        for fn in ctx.F.by_record[m.record].get(an, []):
            for p in ctx.E.may_read(fn):
                if p:
                    acc_reads.add(p[0])
    watched = acc_reads | {m.flag}
    out = set()
    for name, fn in m.named():
        if fn.d.get('ctor') or fn.d.get('dtor'):
            continue
        w = ctx.E.of(fn)
        direct = [a for a in w.accesses if a.mode == 'w' and a.path and a.path[0] in watched and len(a.path) == 1]
        if not direct or m.whole_flag_assign(fn):
            continue
        kinds = set(fn.nodes[a.node].get('callee') for a in direct)
        if kinds <= {'swap'}:
            out.add(name)
    return out



def final_sort_never_skipped(ctx, base_tq, rule='final-sort-not-skipped'):
    """The results are reported in the order the `sorting` argument names: on every normal path of the final-sort member the
    result arrays are re-arranged (swapped with the permuted copies).  A return that skips the permutation is accepted only in
    the cached-order idiom -- guarded by `rule == TAG` for a field TAG of the rule type -- and then TAG must be re-assigned
    after every write of the value array anywhere in the class hierarchy (a writer that cannot or does not update TAG makes
    the skip unsound: the values are no longer in the order TAG names)."""
    done = 0
    for comp in ctx.F.insts(base_tq + '::compute'):
        m = BaseModel(ctx, comp)
        for name in sorted(permuter_names(ctx, m)):
            fn = m.methods[name]
            if not fn.params:
                continue
            ptype = fn.locals[fn.params[0]]['type']
            if 'SortRule' not in ptype:
                continue          # the restart-time reordering (retrieve) is not the final sort
            done += 1
            inst = '%s::%s' % (short(base_tq), name)
            swaps = [x for x in fn.walk() if x['k'] == 'CXXMemberCallExpr' and x.get('callee') == 'swap']
            sids = set(x['id'] for x in swaps)
            hit = paths.search(fn, [], stop=lambda n: n['id'] in sids, target=lambda n: n['k'] == 'ReturnStmt',
                               include_entry=True, exit_is_target=lambda b: True, normal_only=True)
            if hit is None:
                ctx.ok(rule, inst, fn.qname, 'every normal path re-arranges the result arrays (%d swaps)' % len(swaps))
                continue
            rets = []
            for r_ in [x for x in fn.walk() if x['k'] == 'ReturnStmt']:
                if paths.search(fn, [], stop=lambda n: n['id'] in sids, target=lambda n, r_=r_: n['id'] == r_['id'], include_entry=True, normal_only=True) is not None:
                    rets.append(r_)
            guard = None
            if rets:
                for a in fn.ancestors(rets[-1]):
                    if a['k'] == 'IfStmt':
                        guard = a
                        break
            tag = None
            if guard is not None:
                c = sym(fn, guard['cond'], inline=False)
                pname = fn.locals[fn.params[0]]['name']
                if c[0] == '==' and ('P', pname) in c[1:]:
                    other = [x for x in c[1:] if x != ('P', pname)]
                    if other and other[0][0] == 'F':
                        tag = other[0][1]
            if tag is None:
                ctx.fail(rule, inst, fn.qname, 'a normal return skips the permutation of the results%s: the values are reported in whatever order they were in' %
                         (' (under `%s`)' % fn.s(guard['cond']) if guard is not None else ''))
                continue
            # cached-order idiom: every writer of the value arrays must leave TAG up to date
            watched = set()
            for x in swaps:
                t = sym(fn, x, inline=False)
                for y in t[1:]:
                    if isinstance(y, tuple) and y[0] == 'F':
                        watched.add(y[1])
            watched.discard(m.flag)
            stale = []
            for g in ctx.F.concrete():
                if not g.cfg or g.d.get('ctor') or g.d.get('dtor'):
                    continue
                if g.record != m.record and not _derives(ctx.F, g.record, m.record):
                    continue
                ge = ctx.E.of(g)
                ws = [a for a in ge.accesses if a.mode == 'w' and a.path and a.path[0] in watched]
                if not ws:
                    continue
                tws = set(a.node for a in ge.accesses if a.mode == 'w' and a.path == (tag,))
                for a in ws:
                    pos = g.pos_of(g.nodes[a.node])
                    if pos is None:
                        continue
                    leak = paths.search(g, [pos], stop=lambda n: n['id'] in tws, target=lambda n: n['k'] == 'ReturnStmt',
                                        exit_is_target=lambda b: True, normal_only=True)
                    if leak is not None:
                        stale.append('%s::%s writes %s and returns without updating %s' % (g.record.split('<')[0].replace('Spectra::', ''), g.name, a.path[0], tag))
                        break
            ctx.check(not stale, rule, inst, fn.qname,
                      'the permutation is skipped only when the requested rule equals the order tag %s, and every writer of the values updates the tag' % tag
                      if not stale else 'the permutation is skipped when the requested rule equals %s, but %s: the tag can be stale and the results are then reported unsorted' %
                      (tag, '; '.join(sorted(set(stale))[:3])))
    if done < 1:
        raise AnalysisBroken('%s: final-sort member not found' % base_tq)


def _derives(F, rec, base, depth=0):
    if depth > 6:
        return False
    rs = [r for r in F.records.values() if r['qname'] == rec and not r['dep']]
    if not rs:
        return False
    for b in rs[0].get('bases', []):
        bn = b if isinstance(b, str) else b.get('type') or b.get('qname') or b.get('name')
        if bn == base or _derives(F, bn, base, depth + 1):
            return True
    return False


def coherent_permutation(ctx, base_tq, rule='coherent-permutation'):
    """sort_ritzpair: values, vectors and flags are permuted by the same index vector over the same range,
    the index vector is the ordering of exactly the values being permuted, and results are swapped in."""
    for comp in ctx.F.insts(base_tq + '::compute'):
        m = BaseModel(ctx, comp)
        names = permuter_names(ctx, m)
        if not names:
            raise AnalysisBroken('%s: no final-sort member found' % comp.record)
        # per-index result arrays: what the accessors read besides the flags
        acc_reads = set()
        for an in ('eigenvalues', 'eigenvectors'):
            for fn in ctx.F.by_record[comp.record].get(an, []):
                for p in ctx.E.may_read(fn):
                    acc_reads.add(p[0])
        for name in sorted(names):
            fn = m.methods[name]
            inst = '%s::%s' % (short(base_tq), name)
            copies = indexed_copies(fn)
            wr = set(p[0] for p in ctx.E.may_write(fn))
            required = sorted((wr & acc_reads) | {m.flag})
            # 1. gather copies new_X<i> = m_X<ind[i]>
            by_field = {}
            for n, dst, src, loop in copies:
                droot, didx = split_index(dst)
                sroot, sidx = split_index(src)
                if sroot and sroot[0] == 'F' and droot and droot[0] == 'L' and didx:
                    by_field.setdefault(sroot[1], []).append((n, droot, didx, sidx, loop))
            ind_terms = set()
            ranges = set()
            problems = []
            for f in required:
                cs = by_field.get(f, [])
                if len(cs) != 1:
                    problems.append('%d indexed copies of %s (expected 1)' % (len(cs), f))
                    continue
                n, droot, didx, sidx, loop = cs[0]
                rg = loop_range(fn, loop)
                if rg is None:
                    problems.append('copy of %s is not inside a counted loop' % f)
                    continue
                var, lo, hi = rg
                ranges.add((lo, hi))
                # destination index is the loop variable, source index is ind[var]
                dv = didx[-1]
                sv = sidx[-1] if sidx else None
                if dv != ('L', var):
                    problems.append('%s: destination index %s is not the loop variable' % (f, show(dv)))
                if not (isinstance(sv, tuple) and sv[0] == '[]' and sv[2] == ('L', var) and sv[1][0] == 'L'):
                    problems.append('%s: source index %s is not <index vector>[%s]' % (f, show(sv) if sv else None, var))
                else:
                    ind_terms.add(sv[1])
                if didx[:-1] != sidx[:-1]:
                    problems.append('%s: destination / source access kinds differ' % f)
                # swapped in afterwards with the same local
                swapped = False
                for x in fn.walk():
                    if x['k'] == 'CXXMemberCallExpr' and x.get('callee') == 'swap':
                        t = sym(fn, x, inline=False)
                        if t == ('swap', ('F', f), droot) or t == ('swap', droot, ('F', f)):
                            swapped = True
                if not swapped:
                    problems.append('%s: permuted copy %s is not swapped into the field' % (f, show(droot)))
            if len(ind_terms) > 1:
                problems.append('different index vectors used: %s' % sorted(show(x) for x in ind_terms))
            if len(ranges) > 1:
                problems.append('arrays permuted over different ranges: %s' % sorted((show(a), show(b)) for a, b in ranges))
            # 2. the index vector orders exactly the values that are permuted, over the same range
            src_ok = None
            if len(ind_terms) == 1 and len(ranges) == 1:
                ind = list(ind_terms)[0]
                lo, hi = list(ranges)[0]
                src_ok = index_source(fn, ind[1], hi)
                if src_ok[0] is None:
                    problems.append('cannot find what the index vector `%s` orders' % ind[1])
                else:
                    valf, lenf = src_ok
                    if valf not in required:
                        problems.append('index vector orders %s, which is not one of the permuted arrays' % valf)
                    if lenf != hi:
                        problems.append('index vector orders %s entries but %s are permuted' % (show(lenf), show(hi)))
                    if lo != ('lit', '0'):
                        problems.append('permutation loop starts at %s' % show(lo))
            ctx.check(not problems, rule, inst, fn.qname,
                      'arrays %s permuted by one index vector over [0, %s), ordering taken from %s, results swapped in' %
                      (required, show(list(ranges)[0][1]) if ranges else '?', src_ok[0] if src_ok else '?')
                      if not problems else '; '.join(problems))


def index_source(fn, indname, hi):
    """What `indname` orders: returns (field name, length normal form) from argsort(rule, FIELD, len) or
    SortEigenvalue(FIELD.data(), len) ... .swap(ind); (None, None) if not recognised."""
    found = []
    for n in fn.walk():
        if n['k'] == 'DeclStmt':
            for d in n.get('decls', []):
                if 'var' in d and fn.locals[d['var']]['name'] == indname and 'init' in d:
                    t = sym(fn, d['init'], inline=False)
                    if t[0] == 'call' and t[1] == 'argsort' and len(t) >= 5 and t[3][0] == 'F':
                        found.append((t[3][1], t[4]))
        if n['k'] == 'CXXMemberCallExpr' and n.get('callee') == 'swap' and n.get('cls') == 'Spectra::SortEigenvalue':
            args = fn.call_args(n)
            a = sym(fn, args[0], inline=False) if args else None
            if a == ('L', indname):
                obj = fn.strip(fn.call_object(n))
                if obj['k'] == 'DeclRefExpr' and 'var' in obj:
                    # the sorter's constructor arguments
                    for dn in fn.walk():
                        if dn['k'] == 'DeclStmt':
                            for d in dn.get('decls', []):
                                if d.get('var') == obj['var'] and 'init' in d:
                                    ctor = fn.strip(fn.nodes[d['init']])
                                    cargs = fn.call_args(ctor)
                                    if len(cargs) == 2:
                                        a0 = sym(fn, cargs[0], inline=False)
                                        a1 = sym(fn, cargs[1], inline=False)
                                        if a0[0] == 'data' and a0[1][0] == 'F':
                                            found.append((a0[1][1], a1))
    if not found:
        return None, None
    if len(set(found)) != 1:
        return None, None
    return found[0]


# ---------------------------------------------------------------------------------------------------
# D2b  retrieve_ritzpair: Ritz values, estimates and vectors taken with one index vector
# ---------------------------------------------------------------------------------------------------
def coherent_retrieve(ctx, base_tq, rule='coherent-retrieve'):
    for fn in ctx.F.insts(base_tq + '::retrieve_ritzpair'):
        inst = short(base_tq) + '::retrieve_ritzpair'
        copies = indexed_copies(fn)
        problems = []
        inds = set()
        got = {}
        for n, dst, src, loop in copies:
            droot, didx = split_index(dst)
            if not (droot and droot[0] == 'F' and didx):
                continue
            sroot, sidx = split_index(src)
            rg = loop_range(fn, loop)
            if rg is None:
                problems.append('write of %s outside a counted loop' % droot[1])
                continue
            var, lo, hi = rg
            if didx[-1] != ('L', var):
                problems.append('%s: destination index is %s, not the loop variable' % (droot[1], show(didx[-1])))
            sv = sidx[-1] if sidx else None
            if not (isinstance(sv, tuple) and sv[0] == '[]' and sv[2] == ('L', var) and sv[1][0] == 'L'):
                problems.append('%s: source index %s is not <index vector>[%s]' % (droot[1], show(sv) if sv else None, var))
            else:
                inds.add(sv[1][1])
            if lo != ('lit', '0'):
                problems.append('%s: loop starts at %s' % (droot[1], show(lo)))
            got[droot[1]] = (sroot, sidx, hi)
        if len(got) < 3:
            problems.append('expected the Ritz values, estimates and vectors to be filled; found %s' % sorted(got))
        if len(inds) != 1:
            problems.append('index vectors used: %s' % sorted(inds))
        # estimates = last row of the eigenvector matrix of H; values from the eigenvalue vector; vectors from columns
        roots = {}
        for f, (sroot, sidx, hi) in got.items():
            roots[f] = (sroot, sidx[:-1], hi)
        est = [f for f, (r, pre, hi) in roots.items() if len(pre) == 1 and pre[0] not in ('col', 'row')]
        vec = [f for f, (r, pre, hi) in roots.items() if pre and pre[0] == 'col']
        val = [f for f, (r, pre, hi) in roots.items() if not pre]
        if len(est) == 1 and len(vec) == 1 and len(val) == 1:
            r_est, pre_est, hi_est = roots[est[0]]
            r_vec, _, hi_vec = roots[vec[0]]
            r_val, _, hi_val = roots[val[0]]
            if r_est != r_vec:
                problems.append('estimates and vectors come from different matrices')
            # last row: (size - 1) where size is the upper bound of the loop over all Ritz values
            if pre_est[0] != ('-', hi_est, ('lit', '1')):
                problems.append('estimates are row %s, not the last row (%s - 1)' % (show(pre_est[0]), show(hi_est)))
            if hi_est != hi_val:
                problems.append('values and estimates filled over different ranges')
            # the ordering is computed from the same eigenvalue vector, over the full range
            if len(inds) == 1:
                ok = False
                indname = list(inds)[0]
                for n in fn.walk():
                    if n['k'] == 'DeclStmt':
                        for d in n.get('decls', []):
                            if 'var' in d and fn.locals[d['var']]['name'] == indname and 'init' in d:
                                t = sym(fn, d['init'], inline=False)
                                if t[0] == 'call' and t[1] == 'argsort' and len(t) >= 5 and t[3] == r_val and t[4] == hi_val:
                                    ok = True
                    if n['k'] in ('CXXConstructExpr', 'CXXTemporaryObjectExpr') and n.get('ctor_of') == 'Spectra::SortEigenvalue':
                        cargs = fn.call_args(n)
                        if len(cargs) == 2 and sym(fn, cargs[0], inline=False) == ('data', r_val) and \
                                sym(fn, cargs[1], inline=False) == hi_val:
                            ok = True
                        elif len(cargs) == 2:
                            ok = False
                            problems.append('a sorter is built over %s, %s instead of the Ritz values of this step' %
                                            (show(sym(fn, cargs[0], inline=False)), show(sym(fn, cargs[1], inline=False))))
                            break
                if not ok:
                    problems.append('the index vector is not the ordering of the eigenvalues being copied')
        else:
            problems.append('cannot tell values / estimates / vectors apart: %s' % sorted(got))
        ctx.check(not problems, rule, inst, fn.qname,
                  'values, estimates (last row) and vectors are taken through one ordering of this step\'s eigenvalues'
                  if not problems else '; '.join(sorted(set(problems))))


# ---------------------------------------------------------------------------------------------------
# D5  the convergence test has the documented shape
# ---------------------------------------------------------------------------------------------------
CONV_PATTERN = ('<',
                ('*', ('abs', ('head', ('?F', 'EST'), ('?F', 'NEV'))), ('?', 'FNORM')),
                ('*', ('?P', 'TOL'),
                 ('max', ('abs', ('head', ('?F', 'THETA'), ('?F', 'NEV'))),
                  ('call', 'pow', ('call', 'epsilon'), ('/', ('lit', '2'), ('lit', '3'))))))


def convergence_test_shape(ctx, base_tq, rule='convergence-test-shape'):
    for comp in ctx.F.insts(base_tq + '::compute'):
        m = BaseModel(ctx, comp)
        refs = m.refreshers()
        inst = short(base_tq) + '::num_converged'
        for name, (fn, w, t) in sorted(refs.items()):
            b = {}
            okm = match(CONV_PATTERN, t[2], b)
            problems = []
            if not okm:
                problems.append('test is %s, not |est(1:nev)|*fnorm < tol*max(|theta(1:nev)|, eps^(2/3))' % show(t[2]))
            else:
                # role cross-checks: THETA is what eigenvalues() returns, EST is filled from the last row in
                # retrieve_ritzpair, NEV is the requested count, FNORM is the factorization's residual norm
                theta = b['THETA'][1]
                est = b['EST'][1]
                nev = b['NEV'][1]
                ev_fn = ctx.F.by_record[comp.record].get('eigenvalues', [])
                if ev_fn and (theta,) not in ctx.E.may_read(ev_fn[0]):
                    problems.append('threshold uses %s but eigenvalues() does not return it' % theta)
                if theta == est:
                    problems.append('estimates and values are the same array')
                ctorn = [f for f in ctx.F.methods(comp.record) if f.d.get('ctor')]
                fn_t = b['FNORM']
                if not (isinstance(fn_t, tuple) and len(fn_t) == 2 and fn_t[1][0] == 'F'):
                    problems.append('residual factor %s is not an accessor of the factorization' % show(fn_t))
                else:
                    problems += fnorm_is_residual_norm(ctx, m, comp, fn_t)
                # nev: flag array is sized by it in init()
                rt = sym(fn, [x for x in fn.walk() if x['k'] == 'ReturnStmt'][0]['value'])
                if rt != ('count', ('F', m.flag)):
                    problems.append('returns %s, not the number of set flags' % show(rt))
            ctx.check(not problems, rule, inst, fn.qname,
                      'flags = %s ; returns count of flags' % show(t[2]) if not problems else '; '.join(problems))


def fnorm_is_residual_norm(ctx, m, comp, fn_t):
    """The accessor used as ||f|| returns a field of the factorization that factorize_from assigns from the
    B-norm of the residual vector."""
    problems = []
    fac_field = fn_t[1][1]
    acc = fn_t[0]
    ftype = [f['type'] for f in m.rec['fields'] if f['name'] == fac_field]
    if not ftype:
        return ['%s is not a field' % fac_field]
    # find the accessor among analysed functions of the factorization class or its bases
    cands = [f for f in ctx.F.concrete() if f.name == acc and f.record and
             (f.record == ftype[0] or f.cls in ('Spectra::Arnoldi', 'Spectra::Lanczos'))]
    if not cands:
        return ['accessor %s of the factorization not analysed' % acc]
    g = cands[0]
    rets = [x for x in g.walk() if x['k'] == 'ReturnStmt']
    if len(rets) != 1:
        return ['accessor %s has %d returns' % (acc, len(rets))]
    rt = sym(g, rets[0]['value'])
    if rt[0] != 'F':
        return ['accessor %s returns %s, not a stored field' % (acc, show(rt))]
    return problems


# ---------------------------------------------------------------------------------------------------
# C05  accessors and exit expressions
# ---------------------------------------------------------------------------------------------------
def exit_expressions(ctx, base_tq, rule='exit-status-and-count'):
    """return value == min(nev, count); status == Successful iff count >= nev, NotConverging otherwise
    (decided on every ordering of count vs nev)."""
    for comp in ctx.F.insts(base_tq + '::compute'):
        m = BaseModel(ctx, comp)
        inst = short(base_tq) + '::compute'
        rets = [n for n in comp.walk() if n['k'] == 'ReturnStmt']
        infos = [n for n in comp.walk() if n['k'] == 'BinaryOperator' and n.get('op') == '=' and
                 comp.field_name(comp.nodes[n['c'][0]]) == m.info]
        problems = []
        if len(infos) < 1:
            problems.append('status field is never assigned in compute()')
        nev_fields = [f['name'] for f in m.rec['fields'] if f.get('const') and f['type'] == 'const long']
        for u in rets + infos:
            expr = u['value'] if u['k'] == 'ReturnStmt' else u['c'][1]
            from .xeval import leaves
            lv = leaves(comp, expr)
            loc = [x for x in lv if x[0] == 'local']
            fld = [x for x in lv if x[0] == 'field']
            if len(loc) != 1 or len(fld) > 1 or (u['k'] != 'ReturnStmt' and len(fld) != 1):
                problems.append('%s depends on %s' % (comp.s(u), sorted(lv)))
                continue
            # the count is the number of set entries of an array of length nev: 0 <= count <= nev
            for nev in (1, 2, 5):
                for cnt in range(0, nev + 1):
                    try:
                        env = {loc[0]: cnt}
                        if fld:
                            env[fld[0]] = nev
                        v = ev(comp, expr, env)
                    except CannotEval as e:
                        raise AnalysisBroken('cannot evaluate %s: %s' % (comp.s(u), e))
                    if u['k'] == 'ReturnStmt':
                        if v != min(cnt, nev):
                            problems.append('returns %s for count=%d, nev=%d' % (v, cnt, nev))
                    else:
                        want = ('enum', 'Successful') if cnt >= nev else ('enum', 'NotConverging')
                        if v != want:
                            problems.append('status %s for count=%d, nev=%d' % (v, cnt, nev))
        ctx.check(not problems, rule, inst, comp.qname,
                  'return = min(nev, count), status = Successful iff count >= nev else NotConverging, on all orderings'
                  if not problems else '; '.join(sorted(set(problems))[:4]))


# ---------------------------------------------------------------------------------------------------
# C05-D2  who may write the flags / the status
# ---------------------------------------------------------------------------------------------------
SOLVER_TMPLS = ('Spectra::HermEigsBase', 'Spectra::GenEigsBase', 'Spectra::SymEigsSolver', 'Spectra::HermEigsSolver',
                'Spectra::SymEigsShiftSolver', 'Spectra::GenEigsSolver', 'Spectra::GenEigsRealShiftSolver',
                'Spectra::GenEigsComplexShiftSolver', 'Spectra::SymGEigsSolver', 'Spectra::SymGEigsShiftSolver')


def flag_and_status_writers(ctx, base_tq, rule='flag-writers'):
    """m_ritz_conv is written only by init (zero fill), the convergence test and the coherent permutation;
    the status only by constructors and compute()."""
    for comp in ctx.F.insts(base_tq + '::compute'):
        m = BaseModel(ctx, comp)
        refs = set(m.refreshers())
        perm = permuter_names(ctx, m)
        inst = short(base_tq)
        bad = []
        seen = []
        for name, fn in m.named():
            fe = ctx.E.of(fn)
            wr = [a for a in fe.accesses if a.path == (m.flag,) and a.mode == 'w']
            if not wr:
                continue
            seen.append(name)
            if name in refs or name in perm:
                continue
            if name == 'init':
                # allowed: resize + zero fill, nothing else
                kinds = set(fn.nodes[a.node].get('callee') for a in wr)
                if kinds <= {'resize', 'setZero', 'setConstant', 'fill'} and ('setZero' in kinds or 'setConstant' in kinds or 'fill' in kinds):
                    continue
                bad.append('%s writes the flags by %s' % (name, sorted(str(k) for k in kinds)))
                continue
            bad.append('%s writes the convergence flags (%s)' % (name, fn.loc(fn.nodes[wr[0].node])))
        ctx.check(not bad, rule, inst + ':flags', comp.record,
                  'flags written only by %s' % seen if not bad else '; '.join(bad))
        bad = []
        seen = []
        for name, fn in m.named():
            fe = ctx.E.of(fn)
            wr = [a for a in fe.accesses if a.path == (m.info,) and a.mode == 'w']
            ini = [i for i in fn.inits if i['member'] == m.info]
            if wr or ini:
                seen.append(name)
            if wr and name == 'init':
                # [session 4, fix F50] init() resets the status: the only value it may assign is NotComputed
                vals = []
                for a in wr:
                    n = fn.nodes[a.node]
                    ops = fn.call_args(n) if n['k'] == 'CXXOperatorCallExpr' else [fn.nodes[c] for c in n.get('c', [])]
                    vals.append(sym(fn, ops[1], inline=False) if len(ops) == 2 else None)
                if any(v != ('enum', 'NotComputed') for v in vals):
                    bad.append('init assigns the status a value other than NotComputed')
                continue
            if wr and name != 'compute':
                bad.append('%s assigns the status' % name)
        ctx.check(not bad, rule, inst + ':status', comp.record,
                  'status written only by %s' % seen if not bad else '; '.join(bad))


# ---------------------------------------------------------------------------------------------------
# C05-D2  accessor siblings
# ---------------------------------------------------------------------------------------------------
def _count_of_flags(t, flag):
    return t in (('count', ('F', flag)), ('sum', ('cast', ('F', flag))))


def accessor_agreement(ctx, base_tq, rule='accessor-agreement'):
    """eigenvalues() and eigenvectors(nvec) select by the same flag predicate over [0, nev), sizes derive from the flag count."""
    for comp in ctx.F.insts(base_tq + '::compute'):
        m = BaseModel(ctx, comp)
        inst = short(base_tq)
        nev_field = None
        # nev = the size the flag array is given in init()
        ini = m.methods.get('init')
        if ini is None:
            raise AnalysisBroken('%s: no init()' % comp.record)
        for n in ini.walk():
            if n['k'] == 'CXXMemberCallExpr' and n.get('callee') == 'resize':
                t = sym(ini, n, inline=False)
                if t[1] == ('F', m.flag) and len(t) == 3 and t[2][0] == 'F':
                    nev_field = t[2][1]
        if nev_field is None:
            # init() does not size the flag array (decided as a violation by init-restores-the-initial-accessor-state): take the size from num_converged()
            for g in m.all_methods:
                for n in g.walk():
                    if n['k'] == 'CXXMemberCallExpr' and n.get('callee') in ('head', 'resize'):
                        t = sym(g, n, inline=False)
                        if len(t) == 3 and t[2][0] == 'F' and 'nev' in t[2][1]:
                            nev_field = t[2][1]
        if nev_field is None:
            raise AnalysisBroken('%s: the size of the flag array is not a field' % comp.record)
        for acc in ('eigenvalues', 'eigenvectors'):
            fns = [f for f in ctx.F.by_record[comp.record].get(acc, []) if len(f.params) == (0 if acc == 'eigenvalues' else 1)]
            if not fns:
                raise AnalysisBroken('%s::%s not analysed' % (comp.record, acc))
            fn = fns[0]
            problems = []
            defs = single_defs(fn)
            # count local
            cnt = None
            for v, init in defs.items():
                if _count_of_flags(sym(fn, init, inline=False), m.flag):
                    cnt = fn.locals[v]['name']
            if cnt is None:
                problems.append('no local holds the number of set flags')
            loops = [n for n in fn.walk() if n['k'] == 'ForStmt']
            if len(loops) != 1:
                problems.append('%d loops (expected 1)' % len(loops))
            else:
                lp = loops[0]
                init = fn.node(lp.get('init', -1))
                cond = sym(fn, lp['cond'], inline=False)
                inc = sym(fn, lp['inc'], inline=False)
                var = None
                if init is not None and init['k'] == 'DeclStmt' and len(init['decls']) == 1 and 'init' in init['decls'][0]:
                    var = fn.locals[init['decls'][0]['var']]['name']
                    if sym(fn, init['decls'][0]['init'], inline=False) != ('lit', '0'):
                        problems.append('loop does not start at 0')
                conj = []

                def flat(t):
                    if t[0] == '&&':
                        flat(t[1]); flat(t[2])
                    else:
                        conj.append(t)
                flat(cond)
                if ('<', ('L', var), ('F', nev_field)) not in conj:
                    problems.append('loop bound %s is not %s < %s' % (show(cond), var, nev_field))
                extra = [c for c in conj if c != ('<', ('L', var), ('F', nev_field))]
                if inc not in (('u++', ('L', var)),):
                    problems.append('loop step is %s' % show(inc))
                ifs = [n for n in fn.walk(lp['body']) if n['k'] == 'IfStmt']
                if len(ifs) != 1 or sym(fn, ifs[0]['cond'], inline=False) != ('[]', ('F', m.flag), ('L', var)):
                    problems.append('loop body is not guarded by flag[%s]' % var)
                else:
                    body = ifs[0]['then']
                    copies = [(n, sym(fn, n, inline=False)) for n in fn.walk(body)
                              if n['k'] in ('BinaryOperator', 'CXXOperatorCallExpr') and n.get('op') == '=']
                    if len(copies) != 1:
                        problems.append('%d copies under the flag test (expected 1)' % len(copies))
                    else:
                        _, t = copies[0]
                        droot, didx = split_index(t[1])
                        sroot, sidx = split_index(t[2])
                        if not (sroot and sroot[0] == 'F' and sidx and sidx[-1] == ('L', var)):
                            problems.append('copied source %s is not <field> at %s' % (show(t[2]), var))
                        if not (droot and droot[0] == 'L' and didx and didx[-1][0] == 'L' and didx[-1][1] != var):
                            problems.append('copy destination %s is not <result> at a running index' % show(t[1]))
                        else:
                            j = didx[-1][1]
                            incs = [x for x in fn.walk(body) if x['k'] == 'UnaryOperator' and x.get('op') == '++' and
                                    sym(fn, x['c'][0], inline=False) == ('L', j)]
                            if len(incs) != 1:
                                problems.append('running index %s is not incremented exactly once per selected entry' % j)
                            for e in extra:
                                if not (e[0] == '<' and e[1] == ('L', j)):
                                    problems.append('unexpected loop condition %s' % show(e))
            if acc == 'eigenvectors' and cnt is not None:
                # nvec <- min(nvec, count) before anything is sized by it
                p0 = fn.locals[fn.params[0]]['name']
                clamps = [n for n in fn.walk() if n['k'] == 'BinaryOperator' and n.get('op') == '=' and
                          sym(fn, n['c'][0], inline=False) == ('P', p0)]
                okc = False
                # the value every later use sees, as a function of (argument, count): must be max(0, min(argument, count)) --
                # "all nvec arguments" includes negative ones, and a matrix is sized by it
                from .xeval import ev as _ev, CannotEval as _CE
                vals_ok = bool(clamps)
                bad_at = None
                for a0 in range(-3, 6):
                    for c0 in range(0, 4):
                        cur = a0
                        try:
                            for c in sorted(clamps, key=lambda n_: (n_['l'], n_['col'])):
                                cur = _ev(fn, c['c'][1], {('local', p0): cur, ('local', cnt): c0})
                        except _CE:
                            vals_ok = None
                            break
                        if cur != max(0, min(a0, c0)) and bad_at is None:
                            bad_at = (a0, c0, cur)
                    if vals_ok is None:
                        break
                if vals_ok is None:
                    raise AnalysisBroken('%s: clamp of %s outside the evaluable fragment' % (fn.qname, p0))
                if bad_at is not None:
                    problems.append('%s(%d) with %d converged pairs sizes the result by %d columns instead of %d (the argument is not clamped to [0, count])' %
                                    (acc, bad_at[0], bad_at[1], bad_at[2], max(0, min(bad_at[0], bad_at[1]))))
                for c in clamps:
                    t = sym(fn, c['c'][1], inline=False)
                    if 'min' in show(t) and p0 in show(t) and cnt in show(t):
                        okc = True
                        pos = fn.pos_of(c)
                        # dominates every other use of the parameter
                        for x in fn.walk():
                            if x['k'] == 'DeclRefExpr' and x.get('name') == p0 and x.get('dk') == 'param' and not fn.within(x, c):
                                px = fn.pos_of(x)
                                if px is not None and not paths.dominated_by(fn, px, lambda n, c=c: n['id'] == c['id']):
                                    problems.append('%s used at %s before it is clamped to the converged count' % (p0, fn.loc(x)))
                                    break
                if not okc:
                    problems.append('%s is not clamped to min(%s, count)' % (p0, p0))
            problems += _returned_object(ctx, m, fn, acc)
            ctx.check(not problems, rule, '%s::%s' % (inst, acc), fn.qname,
                      'selects entries i < %s with flag[i] set, in order; sizes from the flag count' % nev_field
                      if not problems else '; '.join(problems))
        # eigenvectors() == eigenvectors(nev)
        fns = [f for f in ctx.F.by_record[comp.record].get('eigenvectors', []) if len(f.params) == 0]
        for fn in fns:
            rets = [n for n in fn.walk() if n['k'] == 'ReturnStmt']
            t = sym(fn, rets[0]['value'], inline=False) if len(rets) == 1 else None
            ctx.check(t == ('eigenvectors', ('this',), ('F', nev_field)), rule, inst + '::eigenvectors()', fn.qname,
                      'returns eigenvectors(%s)' % nev_field if t else 'unexpected body')


def _returned_object(ctx, m, fn, acc):
    """eigenvalues(): the filled vector is what is returned.  eigenvectors(nvec): the returned matrix is assigned
    <basis accessor of the factorization> * <the selected Ritz-vector columns>."""
    problems = []
    rets = [n for n in fn.walk() if n['k'] == 'ReturnStmt']
    rl = set()
    for r in rets:
        t = sym(fn, r['value'], inline=False)
        if t[0] != 'L':
            problems.append('returns %s, not the result object' % show(t))
        else:
            rl.add(t[1])
    if len(rl) != 1:
        return problems + ['returns different objects on different paths']
    res = list(rl)[0]
    filled = set()
    for n in fn.walk():
        if n['k'] in ('BinaryOperator', 'CXXOperatorCallExpr') and n.get('op') == '=':
            loop = [a for a in fn.ancestors(n) if a['k'] == 'ForStmt']
            if loop:
                t = sym(fn, n, inline=False)
                droot, _ = split_index(t[1])
                if droot and droot[0] == 'L':
                    filled.add(droot[1])
    if acc == 'eigenvalues':
        if res not in filled:
            problems.append('the returned vector `%s` is not the one filled under the flag test' % res)
        return problems
    prods = []
    for n in fn.walk():
        if n['k'] in ('BinaryOperator', 'CXXOperatorCallExpr') and n.get('op') == '=' and not [a for a in fn.ancestors(n) if a['k'] == 'ForStmt']:
            t = sym(fn, n, inline=False)
            if t[1] == ('L', res):
                prods.append(t[2])
    if len(prods) != 1:
        return problems + ['%d assignments to the returned matrix (expected 1)' % len(prods)]
    t = prods[0]
    fac_fields = [f['name'] for f in m.rec['fields'] if f['type'].startswith('Spectra::Lanczos<') or f['type'].startswith('Spectra::Arnoldi<')]
    if not (t[0] == '*' and len(t) == 3 and isinstance(t[1], tuple) and len(t[1]) == 2 and t[1][1] == ('F', fac_fields[0] if fac_fields else '?')
            and t[2][0] == 'L' and t[2][1] in filled):
        problems.append('returned matrix is %s, not <basis of the factorization> * <selected Ritz vectors>' % show(t))
    else:
        # the accessor returns the n-row basis field
        accs = [f for f in ctx.F.concrete() if f.name == t[1][0] and f.cls in FAC_TMPLS]
        if not accs:
            problems.append('factorization accessor %s not analysed' % t[1][0])
        else:
            g = accs[0]
            gr = [x for x in g.walk() if x['k'] == 'ReturnStmt']
            gt = sym(g, gr[0]['value'], inline=False) if len(gr) == 1 else None
            if not (gt and gt[0] == 'F'):
                problems.append('%s() does not return a stored field' % t[1][0])
            else:
                # that field is the one whose columns factorize_from fills (the Krylov basis)
                okb = False
                for ff in ctx.F.concrete():
                    if ff.cls in FAC_TMPLS and ff.name == 'factorize_from':
                        for x in ff.walk():
                            if x['k'] in ('CXXOperatorCallExpr',) and x.get('op') == '=':
                                tt = sym(ff, x, inline=False)
                                if tt[1][0] == 'col' and tt[1][1] == gt:
                                    okb = True
                if not okb:
                    problems.append('%s() returns %s, which is not the basis filled column by column in factorize_from' % (t[1][0], gt[1]))
    return problems


# ---------------------------------------------------------------------------------------------------
# C05-D3  operator applications are counted
# ---------------------------------------------------------------------------------------------------
FAC_TMPLS = ('Spectra::Arnoldi', 'Spectra::Lanczos')


def _returned_counters(fn):
    """Integer locals that every return statement of fn returns (a function reporting how many applications it made)."""
    rets = [x for x in fn.walk() if x['k'] == 'ReturnStmt' and x.get('value', -1) >= 0]
    if not rets:
        return set()
    vs = None
    for r in rets:
        v = fn.strip(fn.nodes[r['value']])
        cur = {v['var']} if v is not None and v['k'] == 'DeclRefExpr' and 'var' in v and fn.locals[v['var']]['type'] in ('long', 'int', 'Eigen::Index') else set()
        vs = cur if vs is None else (vs & cur)
    out = set()
    for v in (vs or ()):
        # initialised to zero at its declaration
        for x in fn.walk():
            if x['k'] == 'DeclStmt':
                for d in x.get('decls', []):
                    if d.get('var') == v and 'init' in d and sym(fn, d['init'], inline=False) == ('lit', '0'):
                        out.add(v)
    return out


def counter_pairing(ctx, rule='op-application-counted'):
    """Inside the factorization every application of the operator adaptor is followed, in the same basic block and before any
    other application, by an increment of a counter: the by-reference counter parameter, or a zero-initialised local that every
    return statement hands back -- in which case every call site must add the returned count to its own counter."""
    n_sites = 0
    reporting = {}          # mangled name -> Function that reports its applications through its return value
    for fn in ctx.F.concrete():
        if fn.cls not in FAC_TMPLS or not fn.cfg:
            continue
        ctr = set(v for v in fn.params if fn.locals[v]['type'] in ('long &', 'Eigen::Index &'))
        rc = _returned_counters(fn)
        if rc and any(x['k'] == 'CXXMemberCallExpr' and x.get('callee') == 'perform_op' for x in fn.walk()):
            reporting[fn.mangled] = fn
        ctr_all = ctr | rc
        for b in fn.cfg['blocks']:
            pending = None
            for i, n in fn.elem_nodes(b['id']):
                if n['k'] == 'CXXMemberCallExpr' and n.get('callee') == 'perform_op' and n.get('cls') == 'Spectra::ArnoldiOp':
                    if pending is not None:
                        ctx.fail(rule, '%s::%s#%s' % (short(fn.cls), fn.name, _ordinal(fn, pending)), fn.qname,
                                 'operator applied at %s and again before the counter was incremented' % fn.loc(pending))
                        n_sites += 1
                    pending = n
                elif n['k'] == 'UnaryOperator' and n.get('op') == '++' and pending is not None:
                    t = fn.strip(fn.nodes[n['c'][0]])
                    if t['k'] == 'DeclRefExpr' and t.get('var') in ctr_all:
                        ctx.ok(rule, '%s::%s#%s' % (short(fn.cls), fn.name, _ordinal(fn, pending)), fn.qname,
                               '%s ; %s' % (fn.s(pending)[:60], fn.s(n)))
                        n_sites += 1
                        pending = None
            if pending is not None:
                ctx.fail(rule, '%s::%s#%s' % (short(fn.cls), fn.name, _ordinal(fn, pending)), fn.qname,
                         'operator applied at %s without incrementing the operation counter in the same block' % fn.loc(pending))
                n_sites += 1
    # callers of a reporting function must not drop the count
    for fn in ctx.F.concrete():
        if not fn.cfg:
            continue
        ctr = set(v for v in fn.params if fn.locals[v]['type'] in ('long &', 'Eigen::Index &')) | _returned_counters(fn)
        for c in fn.walk():
            if c['k'] in ('CXXMemberCallExpr', 'CallExpr') and c.get('mangled') in reporting:
                par = fn.node(fn.parent.get(c['id'], -1))
                while par is not None and par['k'] in ('ImplicitCastExpr', 'ExprWithCleanups', 'ParenExpr'):
                    par = fn.node(fn.parent.get(par['id'], -1))
                ok = False
                if par is not None and par['k'] == 'CompoundAssignOperator' and par.get('op') == '+=':
                    l = fn.strip(fn.nodes[par['c'][0]])
                    ok = (l['k'] == 'DeclRefExpr' and l.get('var') in ctr) or (l['k'] == 'MemberExpr' and l.get('mk') == 'field')
                n_sites += 1
                ctx.check(ok, rule, '%s::%s/%s-count' % (short(fn.cls), fn.name, c.get('callee')), fn.qname,
                          'applications reported by %s are added to the counter' % c.get('callee') if ok else
                          'the number of operator applications returned by %s() is discarded at %s: num_operations() misses them' % (c.get('callee'), fn.loc(c)))
    return n_sites


def _ordinal(fn, node):
    """1-based ordinal of a perform_op call among the perform_op calls of its function (stable under line shifts)."""
    calls = [n['id'] for n in fn.walk() if n['k'] == 'CXXMemberCallExpr' and n.get('callee') == 'perform_op']
    return str(calls.index(node['id']) + 1) if node['id'] in calls else '?'


COUNT_EXEMPT = {('Spectra::GenEigsComplexShiftSolver', 'sort_ritzpair'):
                'post-processing solves at the probe shift: outside the counted iteration by the property\'s own statement'}


def operator_callers(ctx, rule='operator-applied-only-by-factorization'):
    """Solver classes never apply an operator themselves (except the tabulated probe), and the adaptor's
    perform_op is called from the factorization only."""
    n = 0
    for fn in ctx.F.concrete():
        for c in fn.walk():
            if c['k'] != 'CXXMemberCallExpr' or c.get('callee') != 'perform_op':
                continue
            if fn.cls in SOLVER_TMPLS:
                ex = COUNT_EXEMPT.get((fn.cls, fn.name))
                ctx.check(ex is not None, rule, '%s::%s' % (short(fn.cls), fn.name), fn.qname,
                          ('tabulated exception: ' + ex) if ex else
                          'solver member applies an operator directly at %s: not counted by num_operations()' % fn.loc(c))
                n += 1
            elif c.get('cls') == 'Spectra::ArnoldiOp':
                ctx.check(fn.cls in FAC_TMPLS, rule, '%s::%s' % (short(fn.cls), fn.name), fn.qname,
                          'adaptor applied from the factorization' if fn.cls in FAC_TMPLS else
                          'adaptor applied outside the factorization at %s' % fn.loc(c))
                n += 1
    return n


def counter_identity(ctx, base_tq, rule='counter-identity'):
    """num_operations() returns the field that is (a) zeroed by init() before the factorization is initialised and
    (b) passed as the counter to every counting member of the factorization."""
    for comp in ctx.F.insts(base_tq + '::compute'):
        m = BaseModel(ctx, comp)
        inst = short(base_tq)
        acc = m.methods.get('num_operations')
        if acc is None:
            # implicit instantiation that never uses the accessor (e.g. the SVD wrapper's inner solver): nothing to decide
            ctx.note('%s: num_operations() is not instantiated; counter-identity skipped for this instantiation' % comp.record)
            continue
        rets = [n for n in acc.walk() if n['k'] == 'ReturnStmt']
        t = sym(acc, rets[0]['value'], inline=False) if len(rets) == 1 else None
        if not (t and t[0] == 'F'):
            ctx.fail(rule, inst, comp.record, 'num_operations() does not return a field')
            continue
        ctr = t[1]
        problems = []
        n_sites = 0
        for name, fn in m.named():
            for c in fn.walk():
                if c['k'] != 'CXXMemberCallExpr' or c.get('cls') not in FAC_TMPLS:
                    continue
                pm = c.get('pmut', '')
                args = fn.call_args(c)
                for j, a in enumerate(args):
                    if j < len(pm) and pm[j] == 'R' and a.get('t') == 'long':
                        n_sites += 1
                        if sym(fn, a, inline=False) != ('F', ctr):
                            problems.append('%s passes %s as the operation counter at %s' % (name, fn.s(a), fn.loc(c)))
        ini = m.methods.get('init')
        zero = [n for n in ini.walk() if n['k'] == 'BinaryOperator' and n.get('op') == '=' and
                sym(ini, n, inline=False) == ('=', ('F', ctr), ('lit', '0'))]
        if not zero:
            problems.append('init() does not zero %s' % ctr)
        else:
            # the zeroing dominates the factorization's init call
            for c in ini.walk():
                if c['k'] == 'CXXMemberCallExpr' and c.get('cls') in FAC_TMPLS:
                    if not paths.dominated_by(ini, ini.pos_of(c), lambda n: n['id'] == zero[0]['id']):
                        problems.append('%s is not zeroed before the factorization is initialised' % ctr)
        # nobody else writes the counter field directly
        for name, fn in m.named():
            if name in ('init',) or fn.d.get('ctor'):
                continue
            for a in ctx.E.of(fn).accesses:
                if a.path == (ctr,) and a.mode == 'w' and fn.nodes[a.node]['k'] != 'CXXMemberCallExpr':
                    problems.append('%s writes %s directly at %s' % (name, ctr, fn.loc(fn.nodes[a.node])))
        if n_sites < 3:
            raise AnalysisBroken('%s: only %d counter-passing call sites found' % (comp.record, n_sites))
        ctx.check(not problems, rule, inst, comp.record,
                  'num_operations() returns %s: zeroed by init(), passed as the counter at %d call sites' % (ctr, n_sites)
                  if not problems else '; '.join(problems))


# ---------------------------------------------------------------------------------------------------
# C05-D4  at most maxit restarts
# ---------------------------------------------------------------------------------------------------
def restart_bound(ctx, base_tq, rule='restarts-bounded-by-maxit'):
    for comp in ctx.F.insts(base_tq + '::compute'):
        inst = short(base_tq) + '::compute'
        problems = []
        calls = [n for n in comp.walk() if n['k'] == 'CXXMemberCallExpr' and n.get('callee') == 'restart']
        if not calls:
            raise AnalysisBroken('%s: compute() does not call restart()' % comp.record)
        for c in calls:
            loop = None
            for a in comp.ancestors(c):
                if a['k'] in ('ForStmt', 'WhileStmt', 'DoStmt'):
                    loop = a
                    break
            if loop is None or loop['k'] != 'ForStmt':
                problems.append('restart() at %s is not inside a counted loop' % comp.loc(c))
                continue
            if not comp.within(c, loop['body']):
                problems.append('restart() is not in the loop body')
            rg = loop_range(comp, loop)
            if rg is None:
                problems.append('loop around restart() is not `for (i = lo; i < hi; i++)`')
                continue
            var, lo, hi = rg
            if lo != ('lit', '0') or hi[0] != 'P':
                problems.append('loop runs from %s to %s, not from 0 to the maxit parameter' % (show(lo), show(hi)))
            # neither the induction variable nor the bound is written in the body
            for x in comp.walk(loop['body']):
                if x['k'] in ('BinaryOperator', 'CompoundAssignOperator', 'UnaryOperator') and \
                        (x.get('op') in ('=', '+=', '-=', '*=', '/=', '++', '--')):
                    l = comp.strip(comp.nodes[x['c'][0]])
                    if l['k'] == 'DeclRefExpr' and (l.get('name') == var or ('P', l.get('name')) == hi):
                        problems.append('%s is modified inside the loop at %s' % (l.get('name'), comp.loc(x)))
            # at most one restart per iteration: no path from this call to a restart() call avoids the loop step
            inc = comp.node(loop.get('inc', -1))
            rid = set(x['id'] for x in calls)
            hit = paths.search(comp, [comp.pos_of(c)], stop=lambda n, inc=inc: inc is not None and n['id'] == inc['id'],
                               target=lambda n: n['id'] in rid)
            if hit is not None:
                problems.append('a second restart() can run in the same iteration: ' + hit[-1])
            # nested loops around the call inside this loop
            for a in comp.ancestors(c):
                if a['id'] == loop['id']:
                    break
                if a['k'] in ('ForStmt', 'WhileStmt', 'DoStmt'):
                    problems.append('restart() is inside a nested loop')
        # restart() itself is not recursive and is called from compute() only
        m = BaseModel(ctx, comp)
        for name, fn in m.named():
            if name == 'compute':
                continue
            for x in fn.walk():
                if x['k'] == 'CXXMemberCallExpr' and x.get('callee') == 'restart' and x.get('cls') == base_tq:
                    problems.append('%s also calls restart()' % name)
        ctx.check(not problems, rule, inst, comp.qname,
                  'restart() called once per iteration of `for (i = 0; i < maxit; i++)`, i and maxit not modified'
                  if not problems else '; '.join(problems))


# ---------------------------------------------------------------------------------------------------
# C05-D5  state before compute()
# ---------------------------------------------------------------------------------------------------
def initial_state(ctx, base_tq, rule='initial-state'):
    for comp in ctx.F.insts(base_tq + '::compute'):
        m = BaseModel(ctx, comp)
        inst = short(base_tq)
        ctors = [f for f in ctx.F.methods(comp.record) if f.d.get('ctor')]
        if not ctors:
            raise AnalysisBroken('%s: no constructor analysed' % comp.record)
        for k, c in enumerate(sorted(ctors, key=lambda f: f.line)):
            problems = []
            ini = [i for i in c.inits if i['member'] == m.info]
            if len(ini) != 1 or sym(c, ini[0]['expr'], inline=False) != ('enum', 'NotComputed'):
                problems.append('status is not initialised to NotComputed')
            for a in ctx.E.of(c).accesses:
                if a.path in ((m.flag,), (m.info,)) and a.mode == 'w':
                    problems.append('constructor body writes %s' % a.path[0])
            if any(i['member'] == m.flag and i.get('written') for i in c.inits):
                problems.append('constructor sizes the flag array (accessors would not be empty before compute())')
            ctx.check(not problems, rule, '%s::ctor#%d' % (inst, k + 1), c.qname,
                      'status starts as NotComputed, flag array starts empty' if not problems else '; '.join(problems))


def init_restores_initial_state(ctx, base_tq, rule='init-restores-the-initial-accessor-state'):
    """"Before any compute(), info() is NotComputed and the accessors return empty objects", for all interleavings of init(),
    compute() and accessor calls: after an init() that follows an earlier compute() the object is "before compute()" again.
    The accessors select by the flag array and info() returns the status field, so on every normal path through init() the
    flag array is set to all-false (setZero / setConstant(false) / fill(false) on the whole array) and the status is assigned
    NotComputed.  (compute() overwrites both before it reads them, so neither reset matters to compute() -- which is why a
    "dead store" clean-up of them passes every test.)"""
    from . import paths
    for comp in ctx.F.insts(base_tq + '::compute'):
        m = BaseModel(ctx, comp)
        inst = short(base_tq)
        ini = m.methods.get('init')
        if ini is None or not ini.cfg:
            raise AnalysisBroken('%s: no init() with a body' % comp.record)
        clears = set()
        status = set()
        for x in ini.walk():
            if x['k'] == 'CXXMemberCallExpr' and x.get('callee') in ('setZero', 'setConstant', 'fill'):
                r = ini.root_of(ini.call_object(x))
                if r == ('field', m.flag) and sym(ini, ini.call_object(x), inline=False) == ('F', m.flag):
                    a = ini.call_args(x)
                    if x['callee'] == 'setZero' or (a and sym(ini, a[-1], inline=False) in (('lit', 'false'), ('lit', '0'))):
                        clears.add(x['id'])
            if x['k'] in ('BinaryOperator', 'CXXOperatorCallExpr') and x.get('op') == '=':
                a = ini.call_args(x) if x['k'] == 'CXXOperatorCallExpr' else [ini.nodes[c] for c in x['c']]
                if len(a) == 2 and ini.root_of(a[0]) == ('field', m.info) and sym(ini, a[1], inline=False) == ('enum', 'NotComputed'):
                    status.add(x['id'])
        problems = []
        for what, ids, msg in (('flags', clears, 'the convergence flags are not reset to all-false: eigenvalues() / eigenvectors() after init() still select the pairs of the EARLIER compute() '
                                                 '(their values were zeroed: nev zeros and zero columns instead of empty objects)'),
                               ('status', status, 'the status is not reset to NotComputed: info() after init() still reports the outcome of the earlier compute() (e.g. Successful) while the accessors are empty')):
            hit = paths.search(ini, [], stop=lambda n_, ids=ids: n_['id'] in ids, target=lambda n_: n_['k'] == 'ReturnStmt', include_entry=True,
                               exit_is_target=lambda b: True, normal_only=True)
            if hit is not None:
                problems.append(msg)
        ctx.check(not problems, rule, '%s::init' % inst, ini.qname,
                  'every normal path through init() clears the flag array and sets the status to NotComputed' if not problems else '; '.join(problems))


# ---------------------------------------------------------------------------------------------------
# C04-D1 / C05  the rule arguments reach their consumers unchanged
# ---------------------------------------------------------------------------------------------------
def rule_argument_flow(ctx, base_tq, rule='rule-argument-flow'):
    """compute(selection, .., sorting): every retrieve/restart receives `selection`, the final sort receives `sorting`."""
    want = {'retrieve_ritzpair': 0, 'restart': 0, 'sort_ritzpair': 3}
    for comp in ctx.F.insts(base_tq + '::compute'):
        inst = short(base_tq) + '::compute'
        pnames = [comp.locals[v]['name'] for v in comp.params]
        ptypes = [comp.locals[v]['type'] for v in comp.params]
        rule_params = [i for i, t in enumerate(ptypes) if t == 'Spectra::SortRule']
        problems = []
        if len(rule_params) != 2:
            raise AnalysisBroken('%s: compute() has %d SortRule parameters' % (comp.record, len(rule_params)))
        sel, srt = pnames[rule_params[0]], pnames[rule_params[1]]
        n = 0
        for c in comp.walk():
            if c['k'] == 'CXXMemberCallExpr' and c.get('callee') in want:
                args = [a for a in comp.call_args(c) if a.get('t') == 'Spectra::SortRule']
                exp = srt if c['callee'] == 'sort_ritzpair' else sel
                n += 1
                if len(args) != 1 or sym(comp, args[0], inline=False) != ('P', exp):
                    problems.append('%s receives %s instead of the caller\'s `%s`' %
                                    (c['callee'], comp.s(args[0]) if args else '?', exp))
        for x in comp.walk():
            if x['k'] in ('BinaryOperator', 'CompoundAssignOperator') and x.get('op') == '=':
                l = comp.strip(comp.nodes[x['c'][0]])
                if l['k'] == 'DeclRefExpr' and l.get('name') in (sel, srt):
                    problems.append('%s is overwritten at %s' % (l['name'], comp.loc(x)))
        if n < 3:
            raise AnalysisBroken('%s: only %d rule-consuming calls in compute()' % (comp.record, n))
        # restart forwards its rule to retrieve_ritzpair
        m = BaseModel(ctx, comp)
        rs = m.methods.get('restart')
        if rs is not None:
            rp = [rs.locals[v]['name'] for v in rs.params if rs.locals[v]['type'] == 'Spectra::SortRule']
            for c in rs.walk():
                if c['k'] == 'CXXMemberCallExpr' and c.get('callee') == 'retrieve_ritzpair':
                    a = [a for a in rs.call_args(c)]
                    if not rp or sym(rs, a[0], inline=False) != ('P', rp[0]):
                        problems.append('restart() hands %s to retrieve_ritzpair' % rs.s(a[0]))
        ctx.check(not problems, rule, inst, comp.qname,
                  '`%s` reaches every retrieve/restart, `%s` reaches the final sort (%d call sites)' % (sel, srt, n)
                  if not problems else '; '.join(problems))


# ---------------------------------------------------------------------------------------------------
# Ritz data belong to the current call (must-pass-through)
# ---------------------------------------------------------------------------------------------------
def ritz_data_of_current_call(ctx, base_tq, rule='ritz-data-retrieved-by-this-call'):
    """At entry of compute() the stored Ritz values / estimates / vectors are in an unknown state: after an earlier compute()
    on the same object their first nev entries were ordered by that call's selection rule and -- in the shift-and-invert
    solvers, whose sort_ritzpair override maps nu to lambda in place -- are no longer Ritz values of H at all.  Every member
    that reads them inside compute() (the convergence test, the restart shifts, the final back-transform and sort) must
    therefore be preceded, on every path from entry, by a call that rebuilds ALL of them from H under the selection rule of
    THIS call.  Necessary for: the selection rule of the call decides the reported pairs (C04), the spectral back-transform
    is applied exactly once (C03, C04), the flags describe the current pairs (C01, C02, C05)."""
    n = 0
    for comp in ctx.F.insts(base_tq + '::compute'):
        m = BaseModel(ctx, comp)
        inst = short(base_tq) + '::compute'
        ptypes = [comp.locals[v]['type'] for v in comp.params]
        sel = [comp.locals[v]['name'] for v, t in zip(comp.params, ptypes) if t == 'Spectra::SortRule']
        if len(sel) != 2:
            raise AnalysisBroken('%s: compute() has %d SortRule parameters' % (comp.record, len(sel)))
        sel = sel[0]
        fields = set(f['name'] for f in m.rec['fields'])

        def gets_selection(c):
            return any(a.get('t') == 'Spectra::SortRule' and sym(comp, a, inline=False) == ('P', sel) for a in comp.call_args(c))
        # the retriever: the call handed `selection` whose write set over this object's fields is smallest
        cands = []
        for c in comp.walk():
            if c['k'] == 'CXXMemberCallExpr' and target_methods(m, comp, c) and gets_selection(c):
                w = set(p[0] for p in ctx.E.call_may_write(comp, c) if p and p[0] in fields)
                cands.append((len(w), c['id'], w, c))
        if not cands:
            raise AnalysisBroken('%s: no member call in compute() receives the selection rule' % comp.record)
        cands.sort(key=lambda t: t[:2])
        ritz = cands[0][2] - {m.flag}
        if len(ritz) < 3:
            raise AnalysisBroken('%s: the retrieving member %s writes only %s' % (comp.record, cands[0][3].get('callee'), sorted(ritz)))

        def rebuilds(c):
            if c['k'] != 'CXXMemberCallExpr' or not target_methods(m, comp, c) or not gets_selection(c):
                return False
            # every target must itself start by rebuilding: accept the retriever, or a member all of whose paths reach the retriever
            tg = target_methods(m, comp, c)
            return all(t.name == ctx.F.resolve(cands[0][3]).name for t in tg)

        def reads_ritz(c):
            if c['k'] not in ('CXXMemberCallExpr', 'CallExpr', 'CXXOperatorCallExpr') or rebuilds(c):
                return False
            r = set(p[0] for p in ctx.E.call_may_read(comp, c) if p)
            return bool(r & ritz)
        readers = paths.positions_of(comp, reads_ritz)
        if len(readers) < 3:
            raise AnalysisBroken('%s: only %d readers of the Ritz data in compute()' % (comp.record, len(readers)))
        hit = paths.search(comp, [], stop=rebuilds, target=reads_ritz, include_entry=True)
        n += 1
        ctx.check(hit is None, rule, inst, comp.qname,
                  'every reader of %s in compute() (%d call sites) is preceded on every path from entry by %s(%s)' %
                  (sorted(ritz), len(readers), cands[0][3].get('callee'), sel) if hit is None else
                  'a path from the entry of compute() reaches a reader of the stored Ritz data %s without %s(%s): on a compute() that follows another compute() '
                  'the data are those the earlier call left behind (ordered by its selection rule; in the shift-and-invert solvers already mapped from nu to lambda, '
                  'so the back-transform is applied a second time)' % (sorted(ritz), cands[0][3].get('callee'), sel), path=hit)
    if n < 1:
        raise AnalysisBroken('%s: no compute() instantiation' % base_tq)
