"""C17 -- LOBPCG: success status and the shape / provenance of the returned objects (structural clauses)."""
from .facts import AnalysisBroken
from . import paths
from .sym import sym, show, atoms
from .eigsbase import loop_range

EXPLANATION = (
    'Value-flow and must-pass-through rules over the CFG of the instantiated LOBPCGSolver. Decides: (D1) eigenvectors() returns '
    'a value derived from the n-row iterate block -- the field that compute() multiplies by A and updates with the Rayleigh-Ritz '
    'coefficients -- not from the small dense coefficient matrix; eigenvalues() / residuals() return the fields compute() assigns '
    'from the Rayleigh-Ritz values and from A X - B X diag(values); (D2) the status is set to Success only under a test '
    '`block size == 0` whose operand is the result of the convergence test applied to residuals that were recomputed as '
    'AX(:,i) - value(i) * BX(:,i) for all i < k after the last change of X / AX / BX / values (no other writer of the residuals '
    'lies between the recomputation and the test); the constructor starts with a non-success status; every Rayleigh-Ritz solve is '
    'followed by the ascending (SmallestAlge) sort of the pairs before they are used; the convergence test counts a column as '
    'converged only if sqrt(sum of squares) < tolerance. Every path through compute() assigns the status (the status at exit belongs to this call); the convergence function changes its count only under the norm criterion and reads no mutable solver field. (D3) the factors of a sparse decomposition are read only with the natural ordering or with its permutation; (D4) Success is assigned only under a test of Xt B X against the identity. Does NOT decide accuracy, B-orthonormality levels, or that the k smallest '
    'eigenvalues are found.')
ASSUMPTIONS = ['Eigen sparse products are exact up to rounding']


def _cls(ctx):
    fns = [f for f in ctx.F.concrete() if f.cls == 'Spectra::LOBPCGSolver']
    if not fns:
        raise AnalysisBroken('LOBPCGSolver not instantiated')
    by = {}
    for f in fns:
        by.setdefault(f.name, f)
    return by


def returned_objects(ctx, rule='accessor-returns-iterate-block'):
    M = _cls(ctx)
    comp = M.get('compute')
    if comp is None:
        raise AnalysisBroken('LOBPCGSolver::compute not analysed')
    # the iterate block: field X with an assignment  AX = A * X  (A: the operator field) and  X = X * c + DD
    iter_fields = set()
    for x in comp.walk():
        if x['k'] in ('CXXOperatorCallExpr', 'BinaryOperator') and x.get('op') == '=':
            t = sym(comp, x, inline=False)
            if t[2][0] == '*' and t[2][1][0] == 'F' and t[2][2][0] == 'F' and t[1][0] == 'L':
                # AX = A * X
                iter_fields.add(t[2][2][1])
    rec = [r for r in ctx.F.records.values() if r['qname'] == comp.record and not r['dep']][0]
    sparse_fields = [f['name'] for f in rec['fields'] if f['type'].startswith('Eigen::SparseMatrix')]
    cand = [f for f in iter_fields if f in sparse_fields]
    # the one that is also updated from itself
    blocks = []
    for f in cand:
        for x in comp.walk():
            if x['k'] in ('CXXOperatorCallExpr', 'BinaryOperator') and x.get('op') == '=':
                t = sym(comp, x, inline=False)
                if t[1] == ('F', f) and ('F', f) in atoms(t[2]):
                    blocks.append(f)
    # ... and that the constructor initialises from the user's initial block
    ctor_init = set()
    for c in ctx.F.concrete():
        if c.cls == 'Spectra::LOBPCGSolver' and c.d.get('ctor'):
            for i in c.inits:
                if i.get('written') and any(m[0] == 'param' for m in c.mentions(i['expr'])):
                    ctor_init.add(i['member'])
    blocks = sorted(set(blocks) & ctor_init)
    if len(blocks) != 1:
        raise AnalysisBroken('LOBPCG: iterate block not identified (%s)' % blocks)
    X = blocks[0]
    acc = M.get('eigenvectors')
    rets = [x for x in acc.walk() if x['k'] == 'ReturnStmt']
    at = set()
    for r in rets:
        at |= atoms(sym(acc, r['value']))
    ok = ('F', X) in at
    # ... and returns it UNCHANGED: the iterate is B-orthonormal and belongs to the values and residuals reported next to it; any
    # operation on it (re-scaling, re-normalising in the 2-norm, a product) hands out something the other accessors do not describe
    forms = [sym(acc, r['value']) for r in rets]

    def plain(t):
        while isinstance(t, tuple) and t[0] in ('ctor', 'cast', 'eval') and len(t) >= 2:
            t = t[-1]
        return t == ('F', X)
    changed = [show(t) for t in forms if not plain(t)]
    ctx.check(ok and not changed, rule, 'LOBPCGSolver::eigenvectors', acc.qname,
              'returns the n-row iterate block %s as it is' % X if ok and not changed else
              ('returns %s: the iterate block is modified on the way out (it is B-orthonormal as stored; values and residuals describe the stored block)' % changed) if ok else
              'returns %s, which is not derived from the iterate block %s (a k-column coefficient matrix has the wrong shape and is not an eigenvector of the pencil)' % (sorted(show(a) for a in at), X))
    # eigenvalues(): field assigned from geigs.eigenvalues(); residuals(): field assigned AX - val*BX
    ev = M.get('eigenvalues')
    t = sym(ev, [x for x in ev.walk() if x['k'] == 'ReturnStmt'][0]['value'])
    vals = [sym(comp, x, inline=False) for x in comp.walk() if x['k'] in ('CXXOperatorCallExpr', 'BinaryOperator') and x.get('op') == '=']
    okv = t[0] == 'F' and any(v[1] == t and v[2][0] == 'eigenvalues' for v in vals)
    ctx.check(okv, rule, 'LOBPCGSolver::eigenvalues', ev.qname, 'returns the Rayleigh-Ritz values assigned in compute()' if okv else 'returns %s' % show(t))
    rs = M.get('residuals')
    t = sym(rs, [x for x in rs.walk() if x['k'] == 'ReturnStmt'][0]['value'])
    at = atoms(t)
    resf = [a[1] for a in at if a[0] == 'F']
    allvals = []
    for g in ctx.F.concrete():
        if g.cls == 'Spectra::LOBPCGSolver' and g.cfg and not g.d.get('ctor'):
            allvals += [sym(g, x, inline=False) for x in g.walk() if x['k'] in ('CXXOperatorCallExpr', 'BinaryOperator') and x.get('op') == '=']
    okr = len(resf) == 1 and any(v[1][0] == 'col' and v[1][1] == ('F', resf[0]) and v[2][0] == '-' for v in allvals)
    ctx.check(okr, rule, 'LOBPCGSolver::residuals', rs.qname, 'returns the field filled with AX - BX*diag(values)' if okr else 'returns %s' % show(t))
    return X, (resf[0] if resf else None)


def _tri(fn, n, env):
    """three-valued evaluation of a condition under {local name: bool}: True / False / None (unknown)"""
    n = fn.strip(n)
    if n is None:
        return None
    k = n['k']
    if k == 'CXXBoolLiteralExpr':
        return n['val'] == 'true'
    if k == 'DeclRefExpr':
        return env.get(n.get('name'))
    if k == 'UnaryOperator' and n.get('op') == '!':
        v = _tri(fn, fn.nodes[n['c'][0]], env)
        return None if v is None else (not v)
    if k == 'BinaryOperator' and n.get('op') in ('&&', '||'):
        a, b = _tri(fn, fn.nodes[n['c'][0]], env), _tri(fn, fn.nodes[n['c'][1]], env)
        if n['op'] == '&&':
            return False if (a is False or b is False) else True if (a is True and b is True) else None
        return True if (a is True or b is True) else False if (a is False and b is False) else None
    return None


def success_discipline(ctx, X, RES, rule='success-only-after-fresh-residual-test'):
    M = _cls(ctx)
    comp = M['compute']
    rec = [r for r in ctx.F.records.values() if r['qname'] == comp.record and not r['dep']][0]
    infos = [f['name'] for f in rec['fields'] if f['name'].endswith('info')]
    if len(infos) != 1:
        raise AnalysisBroken('LOBPCG: status field not identified')
    info = infos[0]
    succ = [x for x in comp.walk() if x['k'] in ('BinaryOperator', 'CXXOperatorCallExpr') and x.get('op') == '=' and
            sym(comp, x, inline=False)[1] == ('F', info) and show(sym(comp, x, inline=False)[2]) == 'Success']
    if len(succ) < 1:
        raise AnalysisBroken('LOBPCG: %d success assignments (1 confirmed by hand since the verdict was moved behind the loop; 2 before)' % len(succ))
    # recomputation loops: for i < nev: RES.col(i) = AX.col(i) - values(i) * BX.col(i)
    recomputes = []
    for lp in comp.walk():
        if lp['k'] != 'ForStmt':
            continue
        rg = loop_range(comp, lp)
        if not rg or rg[1] != ('lit', '0') or rg[2][0] != 'F':
            continue
        for x in comp.walk(lp['body']):
            if x['k'] in ('CXXOperatorCallExpr',) and x.get('op') == '=':
                t = sym(comp, x, inline=False)
                if t[1] == ('col', ('F', RES), ('L', rg[0])) and t[2][0] == '-' and t[2][1][0] == 'col' and t[2][1][2] == ('L', rg[0]) and \
                        t[2][2][0] == '*' and any(isinstance(a, tuple) and a[0] == 'col' and a[2] == ('L', rg[0]) for a in t[2][2][1:]):
                    recomputes.append((lp, x, t))
    # a member helper that contains the recomputation loop: a call of it is a recomputation iff, with the call's literal
    # arguments, no other write of the residual field can follow the loop inside the helper; otherwise the call is a WRITER
    helper_fresh, helper_writer = set(), set()
    for call in comp.walk():
        if call['k'] != 'CXXMemberCallExpr' or call.get('cls') != 'Spectra::LOBPCGSolver':
            continue
        hs = [g for g in ctx.F.concrete() if g.cls == 'Spectra::LOBPCGSolver' and g.name == call.get('callee') and g.cfg and g is not comp]
        if not hs:
            continue
        h = hs[0]
        mw = ctx.E.call_may_write(comp, call)
        if not any(p_ and p_[0] in (RES, X) for p_ in mw):
            continue
        loops_h = []
        for lp in h.walk():
            if lp['k'] != 'ForStmt':
                continue
            rg = loop_range(h, lp)
            if not rg or rg[1] != ('lit', '0') or rg[2][0] != 'F':
                continue
            for x in h.walk(lp['body']):
                if x['k'] == 'CXXOperatorCallExpr' and x.get('op') == '=':
                    t = sym(h, x, inline=False)
                    if t[1] == ('col', ('F', RES), ('L', rg[0])) and t[2][0] == '-' and t[2][1][0] == 'col' and t[2][1][2] == ('L', rg[0]) and \
                            t[2][2][0] == '*' and any(isinstance(a, tuple) and a[0] == 'col' and a[2] == ('L', rg[0]) for a in t[2][2][1:]):
                        loops_h.append((lp, x, rg))
        fresh = False
        if len(loops_h) == 1:
            lp, x, rg = loops_h[0]
            args = comp.call_args(call)
            env = {}
            for i_, pid in enumerate(h.params):
                if i_ < len(args):
                    a = comp.strip(args[i_])
                    if a is not None and a['k'] == 'CXXBoolLiteralExpr':
                        env[h.locals[pid]['name']] = (a['val'] == 'true')
            fe_h = ctx.E.of(h)
            later = []
            for acc in fe_h.accesses:
                if acc.mode == 'w' and acc.path in ((RES,), (X,)):
                    n_ = h.nodes[acc.node]
                    if h.within(n_, lp) or n_['id'] == x['id']:
                        continue
                    if n_['k'] == 'CXXMemberCallExpr' and n_.get('callee') == 'resize' and n_['l'] < lp['l']:
                        continue
                    # infeasible under the call's literal arguments?
                    dead = False
                    for anc in h.ancestors(n_):
                        if anc['k'] == 'IfStmt':
                            v = _tri(h, h.nodes[anc['cond']], env)
                            if (v is False and h.within(n_, anc['then'])) or (v is True and anc.get('else', -1) >= 0 and h.within(n_, anc['else'])):
                                dead = True
                    if not dead:
                        later.append(n_)
            fresh = not later
        (helper_fresh if fresh else helper_writer).add(call['id'])
    if len(recomputes) + len(helper_fresh) < 1:
        raise AnalysisBroken('LOBPCG: residual recomputation not found (no loop in compute(), no helper call that leaves fresh residuals)')
    rec_ids = set(lp['id'] for lp, _, _ in recomputes)
    checks = [x for x in comp.walk() if x['k'] == 'CXXMemberCallExpr' and x.get('callee') == 'checkConvergence_getBlocksize']
    for k, s in enumerate(succ):
        problems = []
        guard = None
        for a in comp.ancestors(s):
            if a['k'] == 'IfStmt' and comp.within(s, a['then']):
                guard = a
                break
        if guard is None:
            problems.append('Success is assigned unconditionally')
        else:
            c = sym(comp, guard['cond'], inline=False)
            # a conjunction may add further requirements to the residual test (e.g. the orthonormality of the iterate)
            conj = [c]
            while any(x_[0] == '&&' for x_ in conj):
                conj = [y_ for x_ in conj for y_ in (x_[1:] if x_[0] == '&&' else [x_])]
            hits_ = [x_ for x_ in conj if x_[0] == '==' and ('lit', '0') in x_ and any(isinstance(a, tuple) and a[0] == 'L' for a in x_[1:])]
            c = hits_[0] if hits_ else c
            if not (c[0] == '==' and ('lit', '0') in c and any(isinstance(a, tuple) and a[0] == 'L' for a in c[1:])):
                problems.append('Success is assigned under `%s`, not under block size == 0' % comp.s(guard['cond']))
            else:
                bs = [a for a in c[1:] if isinstance(a, tuple) and a[0] == 'L'][0]
                # the reaching definition of the block size at the guard is a convergence test whose argument is RES
                defs = [x for x in comp.walk() if x['k'] == 'BinaryOperator' and x.get('op') == '=' and sym(comp, x['c'][0], inline=False) == bs]
                good = [d for d in defs if any(c2['id'] in set(y['id'] for y in comp.walk(d)) for c2 in checks)]
                bad = [d for d in defs if d not in good]
                gids = set(d['id'] for d in good)
                hit = paths.search(comp, [comp.pos_of(d) for d in bad], stop=lambda n: n['id'] in gids,
                                   target=lambda n, g=guard: comp.within(n, g['cond'])) if bad else None
                hit2 = paths.search(comp, [], stop=lambda n: n['id'] in gids, target=lambda n, g=guard: comp.within(n, g['cond']), include_entry=True)
                if hit is not None or hit2 is not None:
                    problems.append('the tested block size does not always come from the convergence test')
                def reaches(d):
                    others = set(o['id'] for o in defs if o['id'] != d['id'])
                    return paths.search(comp, [comp.pos_of(d)], stop=lambda n: n['id'] in others,
                                        target=lambda n, g=guard: comp.within(n, g['cond'])) is not None
                for d in [d for d in good if reaches(d)]:
                    call = [c2 for c2 in checks if comp.within(c2, d)][0]
                    a0 = sym(comp, comp.call_args(call)[0], inline=False)
                    if a0 != ('F', RES):
                        problems.append('convergence test applied to %s, not to the residual field' % show(a0))
                    # between the last recomputation of the residuals and this test nothing else writes RES / X / values
                    writers = set()
                    fe = ctx.E.of(comp)
                    for acc in fe.accesses:
                        if acc.mode == 'w' and acc.path in ((RES,), (X,)):
                            n = comp.nodes[acc.node]
                            if not any(comp.within(n, lp) for lp, _, _ in recomputes) and not comp.within(n, call):
                                writers.add(acc.node)
                    writers |= helper_writer
                    rec_assign = set(x['id'] for _, x, _ in recomputes) | helper_fresh
                    # a resize of the residual field to (n, k) followed by the loop over [0, k) rewrites every column: the resize
                    # itself is the point after which nothing stale survives (also when k = 0 and the loop body never runs)
                    for x in comp.walk():
                        if x['k'] == 'CXXMemberCallExpr' and x.get('callee') == 'resize' and comp.root_of(comp.call_object(x)) == ('field', RES):
                            t = sym(comp, x, inline=False)
                            if len(t) == 4 and any(t[3] == lp_t[2] for lp_t in [loop_range(comp, lp) for lp, _, _ in recomputes] if lp_t):
                                rec_assign.add(x['id'])
                                writers.discard(x['id'])
                    starts = [comp.pos_of(w) for w in writers if comp.pos_of(w)]
                    hit3 = paths.search(comp, starts, stop=lambda n: n['id'] in rec_assign, target=lambda n, call=call: n['id'] == call['id'])
                    if hit3 is not None:
                        problems.append('the residuals tested can be stale or preconditioned: ' + ' -> '.join(hit3[-2:]))
        ctx.check(not problems, rule, 'LOBPCGSolver::compute#success%d' % (k + 1), comp.qname,
                  'Success only when the convergence test on freshly recomputed residuals returned 0' if not problems else '; '.join(problems))
    # the status at exit is one assigned by THIS call: every path through compute() assigns the status field (compute() may be
    # called again on the same object -- X is a member and the next call continues from it -- and a Success left behind by an
    # earlier call must not survive a call whose own final test failed)
    assigns = set(x['id'] for x in comp.walk() if x['k'] in ('BinaryOperator', 'CXXOperatorCallExpr') and x.get('op') == '=' and
                  sym(comp, x, inline=False)[1] == ('F', info))
    hit = paths.search(comp, [], stop=lambda n: n['id'] in assigns, target=lambda n: False, include_entry=True, exit_is_target=lambda b: True, normal_only=True)
    ctx.check(hit is None, rule, 'LOBPCGSolver::compute#status-of-this-call', comp.qname,
              'every path through compute() assigns the status (%d assignments)' % len(assigns) if hit is None else
              'a path through compute() assigns no status: info() keeps the value an earlier compute() on the same object left behind, so a call whose final residual '
              'test failed can still report Success', path=hit)
    # constructor starts non-success
    ctor = [f for f in ctx.F.concrete() if f.cls == 'Spectra::LOBPCGSolver' and f.d.get('ctor')]
    for c in ctor:
        ini = [i for i in c.inits if i['member'] == info]
        v = show(sym(c, ini[0]['expr'], inline=False)) if ini else None
        ctx.check(v is not None and v != 'Success', rule, 'LOBPCGSolver::ctor', c.qname,
                  'status starts as %s' % v if v and v != 'Success' else 'status is not initialised to a non-success value')
    # convergence test: a column leaves the active block iff its norm is below the tolerance; the criterion may be written on
    # the norm (sqrt(sum of squares) / norm() < t) or on the squared norm (squaredNorm() < t), and EVERY call site must pass
    # tol*n resp. (tol*n)^2 accordingly (sibling agreement of the call sites with the callee's unit)
    cc = M.get('checkConvergence_getBlocksize')
    unit = None
    for i in [i for i in cc.walk() if i['k'] == 'IfStmt']:
        c = sym(cc, i['cond'])          # single-definition locals inlined
        c0 = sym(cc, i['cond'], inline=False)
        if c0[0] == '<' and c0[2][0] == 'P' and any(x['k'] == 'UnaryOperator' and x.get('op') == '--' for x in cc.walk(i['then'])):
            lhs = c0[1]
            txt = show(lhs)
            if lhs[0] == 'call' and lhs[1] == 'sqrt' or txt.startswith('norm('):
                unit = ('norm', c0[2][1])
            else:
                # what is `sum`?  look at its assignments
                srcs = [show(sym(cc, x, inline=False)[2]) for x in cc.walk() if x['k'] in ('BinaryOperator', 'CompoundAssignOperator', 'CXXOperatorCallExpr') and
                        x.get('op') in ('=', '+=') and sym(cc, x, inline=False)[1] == lhs]
                if any('squaredNorm' in s_ or '*' in s_ for s_ in srcs) or 'squaredNorm' in txt:
                    unit = ('squared', c0[2][1])
    # the verdict is a function of the residuals and the tolerance handed over by THIS call alone: every change of the
    # returned count lies under the norm criterion, and the function reads no mutable state of the solver object
    # (a column "locked" by an earlier iteration or an earlier compute() must not be counted without looking at its residual)
    rets = [sym(cc, r['value'], inline=False) for r in cc.walk() if r['k'] == 'ReturnStmt' and r.get('value', -1) >= 0]
    crit = [i for i in cc.walk() if i['k'] == 'IfStmt' and sym(cc, i['cond'], inline=False)[0] == '<' and sym(cc, i['cond'], inline=False)[2][0] == 'P']
    if len(set(rets)) == 1 and rets[0][0] == 'L' and len(crit) == 1:
        cnt = rets[0]
        stray = []
        for x in cc.walk():
            w = None
            if x['k'] == 'UnaryOperator' and x.get('op') in ('--', '++'):
                w = sym(cc, x['c'][0], inline=False)
            elif x['k'] in ('BinaryOperator', 'CompoundAssignOperator') and x.get('op') in ('=', '-=', '+='):
                w = sym(cc, x['c'][0], inline=False)
            if w == cnt and not cc.within(x, crit[0]['then']):
                stray.append('%s at %s' % (cc.s(x)[:30], cc.loc(x)))
        rec_ = [r for r in ctx.F.records.values() if r['qname'] == cc.record and not r['dep']][0]
        const_f = set(f['name'] for f in rec_['fields'] if f.get('const'))
        state = sorted(set(p_[0] for p_ in ctx.E.may_read(cc) if p_ and p_[0] not in const_f and not p_[0].startswith('%')))
        ctx.check(not stray and not state, rule, 'LOBPCGSolver::checkConvergence_getBlocksize#verdict', cc.qname,
                  'the returned count changes only under the norm criterion and the function reads no mutable field of the solver' if not stray and not state else
                  '; '.join((['the returned count is also changed outside the norm criterion: ' + ', '.join(stray)] if stray else []) +
                            (['the verdict depends on solver state %s that survives iterations and compute() calls' % state] if state else [])) +
                  ': a column can be counted as converged without its current residual being tested, so Success can be reported with residual norms above the tolerance of this call')
    else:
        raise AnalysisBroken('LOBPCG convergence function: returned count / criterion not identified (%s, %d criteria)' % (sorted(set(map(show, rets))), len(crit)))
    if unit is None:
        ctx.fail(rule, 'LOBPCGSolver::checkConvergence_getBlocksize', cc.qname, 'convergence criterion not recognised (neither norm < t nor squared norm < t)')
    else:
        pidx = [cc.locals[v]['name'] for v in cc.params].index(unit[1])
        # tolerance definition in compute(): T = tol_per_n * n
        pn = [comp.locals[v]['name'] for v in comp.params]
        problems = []
        for call in checks:
            a = sym(comp, comp.call_args(call)[pidx])
            def is_T(t):
                return isinstance(t, tuple) and t[0] == '*' and len(t) == 3 and {t[1], t[2]} == {('P', pn[1]), ('F', 'm_n')}
            if unit[0] == 'norm':
                good = is_T(a)
            else:
                good = isinstance(a, tuple) and a[0] == '*' and len(a) == 3 and is_T(a[1]) and is_T(a[2])
            if not good:
                problems.append('call at %s passes %s to a test on the %s' % (comp.loc(call), show(a), 'norm' if unit[0] == 'norm' else 'squared norm'))
        ctx.check(not problems, rule, 'LOBPCGSolver::checkConvergence_getBlocksize', cc.qname,
                  'criterion on the %s; all %d call sites pass %s' % (unit[0] + (' norm' if unit[0] == 'squared' else ''), len(checks), 'tol*n' if unit[0] == 'norm' else '(tol*n)^2')
                  if not problems else '; '.join(problems))
    # every Rayleigh-Ritz assignment of the values is followed by the ascending sort before the next use
    sorts = [x for x in comp.walk() if x['k'] == 'CXXMemberCallExpr' and x.get('callee') == 'sort_epairs']
    sids = set(x['id'] for x in sorts)
    okrule = all(sym(comp, comp.call_args(s)[2], inline=False) == ('enum', 'SmallestAlge') for s in sorts) and len(sorts) >= 2
    evw = [x for x in comp.walk() if x['k'] in ('CXXOperatorCallExpr', 'BinaryOperator') and x.get('op') == '=' and sym(comp, x, inline=False)[1][0] == 'F' and
           sym(comp, x, inline=False)[2][0] == 'eigenvalues']
    for w in evw:
        fld = sym(comp, w, inline=False)[1]
        uses = lambda n, w=w, fld=fld: n['k'] == 'MemberExpr' and n.get('member') == fld[1] and not comp.within(n, w) and \
            not any(comp.within(n, s) for s in sorts)
        hit = paths.search(comp, [comp.pos_of(w)], stop=lambda n: n['id'] in sids, target=uses)
        if hit is not None:
            okrule = False
    ctx.check(okrule, rule, 'LOBPCGSolver::compute#sort', comp.qname,
              'Rayleigh-Ritz pairs are sorted ascending (SmallestAlge) before any use' if okrule else 'pairs used before / without the ascending sort')


def run(ctx):
    X, RES = returned_objects(ctx)
    success_discipline(ctx, X, RES)
    factor_accessors_match_ordering(ctx)
    success_requires_orthonormal_iterate(ctx, X)
    pivots_positive_before_sqrt(ctx)
    cached_products_follow_iterate(ctx, X)


def factor_accessors_match_ordering(ctx, rule='sparse-factors-used-with-their-ordering'):
    """Eigen's Simplicial* decompositions factorize P A P' with a fill-reducing permutation P (AMD by default).  matrixU(),
    matrixL() and vectorD() are the factors of the PERMUTED matrix: a consumer that uses them as factors of A itself must either
    apply permutationP() / permutationPinv() or request the natural ordering.  AMD returns the identity for a structurally dense
    Gram matrix, which hides the omission for dense start blocks; for a sparse block M, M'BM has structural zeros and the
    B-orthonormalisation silently returns a non-orthonormal block (|X'X - I| = 0.65 after the first call)."""
    n = 0
    seen = set()
    for fn in ctx.F.concrete():
        if fn.cls != 'Spectra::LOBPCGSolver' or not fn.cfg or fn.name in seen:
            continue
        decs = {v: l for v, l in fn.locals.items() if l['type'].startswith(('Eigen::SimplicialLDLT', 'Eigen::SimplicialLLT', 'Eigen::SimplicialCholesky'))}
        if not decs:
            continue
        seen.add(fn.name)
        for v, l in decs.items():
            calls = {}
            for x in fn.walk():
                if x['k'] == 'CXXMemberCallExpr' and x.get('callee') in ('matrixU', 'matrixL', 'vectorD', 'permutationP', 'permutationPinv'):
                    obj = [y for y in fn.walk(x) if y['k'] == 'DeclRefExpr' and y.get('var') == v]
                    if obj:
                        calls.setdefault(x['callee'], []).append(x)
            raw = [c for c in ('matrixU', 'matrixL', 'vectorD') if c in calls]
            if not raw:
                continue
            n += 1
            natural = 'NaturalOrdering' in l['type']
            permuted = 'permutationP' in calls or 'permutationPinv' in calls
            ok = natural or permuted
            ctx.check(ok, rule, 'LOBPCGSolver::%s/%s' % (fn.name, l['name']), fn.qname,
                      '%s of %s are used %s' % (', '.join(raw), l['name'], 'with the natural ordering requested in the type' if natural else 'together with its permutation') if ok else
                      '%s of `%s` (%s: fill-reducing ordering) are used as factors of the matrix itself, its permutation is never applied: for a Gram matrix with structural zeros '
                      '(sparse start block) the block is not B-orthonormal afterwards and Success is reported with spurious eigenvalues' % (', '.join(raw), l['name'], l['type'].split('<')[0]))
    if n < 1:
        raise AnalysisBroken('no sparse decomposition whose factors are read found in LOBPCGSolver (orthogonalizeInPlace confirmed)')


def success_requires_orthonormal_iterate(ctx, X, rule='success-requires-a-b-orthonormal-iterate'):
    """The residual test is built on the columns of X as they are: X is updated by the Rayleigh-Ritz coefficients and never
    orthonormalised again, the Gram matrix assumes identity blocks, the Cholesky status of the small problem is not looked at.
    With an ill-conditioned basis [X R D] the columns of X lose their norm (to 2e-4, 6e-10, exactly 0): a zero column has a zero
    residual and `Success` is reported with eigenvalues 0 for a positive definite matrix.  Every assignment of Success must be
    control dependent on a test of X'(BX) against the identity (directly or through a member whose returned value is such a test)."""
    M = _cls(ctx)
    comp = M['compute']
    succ = [x for x in comp.walk() if x['k'] in ('BinaryOperator', 'CXXOperatorCallExpr') and x.get('op') == '=' and
            sym(comp, x, inline=False)[1] == ('F', 'm_info') and 'Success' in show(sym(comp, x, inline=False)[2]) and 'info(' not in show(sym(comp, x, inline=False)[2])]
    if not succ:
        raise AnalysisBroken('no assignment of Success in LOBPCGSolver::compute')

    def is_gram_test(t):
        s_ = show(t)
        return 'transpose(' in s_ and 'Identity' in s_ and any(op in s_ for op in ('<=', '<')) and '*' in s_

    for a in succ:
        ifs = [i for i in comp.ancestors(a) if i['k'] == 'IfStmt' and comp.within(a, i['then'])]
        conds = [sym(comp, i['cond']) for i in ifs]
        ok = any(is_gram_test(c) for c in conds)
        # the test must be about the iterate block and its B-image
        names = ' '.join(show(c) for c in conds)
        ok = ok and any(x_ in names for x_ in X)
        if not ok:
            # ... or a member whose returned value is such a test of its first two arguments, called on the iterate block
            for i in ifs:
                for call in comp.walk(i['cond']):
                    if call['k'] != 'CXXMemberCallExpr' or call.get('cls') != 'Spectra::LOBPCGSolver':
                        continue
                    h = M.get(call.get('callee'))
                    if h is None or not h.cfg:
                        continue
                    rets = [sym(h, r['value']) for r in h.walk() if r['k'] == 'ReturnStmt']
                    pn = [h.locals[v]['name'] for v in h.params]
                    args = [show(sym(comp, x_, inline=False)) for x_ in comp.call_args(call)]
                    if rets and all(is_gram_test(r) and all(p_ in show(r) for p_ in pn[:2]) for r in rets) and any(x_ in args for x_ in X):
                        ok = True
        ctx.check(ok, rule, 'LOBPCGSolver::compute@%s' % comp.loc(a), comp.qname,
                  'Success is assigned only under `%s`' % ' && '.join(show(sym(comp, i['cond'], inline=False)) for i in comp.ancestors(a) if i['k'] == 'IfStmt')[:160] if ok else
                  'Success is assigned under %s only: nothing ties the verdict to the norm of the columns of the iterate, a column that collapsed to zero passes the residual test' %
                  ([show(sym(comp, i['cond'], inline=False)) for i in comp.ancestors(a) if i['k'] == 'IfStmt'] or 'no test'))


def pivots_positive_before_sqrt(ctx, rule='gram-pivots-tested-before-the-square-root'):
    """orthogonalizeInPlace takes the square roots of the LDLT pivots of M'BM through complex numbers and keeps the real part
    of the result: a negative pivot (M'BM singular up to rounding: the residual block has fewer independent directions than
    columns, e.g. when the invariant subspace that contains the start block is smaller than 3k) silently becomes an exact zero
    column, a rounding-level positive one a column of amplified noise.  The Gram matrix of the Rayleigh-Ritz step assumes
    R'BR = I, so the zero column produces a spurious Ritz value 0, which is selected (A positive definite), and the following
    iterations replace it by whatever Ritz value comes next: Success with {1, 2, 3, 4, 15} instead of {1, 2, 3, 4, 5}, X
    orthonormal, residuals below tolerance.  The square root must be taken only behind a test that the pivots are positive
    (relative to the largest one); the LDLT status alone says nothing (it reports Success for a singular matrix)."""
    M = _cls(ctx)
    fn = M.get('orthogonalizeInPlace')
    if fn is None or not fn.cfg:
        raise AnalysisBroken('LOBPCGSolver::orthogonalizeInPlace not analysed')
    roots = [x for x in fn.walk() if x['k'] == 'CXXMemberCallExpr' and x.get('callee') in ('cwiseSqrt', 'sqrt')]
    pivots = [x for x in fn.walk() if x['k'] == 'CXXMemberCallExpr' and x.get('callee') == 'vectorD']
    if not roots or not pivots:
        raise AnalysisBroken('orthogonalizeInPlace: pivot square root not found')
    tests = []
    for i in fn.walk():
        if i['k'] == 'IfStmt':
            t = show(sym(fn, i['cond']))
            if 'vectorD(' in t and any(op in t for op in ('<', '<=', '>', '>=')) and any(k in t for k in ('all(', 'any(', 'minCoeff(')):
                kids = fn.kids(fn.nodes[i['then']]) if fn.nodes[i['then']]['k'] == 'CompoundStmt' else [fn.nodes[i['then']]]
                if kids and kids[-1]['k'] == 'ReturnStmt':
                    tests.append(i)
    ok = bool(tests) and all(paths.dominated_by(fn, fn.pos_of(r), lambda n_: any(fn.within(n_, t_['cond']) for t_ in tests)) for r in roots if fn.pos_of(r))
    ctx.check(ok, rule, 'LOBPCGSolver::orthogonalizeInPlace', fn.qname,
              'the square roots of the pivots are taken only behind a positivity test that leaves with a failure status' if ok else
              'the square roots of the LDLT pivots (`%s`) are taken through complex numbers with no test of their sign or size, and the real part of the result is kept: a negative pivot '
              'becomes a zero column, the Rayleigh-Ritz step (which assumes R\'BR = I) gets a spurious Ritz value 0, and Success is later reported with an eigenvalue that is not among the k smallest' % fn.s(roots[0])[:40])


VALUE_CHANGING = ('prune', 'coeffRef', 'insert', 'insertBack', 'setZero', 'setIdentity', 'setFromTriplets', 'normalize', 'valuePtr', 'setConstant', 'fill')


def cached_products_follow_iterate(ctx, X, rule='cached-products-follow-the-iterate'):
    """The convergence verdict and residuals() are computed from the CACHED products AX, BX, never from A and B again; the
    property's residual identity is about A X and B X.  So AX = A X and BX = B X must be an invariant of compute(): after the
    initial products, (a) every assignment to the iterate X has, in the same statement list, sibling assignments to AX and BX
    whose right-hand sides are the same expression under a consistent renaming of blocks that sends X to AX (resp. BX) -- the
    same linear recombination applied to the images; (b) no other value-changing member call (prune, coefficient writes,
    scaling) touches X, AX or BX: entry-wise edits of the blocks applied independently break A X = AX even when each looks like
    numerical hygiene."""
    M = _cls(ctx)
    comp = M['compute']
    # the images: AX from `AX = A * X`; BX from `BX = B * X` or as the third argument of the orthogonalisation of X
    img = {}
    for x in comp.walk():
        if x['k'] in ('CXXOperatorCallExpr', 'BinaryOperator') and x.get('op') == '=':
            t = sym(comp, x, inline=False)
            if t[1][0] == 'L' and isinstance(t[2], tuple) and t[2][0] == '*' and len(t[2]) == 3 and t[2][2] == ('F', X) and t[2][1][0] in ('F', 'L'):
                img.setdefault('A' if 'A' in t[1][1] and 'B' not in t[1][1][:1] else 'B', t[1][1])
        if x['k'] in ('CXXMemberCallExpr', 'CallExpr') and x.get('callee') == 'orthogonalizeInPlace':
            a = comp.call_args(x)
            ts = [sym(comp, y, inline=False) for y in a]
            if ts and ts[0] == ('F', X) and len(ts) >= 3 and ts[2][0] == 'L':
                img['B'] = ts[2][1]
    if 'A' not in img or 'B' not in img:
        raise AnalysisBroken('LOBPCGSolver::compute: cached products of the iterate not identified (%s)' % img)
    trio = {('F', X): 'X', ('L', img['A']): 'AX', ('L', img['B']): 'BX'}
    # (b) value-changing member calls
    n = 0
    for x in comp.walk():
        if (x['k'] == 'CXXMemberCallExpr' and x.get('callee') in VALUE_CHANGING) or (x['k'] == 'CXXOperatorCallExpr' and x.get('op') in ('*=', '/=', '+=', '-=')):
            o = comp.call_object(x) if x['k'] == 'CXXMemberCallExpr' else (comp.call_args(x) or [None])[0]
            t = sym(comp, o, inline=False) if o is not None else None
            if t in trio:
                n += 1
                ctx.fail(rule, 'LOBPCGSolver::compute@%s.%s' % (trio[t], x.get('callee') or x.get('op')), comp.loc(x),
                         '`%s` edits %s entry-wise on its own: the cached products no longer equal A X / B X, while the convergence verdict and residuals() are '
                         'taken from them -- Success with residuals() below the tolerance and a true residual above it' % (comp.s(x['id'])[:50], trio[t]))

    # (a) sibling assignments
    def unify(a, b, mp):
        if isinstance(a, tuple) and isinstance(b, tuple) and a[0] in ('F', 'L') and b[0] in ('F', 'L') and len(a) == 2 and len(b) == 2:
            if mp.setdefault(a, b) != b:
                return False
            return True
        if isinstance(a, tuple) and isinstance(b, tuple):
            return len(a) == len(b) and a[0] == b[0] and all(unify(u, v, mp) for u, v in zip(a[1:], b[1:]))
        return a == b
    # all block assignments of compute(), by statement list
    assigns = []
    for x in comp.walk():
        if x['k'] in ('CXXOperatorCallExpr', 'BinaryOperator') and x.get('op') == '=':
            t = sym(comp, x, inline=False)
            if isinstance(t[1], tuple) and t[1][0] in ('F', 'L') and len(t[1]) == 2:
                par = [p for p in comp.ancestors(x) if p['k'] == 'CompoundStmt']
                assigns.append((par[0]['id'] if par else -1, t, x))
    opA = None
    for _, t, _x in assigns:
        if t[1] == ('L', img['A']) and t[2][0] == '*' and t[2][2] == ('F', X):
            opA = t[2][1]
    memo = {}
    # blocks produced together with their B-image by the orthogonalisation helper: orthogonalizeInPlace(P, B, BP)
    ortho_pairs = set()
    for x in comp.walk():
        if x['k'] in ('CXXMemberCallExpr', 'CallExpr') and x.get('callee') == 'orthogonalizeInPlace':
            ts = [sym(comp, y, inline=False) for y in comp.call_args(x)]
            if len(ts) >= 3:
                ortho_pairs.add((ts[0], ts[2]))

    def defined_as_image(p_, q_):
        return (p_, q_) in ortho_pairs or any(t[1] == q_ and t[2][0] == '*' and len(t[2]) == 3 and t[2][2] == p_ for _, t, _ in assigns)

    def is_coeff(k):
        return k[1].startswith(('sparse_', 'eVec', 'm_evectors'))

    def image_ok(p_, q_, which, depth=0):
        """q_ is maintained as the image of p_ under the operator `which` wherever p_ is assigned in compute()."""
        key = (p_, q_, which)
        if key in memo:
            return memo[key]
        memo[key] = True          # co-inductive: the pair may refer to itself (X = X * c + ..)
        if depth > 4:
            return True
        mine = [(g, t) for g, t, _ in assigns if t[1] == p_]
        ok = True
        if not mine:
            # never assigned here (a field computed elsewhere): q_ must be produced as  op * p_  somewhere
            ok = defined_as_image(p_, q_)
        for g, t in mine:
            if t[2][0] == '*' and len(t[2]) == 3 and t[2][1][0] in ('F', 'L') and not is_coeff(t[2][1]) and t[2][1] not in [a[1][1] for a in assigns]:
                pass
            found = False
            for g2, t2, _ in assigns:
                if g2 != g or t2[1] != q_:
                    continue
                mp = {}
                if not unify(t[2], t2[2], mp) or len(set(mp.values())) != len(mp):
                    continue
                good = True
                for k, v in mp.items():
                    if k == v:
                        good = good and (is_coeff(k) or k == opA)
                    else:
                        good = good and image_ok(k, v, which, depth + 1)
                if good:
                    found = True
            # `q = op * p` computed directly right after is the definition itself
            if not found and defined_as_image(p_, q_):
                found = True
            ok = ok and found
        memo[key] = ok
        return ok
    m = 0
    for g, t, x in assigns:
        if t[1] != ('F', X):
            continue
        if not (('F', X) in atoms(t[2])):
            continue
        m += 1
        probs = []
        memo.clear()
        for im, src in (('AX', ('L', img['A'])), ('BX', ('L', img['B']))):
            sibs = [t2 for g2, t2, _ in assigns if g2 == g and t2[1] == src]
            good = False
            for ts in sibs:
                mp = {}
                if unify(t[2], ts[2], mp) and mp.get(('F', X)) == src and len(set(mp.values())) == len(mp):
                    memo[(('F', X), src, im)] = True
                    if all((is_coeff(k) if k == v else image_ok(k, v, im)) for k, v in mp.items() if k != ('F', X)):
                        good = True
            if not good:
                probs.append('%s is not updated by the same recombination of image blocks (`%s`)' % (im, '; '.join(show(ts[2])[:50] for ts in sibs) or 'no assignment in this statement list'))
        ctx.check(not probs, rule, 'LOBPCGSolver::compute@X-update#%d' % m, comp.qname,
                  '`X = %s` with the same recombination applied to AX and BX' % show(t[2])[:50] if not probs else
                  '`X = %s` at %s: %s -- A X = AX is lost, the residual test works on products of another block' % (show(t[2])[:50], comp.loc(x), '; '.join(probs)))
    if m < 2:
        raise AnalysisBroken('only %d updates of the iterate found in LOBPCGSolver::compute (2 confirmed by hand)' % m)
    if n == 0:
        ctx.ok(rule, 'LOBPCGSolver::compute@in-place-edits', comp.qname, 'no value-changing member call on X, AX, BX')
