"""Interval abstract interpretation of a loop-free integer function body (path-sensitive over its if statements).

Used for the generator step function of C19: given an interval for the argument it returns the interval of the returned
value.  Arithmetic is that of 64-bit integers (LP64); an operation whose mathematical result could leave [0, 2^64) or
(-2^63, 2^63) makes the analysis give up (exit 2), never guess.  Transfer functions are exact for  +  -  *  >>  <<  on
non-negative intervals and precise for  x & (2^k - 1):
    hi(x) <= mask                      -> x
    2^k <= lo(x) and hi(x) < 2^(k+1)   -> [lo - 2^k, hi - 2^k]          (the single carry bit is removed)
    otherwise                          -> [0, min(hi, mask)]
"""
from .facts import AnalysisBroken

LIMIT = 2 ** 63


class Unsupported(AnalysisBroken):
    pass


def _chk(iv, fn, n):
    if iv[0] < -LIMIT or iv[1] >= 2 * LIMIT:
        raise Unsupported('possible 64-bit overflow at %s' % fn.loc(n))
    return iv


def ev(fn, n, env):
    n = fn.strip(n)
    k = n['k']
    if k == 'IntegerLiteral':
        v = int(n['val'])
        return (v, v)
    if k == 'DeclRefExpr':
        if 'var' in n:
            if n['var'] in env:
                return env[n['var']]
            if 'cval' in n:
                v = int(n['cval'])
                return (v, v)
            raise Unsupported('variable %s read before assignment at %s' % (n['name'], fn.loc(n)))
        if 'cval' in n:
            v = int(n['cval'])
            return (v, v)
    if 'cval' in n and k not in ('BinaryOperator',):
        v = int(n['cval'])
        return (v, v)
    if k == 'BinaryOperator':
        op = n['op']
        a = ev(fn, fn.nodes[n['c'][0]], env)
        b = ev(fn, fn.nodes[n['c'][1]], env)
        if op == '+':
            return _chk((a[0] + b[0], a[1] + b[1]), fn, n)
        if op == '-':
            r = (a[0] - b[1], a[1] - b[0])
            if r[0] < 0 and 'unsigned' in n.get('t', ''):
                raise Unsupported('unsigned subtraction may wrap at %s' % fn.loc(n))
            return _chk(r, fn, n)
        if op == '*':
            ps = [a[0] * b[0], a[0] * b[1], a[1] * b[0], a[1] * b[1]]
            return _chk((min(ps), max(ps)), fn, n)
        if op == '>>':
            if b[0] != b[1] or a[0] < 0:
                raise Unsupported('shift at %s' % fn.loc(n))
            return (a[0] >> b[0], a[1] >> b[0])
        if op == '<<':
            if b[0] != b[1] or a[0] < 0:
                raise Unsupported('shift at %s' % fn.loc(n))
            return _chk((a[0] << b[0], a[1] << b[0]), fn, n)
        if op == '&':
            for x, m in ((a, b), (b, a)):
                if m[0] == m[1] and m[0] >= 0 and (m[0] & (m[0] + 1)) == 0 and x[0] >= 0:
                    mask = m[0]
                    kbit = mask + 1
                    if x[1] <= mask:
                        return x
                    if x[0] >= kbit and x[1] < 2 * kbit:
                        return (x[0] - kbit, x[1] - kbit)
                    return (0, min(x[1], mask))
            raise Unsupported('bitwise and with a non-mask at %s' % fn.loc(n))
        if op == '%':
            if b[0] == b[1] and b[0] > 0 and a[0] >= 0:
                if a[1] < b[0]:
                    return a
                return (0, b[0] - 1)
            raise Unsupported('modulo at %s' % fn.loc(n))
        if op == '/':
            if b[0] == b[1] and b[0] > 0 and a[0] >= 0:
                return (a[0] // b[0], a[1] // b[0])
            raise Unsupported('division at %s' % fn.loc(n))
        if op == '|':
            if a[0] >= 0 and b[0] >= 0:
                hb = max(a[1], b[1]).bit_length()
                return (max(a[0], b[0]), (1 << hb) - 1)
        raise Unsupported('operator %s at %s' % (op, fn.loc(n)))
    if k == 'ConditionalOperator':
        c = n['c']
        outs = []
        for truth, br in ((True, c[1]), (False, c[2])):
            e2 = refine(fn, fn.nodes[c[0]], dict(env), truth)
            if e2 is not None:
                outs.append(ev(fn, fn.nodes[br], e2))
        if not outs:
            raise Unsupported('infeasible conditional at %s' % fn.loc(n))
        return (min(o[0] for o in outs), max(o[1] for o in outs))
    if k == 'UnaryOperator' and n.get('op') == '-':
        a = ev(fn, fn.nodes[n['c'][0]], env)
        return (-a[1], -a[0])
    raise Unsupported('expression kind %s at %s' % (k, fn.loc(n)))


def _lhs_var(fn, n):
    n = fn.strip(n)
    if n['k'] == 'DeclRefExpr' and 'var' in n:
        return n['var']
    raise Unsupported('assignment target at %s' % fn.loc(n))


def refine(fn, cond, env, truth):
    """env refined by cond == truth, or None if infeasible.  Supports var <op> expr comparisons and !, &&, ||."""
    n = fn.strip(cond)
    k = n['k']
    if k == 'UnaryOperator' and n.get('op') == '!':
        return refine(fn, fn.nodes[n['c'][0]], env, not truth)
    if k == 'BinaryOperator' and n['op'] in ('<', '<=', '>', '>=', '==', '!='):
        op = n['op']
        if not truth:
            op = {'<': '>=', '<=': '>', '>': '<=', '>=': '<', '==': '!=', '!=': '=='}[op]
        l, r = fn.strip(fn.nodes[n['c'][0]]), fn.strip(fn.nodes[n['c'][1]])
        a, b = ev(fn, l, env), ev(fn, r, env)
        # refine the left operand if it is a variable (and symmetrically the right one)
        def clip(iv, lo=None, hi=None):
            lo2 = iv[0] if lo is None else max(iv[0], lo)
            hi2 = iv[1] if hi is None else min(iv[1], hi)
            return None if lo2 > hi2 else (lo2, hi2)
        na, nb = a, b
        if op == '<':
            na, nb = clip(a, hi=b[1] - 1), clip(b, lo=a[0] + 1)
        elif op == '<=':
            na, nb = clip(a, hi=b[1]), clip(b, lo=a[0])
        elif op == '>':
            na, nb = clip(a, lo=b[0] + 1), clip(b, hi=a[1] - 1)
        elif op == '>=':
            na, nb = clip(a, lo=b[0]), clip(b, hi=a[1])
        elif op == '==':
            na = nb = clip(a, lo=b[0], hi=b[1])
        elif op == '!=':
            if a[0] == a[1] == b[0] == b[1]:
                return None
        if na is None or nb is None:
            return None
        if l['k'] == 'DeclRefExpr' and 'var' in l and l['var'] in env:
            env[l['var']] = na
        if r['k'] == 'DeclRefExpr' and 'var' in r and r['var'] in env:
            env[r['var']] = nb
        return env
    if k == 'BinaryOperator' and n['op'] == '&&' and truth:
        e = refine(fn, fn.nodes[n['c'][0]], env, True)
        return None if e is None else refine(fn, fn.nodes[n['c'][1]], e, True)
    if k == 'BinaryOperator' and n['op'] == '||' and not truth:
        e = refine(fn, fn.nodes[n['c'][0]], env, False)
        return None if e is None else refine(fn, fn.nodes[n['c'][1]], e, False)
    # no refinement (sound)
    return env


def run_stmt(fn, n, envs, rets):
    """envs: list of environments (one per feasible path so far); returns the list after statement n."""
    k = n['k']
    if k == 'CompoundStmt':
        for c in fn.kids(n):
            envs = run_stmt(fn, c, envs, rets)
        return envs
    if k == 'DeclStmt':
        out = []
        for env in envs:
            env = dict(env)
            for d in n.get('decls', []):
                if 'var' in d and 'init' in d:
                    env[d['var']] = ev(fn, fn.nodes[d['init']], env)
            out.append(env)
        return out
    if k in ('BinaryOperator', 'CompoundAssignOperator') and n.get('op', '') in ('=', '+=', '-=', '*=', '&=', '>>=', '<<=', '|=', '%=', '/='):
        out = []
        for env in envs:
            env = dict(env)
            v = _lhs_var(fn, fn.nodes[n['c'][0]])
            if n['op'] == '=':
                env[v] = ev(fn, fn.nodes[n['c'][1]], env)
            else:
                fake = {'k': 'BinaryOperator', 'op': n['op'][:-1], 'c': n['c'], 'id': n['id'], 't': n.get('t', ''), 'l': n.get('l', 0)}
                # evaluate lhs op rhs with the same evaluator
                a = ev(fn, fn.nodes[n['c'][0]], env)
                tmp_nodes = fn.nodes
                env[v] = _binop(fn, n, n['op'][:-1], a, ev(fn, fn.nodes[n['c'][1]], env))
            out.append(env)
        return out
    if k == 'UnaryOperator' and n.get('op') in ('++', '--'):
        out = []
        for env in envs:
            env = dict(env)
            v = _lhs_var(fn, fn.nodes[n['c'][0]])
            d = 1 if n['op'] == '++' else -1
            env[v] = _chk((env[v][0] + d, env[v][1] + d), fn, n)
            out.append(env)
        return out
    if k == 'IfStmt':
        out = []
        for env in envs:
            et = refine(fn, fn.nodes[n['cond']], dict(env), True)
            ef = refine(fn, fn.nodes[n['cond']], dict(env), False)
            if et is not None:
                out += run_stmt(fn, fn.nodes[n['then']], [et], rets)
            if ef is not None:
                if n.get('else', -1) >= 0:
                    out += run_stmt(fn, fn.nodes[n['else']], [ef], rets)
                else:
                    out.append(ef)
        return out
    if k == 'ReturnStmt':
        for env in envs:
            rets.append(ev(fn, fn.nodes[n['value']], env))
        return []
    if k in ('NullStmt',):
        return envs
    if k in ('ExprWithCleanups', 'ImplicitCastExpr', 'ParenExpr'):
        return run_stmt(fn, fn.nodes[n['c'][0]], envs, rets)
    raise Unsupported('statement kind %s at %s' % (k, fn.loc(n)))


def _binop(fn, n, op, a, b):
    fake_env = {}
    # reuse ev's arithmetic through a tiny shim
    class _N(dict):
        pass
    if op == '+':
        return _chk((a[0] + b[0], a[1] + b[1]), fn, n)
    if op == '-':
        return _chk((a[0] - b[1], a[1] - b[0]), fn, n)
    if op == '*':
        ps = [a[0] * b[0], a[0] * b[1], a[1] * b[0], a[1] * b[1]]
        return _chk((min(ps), max(ps)), fn, n)
    if op == '&':
        for x, m in ((a, b), (b, a)):
            if m[0] == m[1] and m[0] >= 0 and (m[0] & (m[0] + 1)) == 0 and x[0] >= 0:
                mask = m[0]
                kbit = mask + 1
                if x[1] <= mask:
                    return x
                if x[0] >= kbit and x[1] < 2 * kbit:
                    return (x[0] - kbit, x[1] - kbit)
                return (0, min(x[1], mask))
        raise Unsupported('bitwise and with a non-mask at %s' % fn.loc(n))
    if op == '>>' and b[0] == b[1] and a[0] >= 0:
        return (a[0] >> b[0], a[1] >> b[0])
    if op == '<<' and b[0] == b[1] and a[0] >= 0:
        return _chk((a[0] << b[0], a[1] << b[0]), fn, n)
    raise Unsupported('compound operator %s= at %s' % (op, fn.loc(n)))


def result_range(fn, arg_ranges):
    """Interval of the value returned by the loop-free function fn when its parameters lie in arg_ranges (list of (lo, hi))."""
    for x in fn.walk():
        if x['k'] in ('ForStmt', 'WhileStmt', 'DoStmt', 'GotoStmt', 'SwitchStmt'):
            raise Unsupported('%s contains %s: interval interpretation supports loop-free bodies only' % (fn.qname, x['k']))
        if x['k'] in ('CallExpr', 'CXXMemberCallExpr') :
            raise Unsupported('%s calls a function' % fn.qname)
    env = {v: r for v, r in zip(fn.params, arg_ranges)}
    rets = []
    run_stmt(fn, fn.nodes[fn.body], [env], rets)
    if not rets:
        raise Unsupported('%s: no return reached' % fn.qname)
    return (min(r[0] for r in rets), max(r[1] for r in rets)), len(rets)
