"""Loop-carried buffers: a dense local buffer declared outside a loop, refreshed (overwritten as a whole) somewhere inside the
loop and read inside the loop, must be refreshed on EVERY path from the start of an iteration to each read -- otherwise an
iteration can observe the value left by an earlier iteration (stale data chosen by a runtime condition)."""
from .facts import AnalysisBroken
from . import paths

DENSE = ('Eigen::Matrix<', 'Eigen::Array<')
# (function qualified-name prefix, variable) -> reason, for deliberate carry-over confirmed by reading
CARRIED_ON_PURPOSE = {}


def _dense(t):
    t = t[6:] if t.startswith('const ') else t
    return t.startswith(DENSE) and not t.endswith('&') and not t.endswith('*')


def loop_buffers(ctx, rule='loop-buffer-refreshed-before-read', scope=None, min_instances=0):
    n = 0
    ctl = 0
    for fn in list(ctx.C.functions) + list(ctx.F.concrete()):
        control = fn.qname.startswith('SpectraControl::stale_buffer')
        if not control:
            if not fn.cfg or not fn.qname.startswith('Spectra::'):
                continue
            if scope is not None and not scope(fn):
                continue
        loops = [x for x in fn.walk() if x['k'] in ('ForStmt', 'WhileStmt', 'DoStmt')]
        if not loops:
            continue
        fe = ctx.E.of(fn)
        byvar = {}
        for a in fe.accesses:
            if a.path and a.path[0] == '%local' and len(a.path) == 2:
                byvar.setdefault(a.path[1], []).append(a)
        # output buffers of operator applications: V.data() as the last argument of perform_op / solve-like members
        outkill = {}
        inread = set()
        for c in fn.walk():
            if c['k'] == 'CXXMemberCallExpr' and c.get('callee') == 'perform_op':
                args = fn.call_args(c)
                if len(args) == 2:
                    o = fn.strip(args[1])
                    if o is not None and o['k'] == 'CXXMemberCallExpr' and o.get('callee') == 'data':
                        ob = fn.strip(fn.call_object(o)) if fn.call_object(o) is not None else None
                        if ob is not None and ob['k'] == 'DeclRefExpr' and 'var' in ob:
                            outkill.setdefault(ob['var'], []).append(c['id'])
        for v, accs in byvar.items():
            loc = fn.locals.get(v)
            if loc is None or not _dense(loc.get('type', '')) or v in fn.params:
                continue
            decl = loc.get('decl')
            for lp in loops:
                body = lp['body']
                if decl is not None and decl >= 0 and fn.within(fn.nodes[decl], body):
                    continue
                kills = [a.node for a in accs if a.mode == 'w' and a.whole and fn.within(fn.nodes[a.node], body)]
                kills += [k for k in outkill.get(v, []) if fn.within(fn.nodes[k], body)]
                if not kills:
                    continue
                reads = [a for a in accs if a.mode == 'r' and fn.within(fn.nodes[a.node], body)]
                # reads that are the output-buffer hand-over itself are not reads
                reads = [a for a in reads if not any(fn.within(fn.nodes[a.node], k) or a.node == k for k in outkill.get(v, []))
                         or any(_is_input_arg(fn, a.node, k, v) for k in outkill.get(v, []))]
                if not reads:
                    continue
                # accumulators (the refreshed value is computed from the old one) carry state by design
                if any(a.node in kills for a in reads):
                    continue
                kset = set(kills)
                start = fn.pos_of(fn.nodes[lp['cond']]) if lp.get('cond', -1) is not None and lp.get('cond', -1) >= 0 else None
                if start is None:
                    continue
                bad = None
                for a in reads:
                    rid = a.node
                    hit = paths.search(fn, [start], stop=lambda m: m['id'] in kset, target=lambda m, rid=rid: m['id'] == rid)
                    if hit is not None:
                        bad = a
                        break
                if control:
                    ctl += 1 if bad is not None else 0
                    continue
                n += 1
                name = loc['name']
                key = (fn.tmpl_qname if hasattr(fn, 'tmpl_qname') else fn.qname, name)
                inst = '%s::%s/%s' % (fn.cls.replace('Spectra::', '') if fn.cls else '', fn.name, name)
                if bad is not None and any(fn.qname.startswith(k[0]) and k[1] == name for k in CARRIED_ON_PURPOSE):
                    ctx.ok(rule, inst, fn.qname, 'carried over on purpose: ' + [r for k, r in CARRIED_ON_PURPOSE.items() if fn.qname.startswith(k[0]) and k[1] == name][0])
                    continue
                ctx.check(bad is None, rule, inst, fn.qname,
                          'buffer %s is overwritten as a whole on every path from the start of an iteration to each of its %d reads in the loop' % (name, len(reads))
                          if bad is None else
                          'buffer %s is refreshed inside the loop only on some paths: `%s` can read the value left by an earlier iteration' % (name, fn.s(bad.node)[:70]))
    if ctl < 1:
        raise AnalysisBroken('loop-buffer rule: positive control not matched')
    if n < min_instances:
        raise AnalysisBroken('only %d loop-carried buffers analysed (expected >= %d)' % (n, min_instances))
    return n


def _is_input_arg(fn, node, call, v):
    """the access node is the FIRST (input) argument of the operator application `call`"""
    args = fn.call_args(fn.nodes[call])
    return len(args) == 2 and (fn.within(fn.nodes[node], args[0]['id']) or node == args[0]['id'])
