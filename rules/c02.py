"""C02 -- general (nonsymmetric) solvers return only genuine unit-norm eigenpairs (structural clauses)."""
from . import eigsbase, shiftsolvers

EXPLANATION = (
    'Static analysis of the instantiated GenEigsBase family (clang AST + CFG, all paths, all analysed instantiations). '
    'Decides the same structural clauses as C01 on the general base: flag freshness at every consumer, fresh count, coherent '
    'permutation (final sort and retrieve_ritzpair), documented form of the convergence test, accessor selection and '
    'V*(selected vectors), and for the real- / complex-shift solvers that the first nev Ritz values are transformed back to '
    'the spectrum of A before the base sort on every normal path and not touched afterwards; every subscript of the Ritz arrays '
    '(restart shift loop with its conjugate-pair look-ahead, nev_adjusted, complex-shift back-transformation) is within the '
    'array for all sizes (zone analysis shared with C13); every work buffer of the back-transformation loops that is refreshed inside the loop is refreshed on every path from the start of an iteration to each read (no Ritz pair is tested against the previous pair\'s solve). Necessary conditions on the factorization the Ritz pairs come from are shared with C07: the sub-diagonal entry is zero '
    'exactly on breakdown paths, and the factorization is resumed at its own dimension on every init() / compute() history. Every reader of the stored Ritz values / estimates / vectors in compute() is preceded on every path from entry by the member that rebuilds them from H under the selection rule of this call (a compute() that follows another compute() never works on the re-ordered, possibly back-transformed values the earlier call left). Does NOT decide residuals, '
    'unit norm, the choice of root in the complex-shift back-transformation or distinctness of pairs.')
ASSUMPTIONS = ['Eigen kernels and std::sort are correct', 'instantiations listed in drivers/ are representative of every OpType']
BASE = 'Spectra::GenEigsBase'


def run(ctx):
    from . import factorization as fz
    fz.resumed_at_own_dimension(ctx, BASE)
    fz.subdiagonal_on_breakdown(ctx)
    eigsbase.flag_freshness(ctx, BASE)
    eigsbase.ritz_data_of_current_call(ctx, BASE)
    eigsbase.coherent_permutation(ctx, BASE)
    eigsbase.coherent_retrieve(ctx, BASE)
    eigsbase.convergence_test_shape(ctx, BASE)
    eigsbase.accessor_agreement(ctx, BASE)
    shiftsolvers.backtransform_before_sort(ctx, BASE, 2)
    shiftsolvers.shifted_classes_override(ctx, BASE)
    from . import c13
    c13.index_ranges(ctx, bases=('Spectra::GenEigsBase',), floor=60)
    from . import stale
    stale.loop_buffers(ctx, scope=lambda fn: (fn.cls or '').startswith('Spectra::GenEigs'), min_instances=4)
    ctx.require('flags-fresh-at-use', 3)
    ctx.require('coherent-permutation', 3)
    ctx.require('backtransform-then-base-sort', 2)
