"""C02 -- general (nonsymmetric) solvers return only genuine unit-norm eigenpairs (structural clauses)."""
from . import eigsbase

EXPLANATION = ('placeholder')
ASSUMPTIONS = []
BASE = 'Spectra::GenEigsBase'


def run(ctx):
    eigsbase.flag_freshness(ctx, BASE)
    eigsbase.coherent_permutation(ctx, BASE)
    eigsbase.coherent_retrieve(ctx, BASE)
    eigsbase.convergence_test_shape(ctx, BASE)
