"""C02 -- general (nonsymmetric) solvers return only genuine unit-norm eigenpairs (structural clauses)."""
from . import eigsbase, shiftsolvers

EXPLANATION = (
    'Static analysis of the instantiated GenEigsBase family (clang AST + CFG, all paths, all analysed instantiations). '
    'Decides the same structural clauses as C01 on the general base: flag freshness at every consumer, fresh count, coherent '
    'permutation (final sort and retrieve_ritzpair), documented form of the convergence test, accessor selection and '
    'V*(selected vectors), and for the real- / complex-shift solvers that the first nev Ritz values are transformed back to '
    'the spectrum of A before the base sort on every normal path and not touched afterwards; every subscript of the Ritz arrays '
    '(restart shift loop with its conjugate-pair look-ahead, nev_adjusted, complex-shift back-transformation) is within the '
    'array for all sizes (zone analysis shared with C13); every work buffer of the back-transformation loops that is refreshed inside the loop is refreshed on every path from the start of an iteration to each read (no Ritz pair is tested against the previous pair\'s solve). Necessary conditions on the factorization the Ritz pairs come from are shared with C07: the sub-diagonal entry is zero '
    'exactly on breakdown paths, and the factorization is resumed at its own dimension on every init() / compute() history. Every reader of the stored Ritz values / estimates / vectors in compute() is preceded on every path from entry by the member that rebuilds them from H under the selection rule of this call (a compute() that follows another compute() never works on the re-ordered, possibly back-transformed values the earlier call left). Does NOT decide residuals, '
    'unit norm, the choice of root in the complex-shift back-transformation or distinctness of pairs.')
ASSUMPTIONS = ['Eigen kernels and std::sort are correct', 'instantiations listed in drivers/ are representative of every OpType']
BASE = 'Spectra::GenEigsBase'


def neighbour_overwrite_guard(ctx, rule='neighbour-overwritten-only-for-a-conjugate-pair'):
    """The complex-shift back-transformation writes the conjugate of the eigenvalue it has just computed into the NEXT slot of the
    Ritz values.  That is right only if slot i + 1 holds the conjugate partner of slot i -- a fact about the Ritz values nu as the
    decomposition of H delivered them (real ones have an imaginary part of exactly zero, complex ones come as exact, adjacent
    conjugate pairs: C09 / the stable index sort).  It must therefore be decided by an EXACT test on nu.  A test on the
    back-transformed lambda is not that: lambda comes out of a square root whose argument 1 - 4 nu^2 Im(sigma)^2 is zero up to
    rounding when a real eigenvalue sits at distance |Im sigma| from Re sigma (a case the property names), so a real lambda picks
    up a rounding-level imaginary part, is taken for one half of a pair, and the neighbouring, different eigenvalue is overwritten."""
    from . import paths
    from .sym import sym, show, atoms
    fns = ctx.F.insts('Spectra::GenEigsComplexShiftSolver::sort_ritzpair')
    if not fns:
        raise AnalysisBroken('GenEigsComplexShiftSolver::sort_ritzpair is not instantiated')
    n = 0
    for fn in fns:
        lps = [lp for lp in fn.walk() if lp['k'] == 'ForStmt']
        for x in fn.walk():
            if not (x['k'] in ('BinaryOperator', 'CXXOperatorCallExpr') and x.get('op') == '='):
                continue
            t = sym(fn, x, inline=False)
            if not (isinstance(t[1], tuple) and t[1][0] in ('[]', '()') and t[1][1] == ('F', 'm_ritz_val')):
                continue
            idx = t[1][2]
            if not (isinstance(idx, tuple) and idx[0] == '+' and ('lit', '1') in idx[1:]):
                continue            # a write of the slot being processed
            I = [u for u in idx[1:] if u != ('lit', '1')][0]
            NU = ('[]', ('F', 'm_ritz_val'), I)
            n += 1
            guards = [(c, tr) for c, tr in paths.enclosing_assumptions(fn, x) if any(fn.within(c, lp['body']) for lp in lps)]
            exact = []
            rounded = []
            for c, tr in guards:
                g = sym(fn, c)           # locals inlined: shows where the tested quantity comes from
                txt = show(g)
                forms = (('!=', ('call', 'imag', NU), ('lit', '0')), ('!=', ('lit', '0'), ('call', 'imag', NU)), ('call', 'is_complex', NU),
                         ('!=', ('imag', NU), ('lit', '0')), ('!=', ('lit', '0'), ('imag', NU)))
                if tr and g in forms:
                    exact.append(txt)
                elif 'sqrt' in txt or 'epsilon' in txt:
                    rounded.append(fn.s(c)[:60])
            # nu must be read before slot i is overwritten: the guard's operand is a local initialised from the slot ahead of the first write
            inst = 'GenEigsComplexShiftSolver::sort_ritzpair'
            if exact:
                ctx.ok(rule, inst, fn.qname, '`%s` is written under the exact test `%s` on the Ritz value of slot %s' % (show(t[1]), exact[0][:60], show(I)))
            elif rounded:
                ctx.fail(rule, inst, fn.qname,
                         '`%s = %s` is guarded by `%s`, a tolerance test on the back-transformed value (it comes out of sqrt(1 - 4 nu^2 Im(sigma)^2)): for a real eigenvalue at distance '
                         '|Im sigma| from Re sigma the square root is rounding noise, lambda gets an imaginary part of about sqrt(eps), is taken for half of a conjugate pair and the '
                         'neighbouring eigenvalue is overwritten by its conjugate' % (show(t[1]), show(t[2])[:30], rounded[0]))
            else:
                raise AnalysisBroken('%s: write of %s under a guard the rule does not recognise: %s' % (fn.qname, show(t[1]), [fn.s(c)[:50] for c, _ in guards]))
    if n < 1:
        raise AnalysisBroken('no write of a neighbouring Ritz-value slot found in the complex-shift back-transformation')


def run(ctx):
    from . import factorization as fz
    fz.resumed_at_own_dimension(ctx, BASE)
    fz.subdiagonal_on_breakdown(ctx)
    fz.residual_checked_against_basis(ctx)
    eigsbase.flag_freshness(ctx, BASE)
    eigsbase.ritz_data_of_current_call(ctx, BASE)
    eigsbase.coherent_permutation(ctx, BASE)
    eigsbase.coherent_retrieve(ctx, BASE)
    eigsbase.convergence_test_shape(ctx, BASE)
    eigsbase.accessor_agreement(ctx, BASE)
    shiftsolvers.backtransform_before_sort(ctx, BASE, 2)
    shiftsolvers.shifted_classes_override(ctx, BASE)
    shiftsolvers.complex_shift_backtransform_defined_at_zero(ctx)
    shiftsolvers.complex_shift_double_root_avoided(ctx)
    neighbour_overwrite_guard(ctx)
    from . import c13
    c13.index_ranges(ctx, bases=('Spectra::GenEigsBase',), floor=60)
    from . import stale
    stale.loop_buffers(ctx, scope=lambda fn: (fn.cls or '').startswith('Spectra::GenEigs'), min_instances=4)
    ctx.require('flags-fresh-at-use', 3)
    ctx.require('coherent-permutation', 3)
    ctx.require('backtransform-then-base-sort', 2)
