"""C06 -- results depend only on the arguments; the operator is left untouched (structural clauses)."""
from .facts import AnalysisBroken
from . import paths, tables
from .defuse import DefUse, covered
from .sym import sym, show

EXPLANATION = (
    'Definite-reassignment analysis (forward must-kill over every CFG, interprocedural through the factorization and the '
    'operator adaptors held by value) and who-may-call rules, on every analysed instantiation of every solver class. Decides: '
    '(D1) every field that compute() may read before writing it is overwritten as a whole on every normal path of init(), or is '
    'a construction-time constant (const / reference field), or is the one tabulated exception (the Krylov basis, whose columns '
    'are valid up to the factorization\'s current dimension) -- so no solver state survives from an earlier run into the '
    'observed init(v); compute(args) pair; init() itself reads nothing but constants; (D2) a method that changes the user\'s '
    'operator (non-const call through the solver\'s operator reference) is called only from constructors, or inside a scope '
    'guarded by an RAII object whose destructor re-installs the constructor\'s shift, so the operator is as it was on every '
    'exit, including exceptional ones; (D3) in the SVD wrapper a field cached from an accessor of the inner solver is '
    'invalidated by every member that runs the inner solver; (D4) every mutable cache of an operator adaptor is overwritten '
    'before it is read in each member (no state carried between applications); (D5) every decomposition and shift operator that is recomputed on one object (BKLDLT, the QR / Schur / eigen helpers, set_shift of the seven shift operators) overwrites as a whole every field it reads or appends to, apart from tabulated element-wise-filled buffers, so a second factorization does not see the first. Does NOT decide bit-identity of floating-point '
    'results for equal state (Eigen kernels are assumed deterministic).')
ASSUMPTIONS = ['an operator application perform_op(x, y) overwrites all of y (operator contract)',
               'Eigen kernels are deterministic functions of their inputs (no OpenMP in the build)']

SOLVER_BASES = ('Spectra::HermEigsBase', 'Spectra::GenEigsBase')
# D1 exceptions: (class template of the object holding the field, field) -> reason
REINIT_EXCEPTIONS = {
    ('Spectra::Arnoldi', 'm_fac_V'):
        'Krylov basis: init() resizes it and writes column 0, factorize_from(k, m) writes column i before any read of '
        'columns <= i; columns beyond the current dimension m_k are never read (checked by the prefix sub-rule)',
}


def field_lookup(F, record, name, _depth=0):
    """(field dict, owning record dict) of field `name` in `record` or its bases."""
    recs = [r for r in F.records.values() if r['qname'] == record and not r['dep']]
    if not recs or _depth > 6:
        return None, None
    r = recs[0]
    for f in r['fields']:
        if f['name'] == name:
            return f, r
    for b in r['bases']:
        f, rr = field_lookup(F, b['type'], name, _depth + 1)
        if f is not None:
            return f, rr
    return None, None


def derived_field(F, record, name):
    """Field `name` declared in a class derived from `record` (the base's virtual calls reach the overriders' fields)."""
    for r in F.records.values():
        if r['dep']:
            continue
        if any(b['type'] == record for b in r['bases']):
            for f in r['fields']:
                if f['name'] == name:
                    return f, r
    return None, None


def classify_path(F, record, path):
    """'const' | 'through-reference' | 'object' | ('state', owner tmpl, field) | 'unknown'."""
    cur = record
    for i, name in enumerate(path):
        f, owner = field_lookup(F, cur, name)
        if f is None and i == 0:
            f, owner = derived_field(F, cur, name)
        if f is None:
            return 'unknown'
        t = f['type']
        if f.get('ref') or f.get('ptr'):
            return 'through-reference' if i < len(path) - 1 else 'const-binding'
        if f.get('const'):
            return 'const'
        base_t = t[6:] if t.startswith('const ') else t
        is_obj = any(r['qname'] == base_t and not r['dep'] for r in F.records.values())
        if i == len(path) - 1:
            if is_obj and base_t.startswith('Spectra::'):
                return 'object'
            return ('state', owner['tmpl'], name)
        if is_obj:
            cur = base_t
            continue
        if t.startswith('std::unique_ptr<') or t.startswith('std::vector<'):
            # owned container of a library object: follow into the element type
            inner = t[t.index('<') + 1:]
            depth = 0
            out = ''
            for ch in inner:
                if ch == '<':
                    depth += 1
                if ch == '>':
                    if depth == 0:
                        break
                    depth -= 1
                if ch == ',' and depth == 0:
                    break
                out += ch
            cur = out.strip()
            continue
        return ('state', owner['tmpl'], name)
    return 'object'


def reinit_complete(ctx, rule='init-rebuilds-what-compute-reads'):
    D = DefUse(ctx)
    n = 0
    for base in SOLVER_BASES:
        for comp in ctx.F.insts(base + '::compute'):
            rec = comp.record
            inits = [f for f in ctx.F.by_record[rec].get('init', []) if len(f.params) == 1]
            if not inits:
                raise AnalysisBroken('%s: init(ptr) not analysed' % rec)
            ini = inits[0]
            ue_c, _ = D.summary(comp)
            ue_i, mk_i = D.summary(ini)
            inst = base.replace('Spectra::', '')
            for label, ue, killed in (('compute', ue_c, mk_i), ('init', ue_i, set())):
                bad = []
                exc = []
                for p in sorted(ue):
                    if covered(p, killed):
                        continue
                    c = classify_path(ctx.F, rec, p)
                    if c in ('const', 'through-reference', 'object', 'const-binding'):
                        continue
                    if isinstance(c, tuple) and (c[1], c[2]) in REINIT_EXCEPTIONS:
                        exc.append('.'.join(p))
                        continue
                    bad.append('.'.join(p) + ('' if c != 'unknown' else ' (unresolved)'))
                n += 1
                ctx.check(not bad, rule, '%s::%s' % (inst, label), rec,
                          ('every field %s() may read before writing is rebuilt by init() or is a construction constant '
                           '(%d upward-exposed paths, %d killed by init; tabulated: %s)' % (label, len(ue), len(killed), exc))
                          if not bad else
                          '%s() may read %s, which init() does not overwrite on every path: state of an earlier run leaks into this one' %
                          (label, ', '.join(bad)))
    return n


def basis_prefix_discipline(ctx, rule='basis-read-within-current-dimension'):
    """Sub-rule for the tabulated exception: in the factorization, every read of the basis that is not limited to leading
    columns by a view (leftCols / Map with a column count / col(i)) occurs in a member that requires a complete factorization
    (compress_V, reached only from restart() after factorize_from(.., ncv)) or in the const accessor."""
    FULL_OK = {'compress_V': 'runs after factorize_from(k, m) completed: all m columns are valid', 'matrix_V': 'const accessor'}
    LIMITED = ('col', 'leftCols', 'data', 'rows', 'cols', 'size', 'resize')
    seen = 0
    for fn in ctx.F.concrete():
        if fn.cls not in ('Spectra::Arnoldi', 'Spectra::Lanczos') or fn.d.get('ctor'):
            continue
        for leaf in fn.walk():
            if not (leaf['k'] == 'MemberExpr' and leaf.get('mk') == 'field' and leaf.get('member') == 'm_fac_V'):
                continue
            # first consumer above the field reference (through implicit wrappers)
            cur = leaf
            par = fn.node(fn.parent.get(cur['id'], -1))
            while par is not None and par['k'] in ('ImplicitCastExpr', 'ParenExpr', 'MaterializeTemporaryExpr', 'ExprWithCleanups'):
                cur = par
                par = fn.node(fn.parent.get(cur['id'], -1))
            limited = False
            how = ''
            if par is not None and par['k'] == 'MemberExpr' and par.get('mk') == 'method':
                how = par.get('member', '')
                limited = how in LIMITED
            elif par is not None and par['k'] == 'CXXOperatorCallExpr' and par.get('op') == '()':
                limited = True
                how = 'operator()'
            elif par is not None and par['k'] == 'CXXMemberCallExpr' and par.get('callee') in LIMITED:
                limited = True
                how = par['callee']
            seen += 1
            ok = limited or fn.name in FULL_OK
            ctx.check(ok, rule, '%s::%s' % (fn.cls.replace('Spectra::', ''), fn.name), fn.qname,
                      'basis used through %s (element / column / leading-columns view sized by the running index)' % how if limited else
                      ('whole basis read: ' + FULL_OK.get(fn.name, '')) if ok else
                      'the whole basis (including columns beyond the current dimension, stale from an earlier run) is read at %s' % fn.loc(leaf))
    if seen < 4:
        raise AnalysisBroken('only %d reads of the Krylov basis found' % seen)
    # compress_V is called only from restart(), and restart() only after a complete factorization in compute()
    for base in SOLVER_BASES:
        for comp in ctx.F.insts(base + '::compute'):
            fac_full = paths.positions_of(comp, lambda n: n['k'] == 'CXXMemberCallExpr' and n.get('callee') == 'factorize_from')
            rs = paths.positions_of(comp, lambda n: n['k'] == 'CXXMemberCallExpr' and n.get('callee') == 'restart')
            # `if (k < m_ncv) factorize_from(k, m_ncv, ..)` with k = the current dimension (or max(1, dimension)) completes the
            # factorization on both edges: the guard itself then counts as the completing element
            guards = set()
            for c in comp.walk():
                if c['k'] == 'CXXMemberCallExpr' and c.get('callee') == 'factorize_from':
                    args = comp.call_args(c)
                    k = sym(comp, args[0])
                    to = sym(comp, args[1], inline=False)
                    for cond, truth in paths.enclosing_assumptions(comp, c):
                        cs = sym(comp, cond)
                        if truth and cs[0] == '<' and cs[1] == k and cs[2] == to == ('F', 'm_ncv') \
                                and show(k).replace(' ', '') in ('subspace_dim(m_fac)', 'max(1,subspace_dim(m_fac))', 'max(subspace_dim(m_fac),1)'):
                            guards.add(cond['id'])
            done = lambda n: (n['k'] == 'CXXMemberCallExpr' and n.get('callee') == 'factorize_from') or n['id'] in guards
            ok = bool(fac_full) and all(paths.dominated_by(comp, r, done) for r in rs)
            ctx.check(ok, rule, base.replace('Spectra::', '') + '::compute', comp.qname,
                      'restart() (the only caller of compress_V) is dominated by factorize_from%s' % (' or by its guard `dimension < ncv`' if guards else '') if ok else
                      'restart() can run before the factorization was completed')
    for fn in ctx.F.concrete():
        for c in fn.walk():
            if c['k'] == 'CXXMemberCallExpr' and c.get('callee') == 'compress_V' and fn.name != 'restart':
                ctx.fail(rule, '%s::%s' % (fn.cls.replace('Spectra::', ''), fn.name), fn.qname, 'compress_V called outside restart() at %s' % fn.loc(c))


# ---------------------------------------------------------------------------------------------------
# D2  operator untouched
# ---------------------------------------------------------------------------------------------------
def operator_mutation(ctx, rule='operator-not-modified-outside-constructors'):
    """Non-const member functions of the user's operator are called only from solver constructors (and the static helpers
    they use), or under an RAII guard that re-installs the constructor's arguments."""
    from .eigsbase import SOLVER_TMPLS
    n = 0
    for fn in ctx.F.concrete():
        if fn.cls not in SOLVER_TMPLS and not fn.cls.startswith('Spectra::PartialSVDSolver'):
            continue
        for c in fn.walk():
            if c['k'] != 'CXXMemberCallExpr' or c.get('cconst') or c.get('cstatic'):
                continue
            obj = fn.call_object(c)
            if obj is None:
                continue
            root = fn.root_of(obj)
            is_op = False
            if root and root[0] == 'field':
                f, owner = field_lookup(ctx.F, fn.record, root[1])
                if f is not None and f.get('ref') and not f['type'].startswith('const '):
                    is_op = True
            if root and root[0] == 'local' and fn.locals[root[1]]['kind'] == 'param' and fn.locals[root[1]].get('ref') is None:
                pass
            if root and root[0] == 'local':
                lv = fn.locals[root[1]]
                if lv['kind'] == 'param' and lv['type'].endswith('&') and not lv['type'].startswith('const ') and \
                        (lv['type'].startswith('Spectra::') and ('Solve' in lv['type'] or 'Shift' in lv['type'] or 'Op<' in lv['type'] or 'Prod' in lv['type'] or 'Cholesky' in lv['type'] or 'Inverse' in lv['type'])):
                    is_op = True
            if not is_op:
                continue
            n += 1
            site = '%s::%s->%s' % (fn.cls.replace('Spectra::', ''), fn.name, c.get('callee'))
            if fn.d.get('ctor') or fn.d.get('static'):
                ctx.ok(rule, site, fn.qname, 'operator configured at construction')
                continue
            if fn.d.get('dtor') and '::' in fn.record and fn.record.count('::') >= 2 and 'Restorer' in fn.record:
                ctx.ok(rule, site, fn.qname, 'restoring destructor of a scope guard')
                continue
            # must be guarded: a local of a class whose destructor calls the same method on the same operator with
            # the solver's stored shift fields is constructed before this call (dominates it) in the same function
            guard = _restoring_guard(ctx, fn, c)
            ctx.check(guard is not None, rule, site, fn.qname,
                      'guarded by %s: shift re-installed on every exit (normal and exceptional)' % guard if guard else
                      '%s() changes the user\'s operator at %s and nothing restores it: after compute() the operator no longer applies the shift given at construction'
                      % (c.get('callee'), fn.loc(c)))
    if n < 4:
        raise AnalysisBroken('only %d operator-mutating call sites found' % n)


def _restoring_guard(ctx, fn, call):
    method = call.get('callee')
    pos = fn.pos_of(call)
    for d in fn.walk():
        if d['k'] != 'DeclStmt':
            continue
        for dd in d.get('decls', []):
            if 'var' not in dd or 'init' not in dd:
                continue
            v = fn.locals[dd['var']]
            t = v['type']
            # the guard class: has an analysed destructor that calls `method`
            dts = [g for g in ctx.F.concrete() if g.d.get('dtor') and g.record == t]
            if not dts:
                continue
            g = dts[0]
            calls = [x for x in g.walk() if x['k'] == 'CXXMemberCallExpr' and x.get('callee') == method]
            if not calls:
                continue
            # the destructor re-installs on EVERY path (not only when no exception is in flight)
            cids = set(x['id'] for x in calls)
            if paths.search(g, [], stop=lambda n: n['id'] in cids, target=lambda n: n['k'] == 'ReturnStmt', include_entry=True,
                            exit_is_target=lambda b: True) is not None:
                continue
            # the guard's initialiser binds the solver's operator and the stored shift fields (not locals)
            init = fn.nodes[dd['init']]
            leaves = fn.mentions(init)
            fields = [x[1] for x in leaves if x[0] == 'field']
            localsused = [x for x in leaves if x[0] in ('local', 'param')]
            if localsused or len(fields) < 2:
                continue
            # every field bound is a construction constant (const) or the operator reference
            okf = True
            for fname in fields:
                f, _ = field_lookup(ctx.F, fn.record, fname)
                if f is None or not (f.get('const') or f.get('ref')):
                    okf = False
            if not okf:
                continue
            # destructor passes the guard's own fields as arguments
            dargs = g.call_args(calls[0])
            if not all(g.field_name(a) for a in dargs):
                continue
            # constructed before the mutation on every path
            dpos = fn.pos_of(d)
            if paths.dominated_by(fn, pos, lambda n, d=d: n['id'] == d['id']):
                return '%s %s' % (t.split('::')[-1], v['name'])
    return None


# ---------------------------------------------------------------------------------------------------
# D3  cache coherence in the SVD wrapper
# ---------------------------------------------------------------------------------------------------
def svd_cache(ctx, rule='cached-accessor-results-invalidated'):
    n = 0
    for rec in sorted(set(f.record for f in ctx.F.concrete() if f.cls == 'Spectra::PartialSVDSolver')):
        ms = ctx.F.methods(rec)
        r = [x for x in ctx.F.records.values() if x['qname'] == rec and not x['dep']][0]
        ptr_fields = [f['name'] for f in r['fields'] if f['type'].startswith('std::unique_ptr<Spectra::SymEigsSolver')]
        if len(ptr_fields) != 1:
            raise AnalysisBroken('%s: inner solver field not identified' % rec)
        eig = ptr_fields[0]
        # cached fields: assigned from a const accessor of *eig in some method
        cached = {}
        for f in ms:
            for x in f.walk():
                if x['k'] in ('BinaryOperator', 'CXXOperatorCallExpr') and x.get('op') == '=':
                    t = sym(f, x, inline=False)
                    lhs, rhs = t[1], t[2]
                    const_acc = any(y['k'] == 'CXXMemberCallExpr' and y.get('cconst') and y.get('callee') == (rhs[0] if isinstance(rhs, tuple) else None)
                                    for y in f.walk(x))
                    if lhs[0] == 'F' and const_acc and isinstance(rhs, tuple) and len(rhs) >= 2 and isinstance(rhs[1], tuple) and \
                            rhs[1][:1] in (('operator->',), ('->',)) and rhs[1][1] == ('F', eig):
                        cached.setdefault(lhs[1], []).append((f.name, rhs[0]))
        if not cached:
            raise AnalysisBroken('%s: no field cached from the inner solver' % rec)
        # mutators: methods that call a non-const member of *eig
        for f in ms:
            if f.d.get('ctor') or f.d.get('dtor'):
                continue
            muts = [x for x in f.walk() if x['k'] == 'CXXMemberCallExpr' and not x.get('cconst') and x.get('cls', '').startswith('Spectra::') and
                    f.root_of(f.call_object(x)) == ('field', eig)]
            if not muts:
                continue
            for cf in sorted(cached):
                n += 1
                # on every normal path of f the cache is reset (resize(0,..) / whole assignment) -- anywhere in f is enough
                # because the fill-on-demand test (`cols() < 1`) runs at the next accessor call
                resets = []
                for x in f.walk():
                    if x['k'] == 'CXXMemberCallExpr' and x.get('callee') in ('resize', 'setZero', 'clear') and f.root_of(f.call_object(x)) == ('field', cf):
                        t = sym(f, x, inline=False)
                        if x['callee'] != 'resize' or any(a == ('lit', '0') for a in t[2:]):
                            resets.append(x)
                ok = False
                for rs in resets:
                    hit = paths.search(f, [], stop=lambda n, rs=rs: n['id'] == rs['id'], target=lambda n: n['k'] == 'ReturnStmt',
                                       include_entry=True, exit_is_target=lambda b: True, normal_only=True)
                    if hit is None:
                        ok = True
                ctx.check(ok, rule, '%s::%s/%s' % ('PartialSVDSolver', f.name, cf), f.qname,
                          '%s runs the inner solver and empties the cached %s on every normal path' % (f.name, cf) if ok else
                          '%s() re-runs the inner solver but keeps %s, cached from %s of an earlier run' % (f.name, cf, cached[cf][0][1]))
        # the cache is filled on demand under an emptiness test in every reader
        for cf, fills in sorted(cached.items()):
            for fname, accn in fills:
                f = [x for x in ms if x.name == fname][0]
                asg = [x for x in f.walk() if x['k'] in ('BinaryOperator', 'CXXOperatorCallExpr') and x.get('op') == '=' and sym(f, x, inline=False)[1] == ('F', cf)]
                guarded = all(any(a['k'] == 'IfStmt' and ('F', cf) in _atoms(sym(f, a['cond'], inline=False)) for a in f.ancestors(x)) for x in asg)
                n += 1
                ctx.check(guarded, rule, 'PartialSVDSolver::%s/fill' % fname, f.qname,
                          'cache filled only when empty' if guarded else 'cache filled unconditionally')
    if n < 2:
        raise AnalysisBroken('SVD cache rule matched %d sites' % n)


def _atoms(t):
    from .sym import atoms
    return atoms(t)


# ---------------------------------------------------------------------------------------------------
# D4  adaptor caches carry no state between applications
# ---------------------------------------------------------------------------------------------------
CACHE_READ_OK = {('Spectra::SparseRegularInverse', 'info'): 'status accessor: reports the last solve by design'}
# complex work vector: the real half is overwritten by every application, the imaginary half is zeroed by set_shift and must
# never be written afterwards (checked: the only writers are resize / setZero in set_shift and `.real() = x` in perform_op)
HALF_CACHE = {'Spectra::DenseGenComplexShiftSolve': 'm_x_cache', 'Spectra::SparseGenComplexShiftSolve': 'm_x_cache'}


def caches_stateless(ctx, rule='mutable-cache-overwritten-before-read'):
    D = DefUse(ctx)
    n = 0
    # every mutable field of the library, tabulated or not: a const operation (the operator application the solver calls) may
    # change it, so whatever it reads of it must have been overwritten by the same application
    keys = set(tables.MUTABLE_FIELDS)
    for r in ctx.F.records.values():
        for fl in r['fields']:
            if fl.get('mutable') and (r.get('tmpl') or '').startswith('Spectra::'):
                keys.add((r['tmpl'], fl['name']))
    for (tmpl, field) in sorted(keys):
        fns = [f for f in ctx.F.concrete() if f.cls == tmpl and not f.d.get('ctor') and not f.d.get('dtor')]
        if not fns:
            ctx.note('%s has no analysed instantiation' % tmpl)
            continue
        for f in fns:
            fe = ctx.E.of(f)
            if not any(a.path == (field,) for a in fe.accesses):
                continue
            ue, _ = D.summary(f)
            exposed = (field,) in ue
            n += 1
            if (tmpl, f.name) in CACHE_READ_OK:
                ctx.ok(rule, '%s::%s/%s' % (tmpl.replace('Spectra::', ''), f.name, field), f.qname, CACHE_READ_OK[(tmpl, f.name)])
                continue
            if HALF_CACHE.get(tmpl) == field:
                # writers of the vector in this member
                problems = []
                for a in fe.accesses:
                    if a.path != (field,) or a.mode != 'w':
                        continue
                    node = f.nodes[a.node]
                    t = sym(f, node, inline=False) if node['k'] in ('CXXOperatorCallExpr', 'BinaryOperator', 'CXXMemberCallExpr') else None
                    if f.name == 'set_shift' and node.get('callee') in ('resize', 'setZero'):
                        continue
                    if f.name == 'perform_op' and t and t[0] == '=' and t[1] == ('real', ('F', field)):
                        continue
                    problems.append('%s writes %s at %s' % (f.name, field, f.loc(node)))
                if f.name == 'set_shift' and not any(f.nodes[a.node].get('callee') == 'setZero' for a in fe.accesses if a.path == (field,)):
                    problems.append('set_shift does not zero the work vector')
                ctx.check(not problems, rule, '%s::%s/%s' % (tmpl.replace('Spectra::', ''), f.name, field), f.qname,
                          'real half overwritten per application, imaginary half zeroed by set_shift and never written' if not problems else '; '.join(problems))
                continue
            ctx.check(not exposed, rule, '%s::%s/%s' % (tmpl.replace('Spectra::', ''), f.name, field), f.qname,
                      'cache written (operator output / whole assignment) before it is read' if not exposed else
                      '%s may read the cache %s before overwriting it: result depends on the previous application' % (f.name, field))
    if n < 8:
        raise AnalysisBroken('only %d cache uses analysed' % n)


# D5: components that are (re)computed many times on one object -- decompositions inside the solver and the shift operators,
# whose set_shift() is called by every solver constructed on them.  (class template, member) -> {(owner template, field): reason}
# for state the member may read before having overwritten it as a whole; everything else it reads must be a constant or
# killed first.  Confirmed by reading; each reason names the local argument why no earlier value is observable.
RECOMPUTED = {
    ('Spectra::BKLDLT', 'compute'): {
        ('Spectra::BKLDLT', 'm_data'): 'resized, then copy_data() writes every entry of the packed triangle before the first read (C10 copy rules)'},
    ('Spectra::UpperHessenbergQR', 'compute'): {},
    ('Spectra::TridiagQR', 'compute'): {
        ('Spectra::UpperHessenbergQR', 'm_rot_cos'): 'resized to n-1; entry i is written through the walking pointer in step i before any read (C08 pointer-walk rule)',
        ('Spectra::UpperHessenbergQR', 'm_rot_sin'): 'as m_rot_cos'},
    ('Spectra::DoubleShiftQR', 'compute'): {
        ('Spectra::DoubleShiftQR', 'm_ref_u'): 'resized; column ind is written by compute_reflector(ind) before apply_PX / apply_XP(ind) read it',
        ('Spectra::DoubleShiftQR', 'm_ref_nr'): 'as m_ref_u'},
    ('Spectra::TridiagEigen', 'compute'): {},
    ('Spectra::UpperHessenbergSchur', 'compute'): {},
    ('Spectra::UpperHessenbergEigen', 'compute'): {
        ('Spectra::UpperHessenbergEigen', 'm_matT'): 'on the path that swaps: swapped with the Schur factor just recomputed (the recomputation dominates the swap; checked); on the zero-matrix path: resized and set as a whole',
        ('Spectra::UpperHessenbergEigen', 'm_eivec'): 'as m_matT',
        ('Spectra::UpperHessenbergEigen', 'm_eivalues'): 'resized to n; entries i (and i+1 for a pair) are written for every i by the block scan'},
    ('Spectra::DenseSymShiftSolve', 'set_shift'): {
        ('Spectra::BKLDLT', 'm_data'): 'see BKLDLT::compute'},
    ('Spectra::SparseSymShiftSolve', 'set_shift'): {
        ('Spectra::SparseSymShiftSolve', 'm_solver'): 'Eigen decomposition object: compute() replaces the stored factorization'},
    ('Spectra::DenseGenRealShiftSolve', 'set_shift'): {
        ('Spectra::DenseGenRealShiftSolve', 'm_solver'): 'Eigen decomposition object: compute() replaces the stored factorization'},
    ('Spectra::DenseGenComplexShiftSolve', 'set_shift'): {
        ('Spectra::DenseGenComplexShiftSolve', 'm_solver'): 'Eigen decomposition object: compute() replaces the stored factorization'},
    ('Spectra::SparseGenRealShiftSolve', 'set_shift'): {
        ('Spectra::SparseGenRealShiftSolve', 'm_solver'): 'Eigen decomposition object: compute() replaces the stored factorization'},
    ('Spectra::SparseGenComplexShiftSolve', 'set_shift'): {
        ('Spectra::SparseGenComplexShiftSolve', 'm_solver'): 'Eigen decomposition object: compute() replaces the stored factorization'},
    ('Spectra::SymShiftInvert', 'set_shift'): {
        ('Spectra::SymShiftInvert', 'm_solver'): 'handed to the factorization helper, which calls compute() on it (BKLDLT::compute is itself a checked component; Eigen::SparseLU replaces its factorization)'},
}
# fields whose whole-object kill in the member is REQUIRED (deleting the reset leaves state of the previous factorization behind)
RECOMPUTE_MUST_KILL = {
    ('Spectra::BKLDLT', 'compute'): ['m_perm', 'm_permc', 'm_colptr', 'm_n', 'm_info', 'm_computed'],
    ('Spectra::UpperHessenbergEigen', 'compute'): ['m_n'],
}


def recompute_complete(ctx, rule='recompute-rebuilds-what-it-reads', only=None):
    D = DefUse(ctx)
    n = 0
    for (tq, meth), allowed in sorted(RECOMPUTED.items()):
        if only is not None and (tq, meth) not in only:
            continue
        fns = [f for f in ctx.F.insts(tq + '::' + meth) if f.cfg]
        if not fns:
            raise AnalysisBroken('%s::%s is not instantiated' % (tq, meth))
        for fn in fns:
            ue, mk = D.summary(fn)
            bad, exc = [], []
            for p in sorted(ue):
                if not p:
                    continue
                c = classify_path(ctx.F, fn.record, p)
                if c in ('const', 'through-reference', 'object', 'const-binding'):
                    continue
                if isinstance(c, tuple) and (c[1], c[2]) in allowed:
                    exc.append('.'.join(p))
                    continue
                bad.append('.'.join(p) + ('' if c != 'unknown' else ' (unresolved)'))
            if (tq, meth) == ('Spectra::UpperHessenbergEigen', 'compute'):
                # every swap with the inner Schur object is dominated by that object's compute()
                for x in fn.walk():
                    if x['k'] == 'CXXMemberCallExpr' and x.get('callee') in ('swap_T', 'swap_U'):
                        if not paths.dominated_by(fn, fn.pos_of(x), lambda n_: n_['k'] == 'CXXMemberCallExpr' and n_.get('callee') == 'compute' and n_.get('cls') == 'Spectra::UpperHessenbergSchur'):
                            bad.append('%s (swapped in without recomputing the Schur factor first)' % fn.s(x['id'])[:40])
            for need in RECOMPUTE_MUST_KILL.get((tq, meth), []):
                if not covered(tuple(need.split('.')), mk):
                    bad.append('%s (not overwritten as a whole on every normal path)' % need)
            n += 1
            ctx.check(not bad, rule, '%s::%s' % (tq.replace('Spectra::', ''), meth), fn.qname,
                      'reads before writing only constants and %d tabulated buffers %s; %d fields overwritten as a whole' % (len(exc), exc, len(mk)) if not bad else
                      '%s() may read / append to %s before overwriting it: state of the previous %s on the same object leaks into this one' %
                      (meth, ', '.join(sorted(set(bad))), 'factorization' if meth != 'set_shift' else 'shift'))
    if n < (20 if only is None else 1):
        raise AnalysisBroken('only %d re-computable members analysed' % n)


def run(ctx):
    n = reinit_complete(ctx)
    recompute_complete(ctx)
    basis_prefix_discipline(ctx)
    operator_mutation(ctx)
    svd_cache(ctx)
    caches_stateless(ctx)
    from . import hygiene
    hygiene.static_state(ctx)
    hygiene.rng_objects_are_locals(ctx)
    from . import c19
    c19.seed_provenance(ctx)
    if n < 10:
        raise AnalysisBroken('only %d init/compute pairs analysed' % n)
