"""C19 -- the internal random generator is a pure function of its seed (structural clauses)."""
from .facts import AnalysisBroken
from . import hygiene, ir, build
from .sym import sym, show
from .xeval import ev, CannotEval

EXPLANATION = (
    'Effect analysis over the LLVM IR of the generator (clang -O0 IR cleaned by sroa/instcombine, scanned textually) plus '
    'AST rules. Decides: the step function contains no load, store, call, alloca or pointer/integer conversion -- its result '
    'is a function of its argument alone; a draw reads and writes memory only through its seed reference and calls only the '
    'step function (and, for complex draws, the real draw twice and the complex constructor); SimpleRandom::random() touches '
    'only its own object; the constructor only writes its own object; no global is referenced by any of them; for all real '
    'and complex scalar types instantiated. AST: generator objects are automatic locals, never fields or statics; every seed '
    'expression has only integer literals and loop counters as leaves (through the seed parameter of expand_basis and its '
    'call sites); seed normalisation maps [0, 2^31-1] into [1, 2^31-1] (0 -> 1, identity otherwise); Eigen\'s '
    'rand()-based Random()/setRandom() are never called. Interval abstract interpretation of the step function (path-sensitive over its two folds, precise '
    'transfer for masks) shows that [0, 2^31-1] is an inductive invariant of the state, hence every draw '
    'state/(2^31-1) - 0.5 lies in [-0.5, 0.5] (both components of complex draws). '
    'Further: every draw made by a member of the generator class advances the object\'s own state (the state argument is the field, '
    'or a local stored back on every path); no call, constructor or arithmetic operator in the generator code has two operands '
    'of which one modifies an object the other modifies or reads (unspecified evaluation order). Congruence abstract interpretation of the step function (exact integer linear forms over the bit-field halves the body '
    'creates; split equations; linear algebra over GF(2^31-1)) shows that on every path next = 16807 * state modulo 2^31-1; with '
    'the interval result, 2^31-1 prime and 16807 coprime to it, the next state is exactly (16807 s) mod (2^31-1) and stays in '
    '[1, 2^31-2]: the Park-Miller sequence for all states, never degenerate; every library seed (loop counters up to 2^20) is a '
    'proper state. Does NOT decide statistical quality, nor seeds beyond that bound.')
ASSUMPTIONS = ['LLVM IR produced by clang 14 for the drivers represents the generator faithfully (same source, -O0)',
               'std::complex constructor only stores its two arguments']

SCALARS = ['double', 'float', 'long double', 'std::complex<double> >', 'std::complex<double>>']


def ir_effects(ctx):
    lls = ir.build_ir(ctx.info['cache_dir'], [s for s in build.driver_list(ctx.tier)], only={'util', 'herm_c', 'sym_d', 'gen_d'} if ctx.tier == 'quick' else None)
    mods = [ir.Module(p) for p in lls.values()]
    funcs, eff, rd, wr = ir.summaries(mods)
    dm = ir.demangle(funcs)
    rule = 'generator-effects'
    n_step = n_run = n_rand = n_ctor = 0
    for n, f in sorted(funcs.items()):
        d = dm[n]
        if not d.startswith('Spectra::'):
            continue
        e = eff[n]
        globs = sorted(g for g in f.globals)
        # a function returning an aggregate (complex<long double>) has a hidden return slot as its first parameter:
        # writing the result there is not a memory effect; the user-visible parameters start after it
        s0 = 1 if f.sret == 0 else 0
        SEED = {('arg', s0)}
        OUTS = SEED | ({('arg', 0)} if s0 else set())
        if d.startswith('Spectra::next_long_rand('):
            n_step += 1
            ok = e.is_pure_arith() and not globs
            ctx.check(ok, rule, 'next_long_rand', d,
                      'no load/store/call/alloca/ptrtoint and no global: result is a function of the argument only (%d instructions; LLVM attrs: %s)' %
                      (len(f.body), ','.join(sorted(a for a in f.attrs if a in ('readnone', 'nounwind', 'willreturn', 'mustprogress')))) if ok else
                      'step function has memory effects: reads %s writes %s calls %s escapes %s other %s globals %s' %
                      (sorted(e.reads), sorted(e.writes), [dm.get(c, c) for c, _ in e.calls], e.escapes, e.other, globs))
        elif d.startswith('Spectra::RandomScalar<') and '::run(' in d:
            n_run += 1
            callees = set(dm.get(c, c or '?') for c, _ in e.calls)
            okc = all(c.startswith('Spectra::next_long_rand(') or (c.startswith('Spectra::RandomScalar<') and '::run(' in c) or
                      c.startswith('std::complex<') for c in callees)
            ok = rd[n] <= SEED and wr[n] <= OUTS and okc and not globs and not e.escapes and not e.other
            ctx.check(ok, rule, 'RandomScalar::run', d,
                      'reads/writes only through the seed reference; callees %s' % sorted(c.split('(')[0] for c in callees) if ok else
                      'draw has other effects: reads %s writes %s callees %s globals %s escapes %s other %s' %
                      (sorted(rd[n]), sorted(wr[n]), sorted(callees), globs, e.escapes, e.other))
        elif d.startswith('Spectra::SimpleRandom<') and d.endswith('::random()'):
            n_rand += 1
            ok = rd[n] <= SEED and wr[n] <= OUTS and not globs and not e.escapes
            ctx.check(ok, rule, 'SimpleRandom::random', d, 'touches only its own object' if ok else
                      'reads %s writes %s globals %s' % (sorted(rd[n]), sorted(wr[n]), globs))
        elif d.startswith('Spectra::SimpleRandom<') and '::SimpleRandom(unsigned long)' in d:
            n_ctor += 1
            ok = not rd[n] and wr[n] <= {('arg', 0)} and not e.calls and not globs and not e.escapes
            ctx.check(ok, rule, 'SimpleRandom::SimpleRandom', d, 'writes only its own object, reads nothing but its argument' if ok else
                      'reads %s writes %s calls %s globals %s' % (sorted(rd[n]), sorted(wr[n]), e.calls, globs))
    if n_step < 1 or n_run < 4 or n_rand < 4 or n_ctor < 4:
        raise AnalysisBroken('generator functions missing from the IR (step %d, run %d, random %d, ctor %d)' % (n_step, n_run, n_rand, n_ctor))
    ctx.info.setdefault('ir_modules', sorted(lls))


def state_range(ctx, rule='generator-state-range'):
    """Interval abstract interpretation of the step function (path-sensitive over its folds): [0, 2^31-1] is an inductive
    invariant of the state, hence every draw state/(2^31-1) - 0.5 lies in [-0.5, 0.5]."""
    from . import interval
    M = 2 ** 31 - 1
    fns = ctx.F.insts('Spectra::next_long_rand')
    for fn in fns:
        (lo, hi), npaths = interval.result_range(fn, [(0, M)])
        ok = lo >= 0 and hi <= M
        ctx.check(ok, rule, 'next_long_rand', fn.qname,
                  'state in [0, 2^31-1] => next state in [%d, %d] (subset): inductive over %d paths' % (lo, hi, npaths) if ok else
                  'for a state in [0, 2^31-1] the next state may be as large as %d > 2^31-1 (a draw above 0.5, and a state outside the generator\'s range)' % hi
                  if hi > M else 'next state may be negative (%d)' % lo)
    # the draw is state / (2^31-1) - 0.5 (real types); complex: two real draws
    n = 0
    for fn in ctx.F.insts('Spectra::RandomScalar::run'):
        rets = [x for x in fn.walk() if x['k'] == 'ReturnStmt']
        t = sym(fn, rets[0]['value'])
        p0 = fn.locals[fn.params[0]]['name']
        n += 1
        if fn.cargs and fn.cargs[0].startswith('std::complex'):
            calls = [x for x in fn.walk() if x['k'] == 'CallExpr' and x.get('callee') == 'run']
            ok = len(calls) == 2 and all(sym(fn, fn.call_args(c)[0], inline=False) == ('P', p0) for c in calls)
            ctx.check(ok, rule, 'RandomScalar<complex>::run', fn.qname, 'two real draws from the same seed reference' if ok else 'complex draw is not two real draws')
            continue
        # seed = step(seed) precedes the return
        asg = [sym(fn, x, inline=False) for x in fn.walk() if x['k'] == 'BinaryOperator' and x.get('op') == '=']
        step_ok = ('=', ('P', p0), ('call', 'next_long_rand', ('P', p0))) in asg
        def lit(v):
            return isinstance(v, tuple) and v[0] == 'lit'
        shape = t[0] == '-' and lit(t[2]) and t[2][1] in ('0.5', '0') and t[1][0] == '/' and t[1][1] == ('P', p0)
        den = t[1][2] if shape else None
        den_ok = False
        if shape:
            for x in fn.walk(rets[0]['value']):
                if x['k'] == 'DeclRefExpr' and x.get('cval') == str(M):
                    den_ok = True
                if x['k'] == 'IntegerLiteral' and x.get('val') == str(M):
                    den_ok = True
        half = shape and t[2][1] == '0.5'
        ok = step_ok and shape and den_ok and half
        ctx.check(ok, rule, 'RandomScalar::run', fn.qname,
                  'draw = state / (2^31-1) - 0.5 with state in [0, 2^31-1]  =>  [-0.5, 0.5]' if ok else
                  'draw is %s (state advanced first: %s)' % (show(t), step_ok))
    if n < 4:
        raise AnalysisBroken('only %d RandomScalar::run instantiations' % n)


def seed_normalisation(ctx, rule='seed-normalisation'):
    M = 2 ** 31 - 1
    for c in ctx.F.insts('Spectra::SimpleRandom::SimpleRandom'):
        assigns = [n for n in c.walk() if n['k'] == 'BinaryOperator' and n.get('op') == '=']
        fields = [r for r in ctx.F.records.values() if r['qname'] == c.record and not r['dep']]
        problems = []
        if len(assigns) != 1 or not fields or len(fields[0]['fields']) != 1:
            problems.append('constructor is not a single assignment to the single state field')
        else:
            a = assigns[0]
            st = fields[0]['fields'][0]['name']
            if c.field_name(c.nodes[a['c'][0]]) != st:
                problems.append('constructor does not assign the state field')
            p0 = c.locals[c.params[0]]['name']
            for seed in (0, 1, 2, 12345, 2 ** 20 * 2 + 123 * 4, M - 1, M):
                try:
                    v = ev(c, a['c'][1], {('local', p0): seed})
                except CannotEval as e:
                    raise AnalysisBroken('cannot evaluate the seed normalisation: %s' % e)
                if not (1 <= v <= M):
                    problems.append('seed %d gives state %d outside [1, 2^31-1]' % (seed, v))
                if seed != 0 and v != seed:
                    problems.append('seed %d is changed to %d' % (seed, v))
            # the mask is 2^31 - 1 (all ones): x & mask is the identity on [0, mask], so the samples above generalise
            masks = [int(n['cval']) for n in c.walk(a['c'][1]) if n['k'] == 'DeclRefExpr' and 'cval' in n]
            lits = [int(n['val']) for n in c.walk(a['c'][1]) if n['k'] == 'IntegerLiteral']
            if M not in masks + lits:
                problems.append('mask 2^31-1 not found in the normalisation (constants %s)' % sorted(set(masks + lits)))
        ctx.check(not problems, rule, 'SimpleRandom::SimpleRandom', c.qname,
                  '0 -> 1, identity on [1, 2^31-1] (mask 2^31-1)' if not problems else '; '.join(problems))


def seed_provenance(ctx, rule='seed-provenance'):
    """Leaves of every seed expression: integer literals, loop counters, or a parameter whose every call site passes such an expression."""
    def leaves_ok(fn, expr, depth=0):
        bad = []
        for x in fn.walk(expr):
            k = x['k']
            if k == 'DeclRefExpr' and 'var' in x:
                v = fn.locals[x['var']]
                if x.get('dk') == 'param':
                    # every call site of this function passes an acceptable expression in that position
                    idx = fn.params.index(x['var'])
                    sites = 0
                    for g in ctx.F.concrete():
                        for c in g.walk():
                            if c['k'] in ('CXXMemberCallExpr', 'CallExpr') and c.get('mangled') == fn.mangled:
                                sites += 1
                                args = g.call_args(c)
                                if depth > 3:
                                    bad.append('recursion')
                                else:
                                    bad += leaves_ok(g, args[idx], depth + 1)
                    if sites == 0:
                        bad.append('parameter %s of %s has no analysed call site' % (v['name'], fn.qname))
                else:
                    # a local: must be the induction variable of an enclosing counted loop
                    is_counter = False
                    for a in fn.ancestors(x):
                        if a['k'] == 'ForStmt':
                            init = fn.node(a.get('init', -1))
                            if init is not None and init['k'] == 'DeclStmt' and any(d.get('var') == x['var'] for d in init['decls']):
                                is_counter = True
                    if not is_counter:
                        bad.append('local %s is not a loop counter' % v['name'])
            elif k == 'MemberExpr' and x.get('mk') == 'field':
                bad.append('field %s' % x['member'])
            elif k in ('CallExpr', 'CXXMemberCallExpr', 'CXXOperatorCallExpr'):
                bad.append('call %s' % fn.s(x)[:40])
            elif k == 'UnaryOperator' and x.get('op') in ('&', '*'):
                bad.append('address / dereference')
            elif k in ('CXXReinterpretCastExpr',):
                bad.append('reinterpret_cast')
        return bad
    n = 0
    for fn in ctx.F.concrete():
        for x in fn.walk():
            if x['k'] in ('CXXConstructExpr', 'CXXTemporaryObjectExpr') and x.get('ctor_of') == 'Spectra::SimpleRandom' and not x.get('copy') and not x.get('move'):
                args = fn.call_args(x)
                if len(args) != 1:
                    continue
                n += 1
                bad = leaves_ok(fn, args[0])
                ordn = x['l'] - fn.line
                ctx.check(not bad, rule, '%s::%s' % (fn.cls.replace('Spectra::', ''), fn.name), fn.qname,
                          'seed %s: leaves are integer literals and loop counters' % fn.s(args[0]) if not bad else
                          'seed %s depends on %s' % (fn.s(args[0]), sorted(set(bad))))
    if n < 4:
        raise AnalysisBroken('only %d generator construction sites analysed' % n)


def no_eigen_random(ctx, rule='no-rand-based-eigen-random'):
    n = 0
    for fn in ctx.F.functions:
        for x in fn.walk():
            if x['k'] in ('CallExpr', 'CXXMemberCallExpr') and x.get('callee') in ('Random', 'setRandom'):
                ctx.fail(rule, '%s->%s' % (fn.tq, x['callee']), fn.loc(x), 'Eigen\'s %s() draws from std::rand (global state)' % x['callee'])
            n += 1
    ctx.ok(rule, '<library>', '/repo/include/Spectra', 'no call of Eigen Random()/setRandom() in %d function bodies' % len(ctx.F.functions))


def draws_advance_object(ctx, rule='draw-advances-the-generator-object'):
    """Successive draws from one generator object form ONE Park-Miller sequence only if every draw advances the state stored in
    the object: the state handed (by reference) to the scalar draw routine is the object's own field, or a local that was
    loaded from the field and is stored back to it on every path from the draw to the function's exit."""
    from . import paths
    n = 0
    for fn in ctx.F.concrete():
        if fn.cls != 'Spectra::SimpleRandom' or not fn.cfg or fn.d.get('ctor'):
            continue
        rec = [r for r in ctx.F.records.values() if r['qname'] == fn.record and not r['dep']][0]
        state = [f['name'] for f in rec['fields'] if f['type'] in ('long', 'unsigned long', 'int')]
        if len(state) != 1:
            raise AnalysisBroken('%s: generator state field not identified (%s)' % (fn.record, state))
        st = state[0]
        draws = [x for x in fn.walk() if x['k'] == 'CallExpr' and x.get('callee') in ('run', 'next_long_rand')]
        if not draws:
            continue
        n += 1
        problems = []
        for c in draws:
            a = fn.call_args(c)
            r = fn.root_of(a[0]) if a else None
            if r == ('field', st):
                continue
            if r is not None and r[0] == 'local':
                vid = r[1]
                backs = set(x['id'] for x in fn.walk() if x['k'] == 'BinaryOperator' and x.get('op') == '=' and
                            fn.root_of(fn.nodes[x['c'][0]]) == ('field', st) and fn.root_of(fn.nodes[x['c'][1]]) == ('local', vid))
                hit = paths.search(fn, [fn.pos_of(c)], stop=lambda m: m['id'] in backs, target=lambda m: m['k'] == 'ReturnStmt',
                                   exit_is_target=lambda b: True, normal_only=True)
                if hit is not None:
                    problems.append('`%s` advances the local copy `%s` of the state, which is not stored back to %s on every path: the object does not advance and the next draw repeats' %
                                    (fn.s(c['id'])[:50], fn.locals[vid]['name'], st))
            else:
                problems.append('`%s` does not draw from the object state %s' % (fn.s(c['id'])[:50], st))
        ctx.check(not problems, rule, 'SimpleRandom::%s' % fn.name, fn.qname,
                  '%d draw call(s) advance the object state %s itself' % (len(draws), st) if not problems else '; '.join(problems))
    if n < 2:
        raise AnalysisBroken('only %d drawing members of SimpleRandom analysed' % n)


def step_is_park_miller(ctx, rule='step-congruent-to-park-miller'):
    """Congruence abstract interpretation of the step function (rules/congruence.py): on every path the returned value is
    = 16807 * state modulo 2^31 - 1, as an identity of the body's own integer arithmetic (bit-field splits x = 2^k hi + lo,
    carry-removing masks), decided by linear algebra over GF(2^31 - 1).  Together with the interval result (value in
    [0, 2^31 - 1]), 2^31 - 1 prime and 16807 not a multiple of it: for every state s in [1, 2^31 - 2] the next state is
    EXACTLY (16807 s) mod (2^31 - 1), which lies in [1, 2^31 - 2] again -- the Park-Miller sequence, never degenerate.  The
    multiplier and the modulus are those the property names (the oracle), not constants read from the code."""
    from . import congruence, interval
    A, M = 16807, 2 ** 31 - 1
    fns = ctx.F.insts('Spectra::next_long_rand')
    if not fns:
        raise AnalysisBroken('step function next_long_rand not found')
    arith = congruence.is_prime(M) and A % M != 0
    for fn in fns:
        res, neq = congruence.step_congruent(fn, (0, M), A, M)
        for i, (ok, where, detail, iv) in enumerate(res):
            ctx.check(ok, rule, 'next_long_rand@return-path-%d' % i, where,
                      ('next = 16807 * state (mod 2^31-1) on this path (%d split equations; %s)' % (neq, detail)) if ok else
                      'the step is not the Park-Miller step on this path: ' + detail)
        (lo, hi), npaths = interval.result_range(fn, [(0, M)])
        nondeg = arith and lo >= 0 and hi <= M and all(r[0] for r in res)
        ctx.check(nondeg, 'state-never-degenerate', 'next_long_rand', fn.qname,
                  'value in [0, 2^31-1] and = 16807*s mod the prime 2^31-1: for s in [1, 2^31-2] the next state is exactly (16807 s) mod (2^31-1), in [1, 2^31-2]' if nondeg else
                  'cannot conclude that states stay in [1, 2^31-2]: range [%d, %d], congruence on all paths: %s' % (lo, hi, all(r[0] for r in res)))


def seed_range(ctx, rule='library-seeds-are-proper-states'):
    """Every seed expression at a generator construction site, with its loop counters in [0, 2^20] (the bound the property
    names), evaluates into [0, 2^31 - 2]; the constructor maps 0 to 1 and keeps the rest: the first state is in [1, 2^31 - 2]."""
    from . import interval
    M = 2 ** 31 - 1
    n = 0
    for fn in ctx.F.concrete():
        for x in fn.walk():
            if x['k'] in ('CXXConstructExpr', 'CXXTemporaryObjectExpr') and x.get('ctor_of') == 'Spectra::SimpleRandom' and not x.get('copy') and not x.get('move'):
                args = fn.call_args(x)
                if len(args) != 1:
                    continue
                env = {}
                for y in fn.walk(args[0]):
                    if y['k'] == 'DeclRefExpr' and 'var' in y and 'cval' not in y:
                        env[y['var']] = (0, 2 ** 20)
                try:
                    lo, hi = interval.ev(fn, args[0], env)
                except interval.Unsupported as e:
                    ctx.fail(rule, '%s::%s' % (fn.cls.replace('Spectra::', ''), fn.name), fn.loc(x), 'seed %s outside the interval domain: %s' % (fn.s(args[0]), e))
                    n += 1
                    continue
                n += 1
                ok = lo >= 0 and hi <= M - 1
                ctx.check(ok, rule, '%s::%s' % (fn.cls.replace('Spectra::', ''), fn.name), fn.qname,
                          'seed %s in [%d, %d] for counters up to 2^20: a proper state after normalisation' % (fn.s(args[0]), lo, hi) if ok else
                          'seed %s may reach [%d, %d]: outside [0, 2^31-2] (the degenerate states 0 and 2^31-1 become reachable)' % (fn.s(args[0]), lo, hi))
    if n < 4:
        raise AnalysisBroken('only %d generator construction sites analysed' % n)


def run(ctx):
    ir_effects(ctx)
    draws_advance_object(ctx)
    state_range(ctx)
    step_is_park_miller(ctx)
    seed_range(ctx)
    seed_normalisation(ctx)
    seed_provenance(ctx)
    hygiene.rng_objects_are_locals(ctx)
    no_eigen_random(ctx)
    hygiene.non_reentrant_calls(ctx)
    hygiene.unsequenced_side_effects(ctx, scope=lambda fn: fn.qname.startswith(('Spectra::RandomScalar<', 'Spectra::SimpleRandom<', 'Spectra::next_long_rand')), min_instances=6)
    ctx.require('generator-effects', 13)
    ctx.require('seed-provenance', 4)
    ctx.require('step-congruent-to-park-miller', 1)
    ctx.require('state-never-degenerate', 1)
    ctx.require('library-seeds-are-proper-states', 4)
