"""Fact base: loads the JSON written by bin/spectra-facts and offers tree / CFG queries.

Everything here is generic plumbing (no property knowledge).  Nodes are the clang AST nodes of a
function body; the CFG is clang::CFG with every sub-expression as its own element, in evaluation
order.  Callees, members and declarations are the *resolved* entities, never text.
"""
import json
import os
from collections import defaultdict

TRANSPARENT = {
    'ImplicitCastExpr', 'MaterializeTemporaryExpr', 'ExprWithCleanups', 'CXXBindTemporaryExpr',
    'ParenExpr', 'ConstantExpr', 'SubstNonTypeTemplateParmExpr', 'CXXFunctionalCastExpr',
    'CXXStaticCastExpr', 'CStyleCastExpr', 'FullExpr',
}
IMPLICIT_ONLY = {
    'ImplicitCastExpr', 'MaterializeTemporaryExpr', 'ExprWithCleanups', 'CXXBindTemporaryExpr',
    'ParenExpr', 'ConstantExpr', 'SubstNonTypeTemplateParmExpr', 'FullExpr',
}
CALL_KINDS = {'CallExpr', 'CXXMemberCallExpr', 'CXXOperatorCallExpr', 'CXXConstructExpr',
              'CXXTemporaryObjectExpr'}


class AnalysisBroken(Exception):
    """The analysis cannot decide (anchor vanished, unknown idiom, vacuous rule). Exit code 2."""


class Function:
    def __init__(self, d, tu):
        self.d = d
        self.tu = tu
        self.name = d['name']
        self.qname = d['qname']
        self.cls = d.get('cls', '')
        self.tq = d.get('tq', '')
        self.dep = d['dep']
        self.file = os.path.normpath(d['file'])
        self.line = d['line']
        self.endline = d.get('endline', d['line'])
        self.mangled = d.get('mangled', '')
        self.record = d.get('record', '')
        self.cargs = d.get('cargs', [])
        self.nodes = d['nodes']
        self.locals = {v['id']: v for v in d['locals']}
        self.params = d['params']
        self.body = d['body']
        self.inits = d.get('inits', [])
        self.cfg = d.get('cfg')
        self.parent = {}
        for n in self.nodes:
            for c in self._all_children(n):
                if c >= 0 and c not in self.parent:
                    self.parent[c] = n['id']
        self._blocks = None
        self._elem_pos = None

    # ------------------------------------------------------------------ tree
    def _all_children(self, n):
        out = list(n.get('c', []))
        for k in ('cond', 'then', 'else', 'init', 'inc', 'body', 'value', 'sub'):
            v = n.get(k)
            if isinstance(v, int) and v >= 0 and v not in out:
                out.append(v)
        for d in n.get('decls', []):
            if 'init' in d and d['init'] not in out:
                out.append(d['init'])
        return out

    def node(self, i):
        return self.nodes[i] if i is not None and i >= 0 else None

    def kids(self, n):
        if isinstance(n, int):
            n = self.nodes[n]
        return [self.nodes[c] for c in self._all_children(n) if c >= 0]

    def walk(self, root=None):
        """Pre-order walk of the subtree (default: whole function including ctor initialisers)."""
        if root is None:
            roots = [i['expr'] for i in self.inits if i['expr'] >= 0]
            if self.body >= 0:
                roots.append(self.body)
        else:
            roots = [root if isinstance(root, int) else root['id']]
        seen = set()
        stack = list(reversed(roots))
        while stack:
            i = stack.pop()
            if i in seen or i < 0:
                continue
            seen.add(i)
            n = self.nodes[i]
            yield n
            for c in reversed(self._all_children(n)):
                stack.append(c)

    def strip(self, n, explicit_casts=True):
        """Skip implicit wrappers (and value-preserving explicit casts)."""
        if isinstance(n, int):
            n = self.node(n)
        skip = TRANSPARENT if explicit_casts else IMPLICIT_ONLY
        while n is not None and n['k'] in skip and n.get('c'):
            n = self.nodes[n['c'][0]]
        return n

    def ancestors(self, n):
        i = n['id'] if isinstance(n, dict) else n
        while i in self.parent:
            i = self.parent[i]
            yield self.nodes[i]

    def within(self, n, root):
        r = root['id'] if isinstance(root, dict) else root
        i = n['id'] if isinstance(n, dict) else n
        if i == r:
            return True
        for a in self.ancestors(i):
            if a['id'] == r:
                return True
        return False

    def loc(self, n=None):
        if n is None:
            return '%s:%d' % (self.file, self.line)
        if isinstance(n, int):
            n = self.nodes[n]
        return '%s:%d' % (self.file, n.get('l', self.line))

    # ------------------------------------------------------------------ classification helpers
    def is_call(self, n):
        return n['k'] in CALL_KINDS

    def callee(self, n):
        return n.get('callee')

    def call_args(self, n):
        """Argument nodes of a call (without the callee expression / implicit object)."""
        k = n['k']
        c = [self.nodes[i] for i in n.get('c', [])]
        if k in ('CXXConstructExpr', 'CXXTemporaryObjectExpr'):
            return c
        if k == 'CXXOperatorCallExpr':
            # c[0] = callee decl ref, then operands (first operand is the object for member operators)
            return c[1:]
        return c[1:]

    def call_object(self, n):
        """The implicit object expression of a member call / member operator call (or None)."""
        k = n['k']
        if k == 'CXXMemberCallExpr':
            me = self.strip(self.nodes[n['c'][0]])
            if me and me['k'] == 'MemberExpr' and me.get('c'):
                return self.nodes[me['c'][0]]
            return None
        if k == 'CXXOperatorCallExpr' and len(n.get('c', [])) >= 2 and not n.get('cstatic'):
            return self.nodes[n['c'][1]]
        return None

    def root_of(self, n):
        """Storage root of an access path: ('field', name) / ('local', varid) / ('this',) / ('call', node) / None.

        Follows member accesses, subscripts, Eigen view-producing calls and implicit wrappers down to
        the object the expression is rooted in."""
        seen = 0
        while n is not None and seen < 200:
            seen += 1
            n = self.strip(n)
            if n is None:
                return None
            k = n['k']
            if k == 'MemberExpr':
                base = self.strip(self.nodes[n['c'][0]]) if n.get('c') else None
                if n.get('mk') == 'field':
                    if base is None or base['k'] == 'CXXThisExpr':
                        return ('field', n['member'])
                    n = base
                    continue
                n = base
                continue
            if k == 'CXXThisExpr':
                return ('this',)
            if k == 'DeclRefExpr':
                if 'var' in n:
                    return ('local', n['var'])
                return ('global', n.get('q', n.get('name')))
            if k in ('CXXMemberCallExpr', 'CXXOperatorCallExpr'):
                o = self.call_object(n)
                if o is None:
                    return ('call', n['id'])
                n = o
                continue
            if k == 'ArraySubscriptExpr':
                n = self.nodes[n['c'][0]]
                continue
            if k == 'UnaryOperator' and n.get('op') in ('*', '&'):
                n = self.nodes[n['c'][0]]
                continue
            if k == 'CXXDependentScopeMemberExpr':
                if n.get('c'):
                    n = self.nodes[n['c'][0]]
                    continue
                return ('field', n.get('member'))
            return ('expr', n['id'])
        return None

    def field_name(self, n):
        """Name of the field if n (after stripping) is `this->field` / `field`, else None."""
        n = self.strip(n)
        if n and n['k'] == 'MemberExpr' and n.get('mk') == 'field':
            base = self.strip(self.nodes[n['c'][0]]) if n.get('c') else None
            if base is None or base['k'] == 'CXXThisExpr':
                return n['member']
        return None

    def mentions(self, root):
        """All (kind, name) leaves below root: fields, locals, params, enumerators, literals."""
        out = []
        for n in self.walk(root):
            k = n['k']
            if k == 'MemberExpr' and n.get('mk') == 'field':
                out.append(('field', n['member']))
            elif k == 'DeclRefExpr':
                if 'var' in n:
                    out.append((n['dk'], n['name'], n['var']))
                elif n.get('dk') == 'enumerator':
                    out.append(('enumerator', n['name']))
            elif k in ('IntegerLiteral', 'FloatingLiteral', 'CXXBoolLiteralExpr'):
                out.append(('lit', n['val']))
        return out

    # ------------------------------------------------------------------ pretty printer
    def s(self, n, depth=0):
        """Pseudo-source of an expression / statement, for reports and evidence only."""
        if n is None:
            return ''
        if isinstance(n, int):
            if n < 0:
                return ''
            n = self.nodes[n]
        if depth > 40:
            return '...'
        k = n['k']
        c = n.get('c', [])
        S = lambda i: self.s(i, depth + 1)
        if k in IMPLICIT_ONLY:
            return S(c[0]) if c else ''
        if k == 'ParenExpr':
            return '(' + S(c[0]) + ')'
        if k in ('CXXStaticCastExpr', 'CStyleCastExpr', 'CXXFunctionalCastExpr', 'CXXConstCastExpr',
                 'CXXReinterpretCastExpr'):
            return '%s(%s)' % (n.get('to', 'cast'), S(c[0]) if c else '')
        if k == 'DeclRefExpr':
            return n['name']
        if k == 'CXXThisExpr':
            return 'this'
        if k == 'MemberExpr':
            b = self.strip(self.nodes[c[0]], explicit_casts=False) if c else None
            if b is None or b['k'] == 'CXXThisExpr':
                return n['member']
            return S(c[0]) + ('->' if n.get('arrow') else '.') + n['member']
        if k in ('IntegerLiteral', 'FloatingLiteral', 'CXXBoolLiteralExpr'):
            return n['val']
        if k == 'StringLiteral':
            return json.dumps(n.get('val', ''))
        if k == 'BinaryOperator' or k == 'CompoundAssignOperator':
            return '%s %s %s' % (S(c[0]), n['op'], S(c[1]))
        if k == 'UnaryOperator':
            return (S(c[0]) + n['op']) if n.get('postfix') else (n['op'] + S(c[0]))
        if k == 'ConditionalOperator':
            return '%s ? %s : %s' % (S(c[0]), S(c[1]), S(c[2]))
        if k == 'CXXMemberCallExpr':
            return '%s(%s)' % (S(c[0]), ', '.join(S(i) for i in c[1:]))
        if k == 'CXXOperatorCallExpr':
            op = n.get('op', '?')
            a = c[1:]
            if op == '()':
                return '%s(%s)' % (S(a[0]), ', '.join(S(i) for i in a[1:]))
            if op == '[]':
                return '%s[%s]' % (S(a[0]), S(a[1]))
            if len(a) == 2:
                return '%s %s %s' % (S(a[0]), op, S(a[1]))
            if len(a) == 1:
                return op + S(a[0])
            return op + '(' + ', '.join(S(i) for i in a) + ')'
        if k == 'CallExpr':
            return '%s(%s)' % (S(c[0]) if c else n.get('callee', '?'), ', '.join(S(i) for i in c[1:]))
        if k in ('CXXConstructExpr', 'CXXTemporaryObjectExpr'):
            if k == 'CXXConstructExpr' and len(c) == 1 and not n.get('temp'):
                return S(c[0])
            return '%s(%s)' % (n.get('ctor_of', 'ctor').split('::')[-1], ', '.join(S(i) for i in c))
        if k == 'CXXThrowExpr':
            return 'throw ' + (S(c[0]) if c else '')
        if k == 'ReturnStmt':
            return 'return ' + S(n.get('value', -1))
        if k == 'DeclStmt':
            parts = []
            for d in n.get('decls', []):
                if 'var' in d:
                    v = self.locals[d['var']]
                    parts.append(v['name'] + ((' = ' + S(d['init'])) if 'init' in d else ''))
            return 'decl ' + ', '.join(parts)
        if k == 'CXXNewExpr':
            return 'new ' + n.get('alloc', '') + '(' + ', '.join(S(i) for i in c) + ')'
        if k == 'CXXDeleteExpr':
            return 'delete ' + (S(c[0]) if c else '')
        if k == 'ArraySubscriptExpr':
            return '%s[%s]' % (S(c[0]), S(c[1]))
        if k == 'CXXDefaultArgExpr':
            return '<default %s>' % n.get('parm', '')
        if k == 'LambdaExpr':
            return '<lambda>'
        if k == 'IfStmt':
            return 'if (%s)' % S(n.get('cond', -1))
        if k == 'ForStmt':
            return 'for (%s; %s; %s)' % (S(n.get('init', -1)), S(n.get('cond', -1)), S(n.get('inc', -1)))
        if k == 'WhileStmt':
            return 'while (%s)' % S(n.get('cond', -1))
        if k == 'CXXDependentScopeMemberExpr':
            return (S(c[0]) + '.' if c else '') + n.get('member', '?')
        if k == 'UnresolvedLookupExpr' or k == 'DependentScopeDeclRefExpr':
            return n.get('name', '?')
        if k == 'UnresolvedMemberExpr':
            return (S(c[0]) + '.' if c else '') + n.get('member', '?')
        return k

    # ------------------------------------------------------------------ CFG
    @property
    def blocks(self):
        if self._blocks is None:
            if not self.cfg:
                raise AnalysisBroken('no CFG for %s' % self.qname)
            self._blocks = {b['id']: b for b in self.cfg['blocks']}
        return self._blocks

    def succs(self, bid, pruned=False):
        out = []
        for s in self.blocks[bid]['succs']:
            if isinstance(s, int):
                out.append(s)
            elif isinstance(s, dict) and pruned:
                out.append(s['pruned'])
        return out

    def elem_nodes(self, bid):
        """(index, node) for the statement elements of a block, in evaluation order."""
        for i, e in enumerate(self.blocks[bid]['elems']):
            if isinstance(e, int):
                yield i, self.nodes[e]

    @property
    def elem_pos(self):
        """node id -> (block id, index) for nodes that are CFG elements."""
        if self._elem_pos is None:
            m = {}
            for b in self.cfg['blocks']:
                for i, e in enumerate(b['elems']):
                    if isinstance(e, int) and e not in m:
                        m[e] = (b['id'], i)
            self._elem_pos = m
        return self._elem_pos

    def pos_of(self, n):
        """CFG position of a node: its own, or that of the nearest ancestor that is an element."""
        i = n['id'] if isinstance(n, dict) else n
        while True:
            p = self.elem_pos.get(i)
            if p is not None:
                return p
            if i not in self.parent:
                return None
            i = self.parent[i]

    def preds(self):
        p = defaultdict(list)
        for b in self.cfg['blocks']:
            for s in self.succs(b['id']):
                p[s].append(b['id'])
        return p

    def dominators(self):
        """Block-level dominator sets (iterative)."""
        ids = [b['id'] for b in self.cfg['blocks']]
        entry = self.cfg['entry']
        preds = self.preds()
        dom = {i: set(ids) for i in ids}
        dom[entry] = {entry}
        changed = True
        while changed:
            changed = False
            for i in ids:
                if i == entry:
                    continue
                ps = [dom[p] for p in preds[i]]
                new = set.intersection(*ps) if ps else set()
                new = new | {i}
                if new != dom[i]:
                    dom[i] = new
                    changed = True
        return dom

    def reachable_blocks(self):
        seen = set()
        stack = [self.cfg['entry']]
        while stack:
            b = stack.pop()
            if b in seen:
                continue
            seen.add(b)
            stack.extend(self.succs(b))
        return seen

    def block_ends_in_throw(self, bid):
        for _, n in self.elem_nodes(bid):
            if n['k'] == 'CXXThrowExpr':
                return True
        return False


class Facts:
    def __init__(self, files):
        self.files = files
        self.functions = []      # all, including duplicates across TUs removed
        self.by_mangled = {}
        self.by_record = defaultdict(lambda: defaultdict(list))   # record qname -> method name -> [Function]
        self.by_tq = defaultdict(list)       # 'Spectra::HermEigsBase::compute' -> [Function] (instantiated)
        self.patterns = defaultdict(list)    # same key -> dependent pattern functions
        self.records = {}                    # qname -> record dict (instantiated and patterns)
        self.records_by_tmpl = defaultdict(list)
        self.enums = {}
        self.vars = []
        self.tus = []
        seen_pat = set()
        seen_var = set()
        for f in files:
            with open(f) as fh:
                d = json.load(fh)
            tu = os.path.basename(f)
            self.tus.append(tu)
            for r in d['records']:
                key = (r['qname'], r['dep'], r['file'], r['line'])
                if key in self.records:
                    continue
                self.records[key] = r
                self.records_by_tmpl[r['tmpl']].append(r)
            for e in d['enums']:
                self.enums[e['qname']] = e
            for v in d['vars']:
                key = (v['qname'], v['file'], v['line'], v['dep'])
                if key not in seen_var:
                    seen_var.add(key)
                    self.vars.append(v)
            for fd in d['functions']:
                if fd['dep']:
                    key = (fd['qname'], fd['file'], fd['line'])
                    if key in seen_pat:
                        continue
                    seen_pat.add(key)
                    fn = Function(fd, tu)
                    self.patterns[fn.tq].append(fn)
                    self.functions.append(fn)
                else:
                    m = fd.get('mangled') or (fd['qname'] + '@' + str(fd['line']))
                    if m in self.by_mangled:
                        continue
                    fn = Function(fd, tu)
                    self.by_mangled[m] = fn
                    self.by_tq[fn.tq].append(fn)
                    if fn.record:
                        self.by_record[fn.record][fn.name].append(fn)
                    self.functions.append(fn)

    def insts(self, tq, required=True):
        """Instantiated functions of template-qualified name, e.g. 'Spectra::HermEigsBase::compute'."""
        r = self.by_tq.get(tq, [])
        if required and not r:
            raise AnalysisBroken('anchor function %s has no analysed instantiation' % tq)
        return r

    def pats(self, tq, required=True):
        r = self.patterns.get(tq, [])
        if required and not r:
            raise AnalysisBroken('anchor function template %s not found' % tq)
        return r

    def method(self, record, name, required=True):
        """The (first) analysed method `name` of an instantiated record."""
        r = self.by_record.get(record, {}).get(name, [])
        if not r:
            if required:
                raise AnalysisBroken('anchor method %s::%s has no analysed instantiation' % (record, name))
            return None
        return r[0]

    def methods(self, record):
        return [f for fs in self.by_record.get(record, {}).values() for f in fs]

    def concrete(self):
        return [f for f in self.functions if not f.dep]

    def records_of(self, tmpl, dep=None, required=True):
        r = [x for x in self.records_by_tmpl.get(tmpl, []) if dep is None or x['dep'] == dep]
        if required and not r:
            raise AnalysisBroken('anchor class %s not found (dep=%s)' % (tmpl, dep))
        return r

    def resolve(self, call_node):
        """Function object of a call's callee if it is a Spectra function that was analysed."""
        m = call_node.get('mangled')
        if m:
            return self.by_mangled.get(m)
        return None

    def overriders(self, fn):
        """Functions (analysed) that override fn, transitively."""
        out = []
        todo = [fn.mangled]
        seen = set(todo)
        while todo:
            m = todo.pop()
            for g in self.by_mangled.values():
                if m in g.d.get('overrides', []) and g.mangled not in seen:
                    seen.add(g.mangled)
                    out.append(g)
                    todo.append(g.mangled)
        return out
