"""Multivariate integer polynomials over named atoms, built from sym.py terms.  Used for exact (symbolic) comparison of
update formulas: two formulas agree iff their expanded polynomials are identical."""


class Unsupported(Exception):
    pass


class Poly:
    __slots__ = ('t',)

    def __init__(self, t=None):
        self.t = {k: v for k, v in (t or {}).items() if v != 0}

    @staticmethod
    def const(n):
        return Poly({(): n})

    @staticmethod
    def atom(a):
        return Poly({(a,): 1})

    def __add__(self, o):
        r = dict(self.t)
        for k, v in o.t.items():
            r[k] = r.get(k, 0) + v
        return Poly(r)

    def __neg__(self):
        return Poly({k: -v for k, v in self.t.items()})

    def __sub__(self, o):
        return self + (-o)

    def __mul__(self, o):
        r = {}
        for k1, v1 in self.t.items():
            for k2, v2 in o.t.items():
                k = tuple(sorted(k1 + k2))
                r[k] = r.get(k, 0) + v1 * v2
        return Poly(r)

    def __eq__(self, o):
        return self.t == o.t

    def __hash__(self):
        return hash(frozenset(self.t.items()))

    def subst(self, a, p):
        """replace atom a by polynomial p"""
        out = Poly()
        for k, v in self.t.items():
            term = Poly.const(v)
            for x in k:
                term = term * (p if x == a else Poly.atom(x))
            out = out + term
        return out

    def reduce(self, a, b, val=1):
        """apply the relation a^2 + b^2 = val by rewriting every a^2 to (val - b^2)"""
        out = Poly()
        for k, v in self.t.items():
            na = sum(1 for x in k if x == a)
            rest = tuple(x for x in k if x != a)
            term = Poly({rest: v})
            sq = Poly.const(val) - Poly.atom(b) * Poly.atom(b)
            for _ in range(na // 2):
                term = term * sq
            if na % 2:
                term = term * Poly.atom(a)
            out = out + term
        return out

    def __str__(self):
        if not self.t:
            return '0'
        parts = []
        for k in sorted(self.t):
            v = self.t[k]
            mon = '*'.join(k)
            if not k:
                parts.append('%+d' % v)
            elif v == 1:
                parts.append('+' + mon)
            elif v == -1:
                parts.append('-' + mon)
            else:
                parts.append('%+d*%s' % (v, mon))
        s = ' '.join(parts)
        return s[1:] if s.startswith('+') else s

    __repr__ = __str__


def from_term(t, leaf):
    """sym term -> Poly.  leaf(term) -> Poly | None decides atoms (locals, field reads, ...)."""
    p = leaf(t)
    if p is not None:
        return p
    if not isinstance(t, tuple):
        raise Unsupported(repr(t))
    op = t[0]
    if op == 'lit':
        try:
            f = float(t[1])
        except ValueError:
            raise Unsupported(repr(t))
        if f != int(f):
            raise Unsupported(repr(t))
        return Poly.const(int(f))
    if op in ('+', '-', '*') and len(t) == 3:
        a, b = from_term(t[1], leaf), from_term(t[2], leaf)
        return a + b if op == '+' else a - b if op == '-' else a * b
    if op == 'u-' and len(t) == 2:
        return -from_term(t[1], leaf)
    if op in ('cast', 'ctor') and len(t) >= 2:
        return from_term(t[-1], leaf)
    raise Unsupported(repr(t))
