"""Library-wide structural rules: static state, mutable fields, handlers, raw allocation, non-reentrant calls.
Evaluated on template *patterns* as well as instantiations, so code no driver instantiates is covered too."""
from .facts import AnalysisBroken
from . import tables


def _mutable_static(v):
    """A variable with static / thread storage that can change after initialisation."""
    return not (v.get('const') or v.get('constexpr'))


def static_state(ctx, rule='no-mutable-static-state'):
    # positive control: the rule must see the three mutable statics of the control TU and not the constant
    cv = [v for v in ctx.C.vars]
    flagged = set(v['name'] for v in cv if _mutable_static(v))
    if not {'g_counter', 's_member', 'cache'} <= flagged or 'g_const' in flagged:
        raise AnalysisBroken('positive control for static state not matched (saw %s)' % sorted(flagged))
    n = 0
    for v in ctx.F.vars:
        n += 1
        bad = _mutable_static(v)
        ctx.check(not bad, rule, v['qname'] or v['name'], '%s:%d' % (v['file'], v['line']),
                  '%s %s is constant' % (v['where'], v['name']) if not bad else
                  '%s-scope variable `%s` (%s) has static storage and is not const: shared by every solver in the process' %
                  (v['where'], v['name'], v['type']))
    # also: no function body declares a static local (redundant with vars; guards extractor changes)
    for fn in ctx.F.functions:
        for lv in fn.locals.values():
            if lv.get('static_local') and not lv.get('const'):
                ctx.fail(rule, '%s::%s' % (fn.tq, lv['name']), fn.loc(), 'function-local static `%s` is mutable' % lv['name'])
    # references to mutable globals defined outside the library
    for fn in ctx.F.functions:
        for x in fn.walk():
            if x['k'] == 'DeclRefExpr' and x.get('dk') == 'global' and not x.get('const'):
                ctx.fail(rule, '%s->%s' % (fn.tq, x.get('q')), fn.loc(x), 'reads or writes the mutable global %s' % x.get('q'))
    ctx.ok(rule, '<library>', '/repo/include/Spectra',
           '%d static-storage variables, %d function bodies scanned: none mutable' % (n, len(ctx.F.functions)))


def mutable_fields(ctx, rule='mutable-fields-classified'):
    ctl = [f for r in ctx.C.records.values() for f in r['fields'] if f.get('mutable')]
    if not ctl:
        raise AnalysisBroken('positive control for mutable fields not matched')
    seen = set()
    for r in ctx.F.records.values():
        for f in r['fields']:
            if not f.get('mutable'):
                continue
            key = (r['tmpl'], f['name'])
            if key in seen:
                continue
            seen.add(key)
            why = tables.MUTABLE_FIELDS.get(key)
            ctx.check(why is not None, rule, '%s::%s' % key, '%s:%d' % (r['file'], f['line']),
                      why if why else 'mutable field not in the classification table: a const object of this class changes '
                      'under a const call (shared use would race)')
    missing = set(tables.MUTABLE_FIELDS) - seen
    for k in sorted(missing):
        ctx.note('table entry %s::%s no longer exists' % k)


def shareable_wrappers(ctx, rule='shareable-wrapper-is-immutable'):
    for tmpl, why in sorted(tables.SHAREABLE_WRAPPERS.items()):
        recs = ctx.F.records_of(tmpl)
        if not any(not r['dep'] for r in recs):
            raise AnalysisBroken('%s has no analysed instantiation' % tmpl)
        problems = []
        for r in recs:
            for f in r['fields']:
                if f.get('mutable'):
                    problems.append('field %s is mutable' % f['name'])
                if not f.get('const') and not (f.get('ref') and f['type'].startswith('const ')):
                    problems.append('field %s (%s) is not const' % (f['name'], f['type'][:60]))
            for m in r['methods']:
                if m.get('ctor') or m.get('dtor') or m.get('static') or m.get('deleted'):
                    continue
                if not m.get('const'):
                    problems.append('member %s is not const' % m['name'])
            if r.get('static_members'):
                for sm in r['static_members']:
                    if not (sm.get('const') or sm.get('constexpr')):
                        problems.append('static member %s' % sm['name'])
        for fn in ctx.F.functions:
            if fn.cls != tmpl:
                continue
            for x in fn.walk():
                if x['k'] == 'CXXConstCastExpr':
                    problems.append('const_cast in %s at %s' % (fn.name, fn.loc(x)))
            if not fn.dep and not fn.d.get('ctor'):
                for a in ctx.E.of(fn).accesses:
                    if a.mode == 'w' and a.path and a.path[0] != '%local':
                        problems.append('%s writes field %s' % (fn.name, a.path[0]))
        problems = sorted(set(problems))
        ctx.check(not problems, rule, tmpl.replace('Spectra::', ''), recs[0]['file'],
                  'only const state and const operations (%s)' % why if not problems else '; '.join(problems))


def rng_objects_are_locals(ctx, rule='rng-objects-are-automatic-locals'):
    n = 0
    for r in ctx.F.records.values():
        for f in r['fields']:
            if 'SimpleRandom' in f['type']:
                ctx.fail(rule, '%s::%s' % (r['tmpl'], f['name']), r['file'], 'generator stored as a field: state shared across calls')
    for v in ctx.F.vars:
        if 'SimpleRandom' in v['type']:
            ctx.fail(rule, v['qname'], v['file'], 'generator with static storage')
    seen = set()
    for fn in ctx.F.functions:
        for x in fn.walk():
            if x['k'] in ('CXXConstructExpr', 'CXXTemporaryObjectExpr') and x.get('ctor_of') == 'Spectra::SimpleRandom' and not x.get('copy') and not x.get('move'):
                par = fn.node(fn.parent.get(x['id'], -1))
                key = (fn.tq, x['l'] - fn.line)
                if key in seen and fn.dep is False:
                    pass
                okl = par is not None and par['k'] == 'DeclStmt' and all(not fn.locals[d['var']].get('static_local') for d in par['decls'] if 'var' in d)
                n += 1
                ctx.check(okl, rule, '%s#%d' % (fn.tq.replace('Spectra::', ''), key[1]), fn.qname,
                          'automatic local generator' if okl else 'generator object is not an automatic local (%s)' % fn.loc(x))
        for x in fn.walk():
            if x['k'] == 'CXXUnresolvedConstructExpr' and 'SimpleRandom' in x.get('to', ''):
                n += 1
    return n


def handlers(ctx, rule='no-exception-handler-or-noexcept'):
    """Nothing in the library catches: an exception thrown by the user's operator propagates unchanged."""
    # positive control
    ctl_try = sum(1 for fn in ctx.C.functions for x in fn.walk() if x['k'] in ('CXXTryStmt', 'CXXCatchStmt'))
    ctl_ne = sum(1 for fn in ctx.C.functions if fn.d.get('noexcept'))
    if ctl_try < 2 or ctl_ne < 1:
        raise AnalysisBroken('positive control for try/catch/noexcept not matched (%d, %d)' % (ctl_try, ctl_ne))
    n = 0
    for fn in ctx.F.functions:
        n += 1
        for x in fn.walk():
            if x['k'] in ('CXXTryStmt', 'CXXCatchStmt'):
                ctx.fail(rule, '%s@%s' % (fn.tq, x['k']), fn.loc(x),
                         'exception handler in the library: an exception from the user\'s operator may be swallowed or altered (%s)' % x.get('caught', ''))
        if fn.d.get('noexcept') and not fn.d.get('dtor') and fn.tq not in tables.NOEXCEPT_ALLOWED:
            ctx.fail(rule, '%s@noexcept' % fn.tq, fn.loc(), 'noexcept function: an exception crossing it terminates the program')
        if fn.d.get('dtor'):
            # destructors are implicitly noexcept: they must not throw or apply an operator that may
            for x in fn.walk():
                if x['k'] == 'CXXThrowExpr':
                    ctx.fail(rule, '%s@throw' % fn.tq, fn.loc(x), 'destructor throws')
    ctx.ok(rule, '<library>', '/repo/include/Spectra', '%d function bodies (patterns and instantiations): no try/catch, no noexcept' % n)


def raw_allocation(ctx, rule='no-raw-owning-pointer'):
    """Every new-expression is the direct argument of an owner (unique_ptr constructor / reset); no malloc/delete."""
    ctl = sum(1 for fn in ctx.C.functions for x in fn.walk() if x['k'] == 'CXXNewExpr')
    if ctl < 1:
        raise AnalysisBroken('positive control for raw allocation not matched')
    n = 0
    for fn in ctx.F.functions:
        for x in fn.walk():
            if x['k'] == 'CXXDeleteExpr':
                ctx.fail(rule, '%s@delete' % fn.tq, fn.loc(x), 'manual delete: ownership is held by a raw pointer')
            if x['k'] == 'CallExpr' and x.get('callee') in ('malloc', 'calloc', 'realloc', 'free', 'aligned_alloc'):
                ctx.fail(rule, '%s@%s' % (fn.tq, x['callee']), fn.loc(x), 'raw C allocation')
            if x['k'] != 'CXXNewExpr':
                continue
            n += 1
            # nearest enclosing call
            par = fn.node(fn.parent.get(x['id'], -1))
            while par is not None and par['k'] in ('ImplicitCastExpr', 'ParenExpr', 'ExprWithCleanups', 'MaterializeTemporaryExpr',
                                                   'CXXBindTemporaryExpr', 'ParenListExpr'):
                par = fn.node(fn.parent.get(par['id'], -1))
            owned = False
            how = ''
            if par is not None and par['k'] in ('CXXMemberCallExpr', 'CXXConstructExpr', 'CXXTemporaryObjectExpr'):
                cls = par.get('cls', par.get('ctor_of', ''))
                callee = par.get('callee', '')
                cls0 = cls.split('<')[0]
                if (cls0, callee) in tables.OWNING_SINKS:
                    owned = True
                    how = '%s::%s' % (cls0, callee)
            if par is not None and par['k'] == 'CallExpr' and par.get('unresolved') and fn.dep:
                # dependent pattern: `member.reset(new T(..))` where member is a unique_ptr field -- decided on the instantiation
                owned = True
                how = 'dependent call (decided on the instantiations)'
            if par is not None and fn.dep and par['k'] in ('CXXMemberCallExpr',) and par.get('callee') == 'reset':
                owned = True
                how = 'reset'
            ordn = [y['id'] for y in fn.walk() if y['k'] == 'CXXNewExpr'].index(x['id']) + 1
            ctx.check(owned, rule, '%s#new%d' % (fn.tq.replace('Spectra::', ''), ordn), fn.qname,
                      'allocation handed directly to %s' % how if owned else
                      'result of `new %s` is held by a raw pointer at %s: leaked if anything throws before an owner exists' %
                      (x.get('alloc', ''), fn.loc(x)))
    # raw pointer fields that own (pointer-typed fields are listed; Spectra has none besides data views)
    for r in ctx.F.records.values():
        for f in r['fields']:
            if f.get('ptr') and not f['type'].startswith('const ') and 'Spectra::' in f['type']:
                ctx.fail(rule, '%s::%s' % (r['tmpl'], f['name']), r['file'], 'raw pointer field to a library object (%s)' % f['type'][:60])
    return n


def non_reentrant_calls(ctx, rule='no-non-reentrant-libc-call'):
    ctl = sum(1 for fn in ctx.C.functions for x in fn.walk() if x['k'] == 'CallExpr' and (x.get('cq') in tables.NON_REENTRANT or x.get('callee') in tables.NON_REENTRANT))
    if ctl < 1:
        raise AnalysisBroken('positive control for non-reentrant calls not matched')
    n = 0
    for fn in ctx.F.functions:
        for x in fn.walk():
            if x['k'] in ('CallExpr', 'CXXMemberCallExpr', 'CXXConstructExpr', 'CXXTemporaryObjectExpr') and x.get('org') in ('s', '?'):
                n += 1
                nm = x.get('cq', '')
                if nm in tables.NON_REENTRANT or x.get('callee') in tables.NON_REENTRANT:
                    ctx.fail(rule, '%s->%s' % (fn.tq, nm), fn.loc(x), 'calls %s, which keeps hidden global state' % nm)
            if x['k'] == 'CallExpr' and x.get('unresolved') and x.get('callee') in tables.NON_REENTRANT and x.get('c') and \
                    fn.strip(fn.nodes[x['c'][0]])['k'] == 'UnresolvedLookupExpr':
                # a free function looked up by name in a template pattern (member calls such as rng.random() are not libc)
                ctx.fail(rule, '%s->%s' % (fn.tq, x.get('callee')), fn.loc(x), 'calls %s' % x.get('callee'))
    ctx.ok(rule, '<library>', '/repo/include/Spectra', '%d calls into libc / libstdc++ classified: none in the non-reentrant table' % n)


# ---------------------------------------------------------------------------------------------------
# E3 cross-checks on the IR of the drivers
# ---------------------------------------------------------------------------------------------------
def load_program(ctx, only=None):
    from . import ir, build
    key = ('ir', tuple(sorted(only)) if only else None)
    cache = ctx.info.setdefault('_cache', {})
    if key not in cache:
        lls = ir.build_ir(ctx.info['cache_dir'], build.driver_list(ctx.tier), only=only)
        cache[key] = ir.Program(sorted(lls.values()))
        ctx.info['ir_modules'] = sorted(lls)
    return cache[key]


def ir_globals(ctx, rule='ir-no-mutable-global-reachable'):
    """(a) no function of namespace Spectra refers to a mutable global; (b) the mutable globals reachable through the
    call graph from Spectra functions are the tabulated Eigen / libstdc++ internals."""
    from . import ir
    P = load_program(ctx)
    roots = [n for n in P.funcs if ir.is_spectra(n)]
    if len(roots) < 500:
        raise AnalysisBroken('only %d Spectra functions in the IR' % len(roots))
    direct = 0
    for n in roots:
        f = P.funcs[n]
        for g in f.globals:
            info = P.globals.get(g, {})
            if ir.mutable_global(g, info):
                direct += 1
                ctx.fail(rule, 'direct:%s' % g, P.pretty.get(n, n)[:160],
                         'library function refers to the mutable global %s' % P.pretty.get(g, g))
    reach = P.reachable(roots)
    seen = {}
    for n in reach:
        f = P.funcs.get(n)
        if f is None:
            continue
        for g in f.globals:
            if ir.mutable_global(g, P.globals.get(g, {})):
                seen.setdefault(g, n)
    for g, via in sorted(seen.items()):
        why = tables.REACHABLE_GLOBAL_ALLOW.get(g)
        ctx.check(why is not None, rule, 'reachable:%s' % g, P.pretty.get(via, via)[:160],
                  why if why else 'mutable global %s is reachable from library code through %s' % (P.pretty.get(g, g), P.pretty.get(via, via)[:120]))
    ctx.ok(rule, '<library>', 'IR of %d driver modules' % len(P.mods),
           '%d Spectra functions, %d functions reachable, %d globals: no direct reference to a mutable global; %d reachable mutable globals, all tabulated' %
           (len(roots), len(reach), len(P.globals), len(seen)))
    return P, roots, reach


def ir_externals(ctx, rule='ir-external-callees'):
    """External symbols referenced directly by Spectra functions: no catch machinery, nothing non-reentrant, nothing unknown."""
    from . import ir
    P = load_program(ctx)
    roots = [n for n in P.funcs if ir.is_spectra(n)]
    ext = {}
    for n in roots:
        for c in P.funcs[n].callees:
            if c not in P.funcs:
                ext.setdefault(c, n)
    for c, via in sorted(ext.items()):
        pretty = P.pretty.get(c, c)
        bad = None
        if c in ('__cxa_begin_catch', '__cxa_end_catch', '__cxa_rethrow', '__cxa_get_exception_ptr', '_ZSt17current_exceptionv', '_ZSt18uncaught_exceptionv'):
            bad = 'exception-handling entry point %s: the library catches or inspects an exception' % c
        elif c in tables.NON_REENTRANT or pretty.split('(')[0] in tables.NON_REENTRANT:
            bad = 'non-reentrant library call %s' % pretty
        elif not c.startswith(tables.EXTERNAL_ALLOW_PREFIX):
            bad = 'external symbol %s is not in the table of expected runtime entry points' % pretty
        ctx.check(bad is None, rule, c, P.pretty.get(via, via)[:160], 'expected runtime entry point' if bad is None else bad)
    # reachable non-reentrant calls (through Eigen / libstdc++)
    reach = P.reachable(roots)
    for n in reach:
        if n in P.funcs:
            continue
        pretty = P.pretty.get(n, n).split('(')[0]
        if n in tables.NON_REENTRANT or pretty in tables.NON_REENTRANT:
            ctx.fail(rule, 'reachable:' + n, n, 'non-reentrant %s is reachable from library code' % pretty)
    return len(ext)


def noalias_destination_not_in_product(ctx, rule='noalias-destination-not-in-product', scope=None, min_instances=1):
    """`X.noalias() = A * B` tells Eigen to write the product straight into X: X is resized / zeroed before the factors are
    read, so X must not occur in a factor of a matrix product on the right-hand side (coefficient-wise uses are fine)."""
    def is_mat(fn, node):
        return 'Eigen::' in (fn.strip(node) or {}).get('t', '')
    n = 0
    ctl = [0, 0]
    for fn in list(ctx.C.functions) + list(ctx.F.concrete()):
        control = fn.qname.startswith('SpectraControl::AliasedNoalias')
        if not control and (not fn.cfg or not fn.qname.startswith('Spectra::') or (scope is not None and not scope(fn))):
            continue
        for x in fn.walk():
            if not (x['k'] == 'CXXOperatorCallExpr' and x.get('op') in ('=', '+=', '-=')):
                continue
            a = fn.call_args(x)
            lhs = fn.strip(a[0])
            if lhs is None or not (lhs['k'] == 'CXXMemberCallExpr' and lhs.get('callee') == 'noalias'):
                continue
            dest = fn.root_of(fn.call_object(lhs))
            hit = None
            if dest is not None:
                for y in fn.walk(a[1]['id']):
                    if y['k'] == 'CXXOperatorCallExpr' and y.get('op') == '*':
                        ops = fn.call_args(y)
                        if len(ops) == 2 and is_mat(fn, ops[0]) and is_mat(fn, ops[1]):
                            for o in ops:
                                for z in fn.walk(o['id']):
                                    if z['k'] in ('MemberExpr', 'DeclRefExpr') and fn.root_of(z) == dest:
                                        hit = y
            if control:
                ctl[0 if hit is not None else 1] += 1
                continue
            n += 1
            inst = '%s::%s' % ((fn.cls or '').replace('Spectra::', ''), fn.name)
            ctx.check(hit is None, rule, inst, fn.qname,
                      '`%s`: destination does not occur in a product factor' % fn.s(x['id'])[:60] if hit is None else
                      '`%s`: the destination is also a factor of the product `%s`; with noalias() Eigen overwrites it before reading it' %
                      (fn.s(x['id'])[:80], fn.s(hit['id'])[:60]))
    if ctl != [1, 1]:
        raise AnalysisBroken('noalias rule: positive control not matched exactly (aliased %d, clean %d)' % tuple(ctl))
    if n < min_instances:
        raise AnalysisBroken('only %d noalias assignments analysed (expected >= %d)' % (n, min_instances))
    return n


def unsequenced_side_effects(ctx, rule='no-unsequenced-modification', scope=None, min_instances=1):
    """Two operands of one call / constructor / arithmetic operator are evaluated in an unspecified order (C++11/14; for
    function arguments also in C++17).  If one operand may modify an object (passes it to a non-const reference parameter,
    assigns or increments it) that another operand modifies or reads, the value computed depends on the compiler."""
    CALLS = ('CallExpr', 'CXXMemberCallExpr', 'CXXConstructExpr', 'CXXTemporaryObjectExpr', 'CXXOperatorCallExpr')
    n = 0

    def effects(fn, root):
        mod, use = set(), set()
        for y in fn.walk(root):
            if y['k'] in ('DeclRefExpr', 'MemberExpr'):
                r = fn.root_of(y)
                if r is not None and r[0] in ('local', 'field'):
                    use.add(r)
            if y['k'] in CALLS:
                pm = y.get('pmut')
                args = fn.call_args(y)
                off = 1 if (y['k'] == 'CXXOperatorCallExpr' and pm is not None and len(pm) == len(args) - 1) else 0
                for j, a in enumerate(args):
                    jj = j - off
                    if jj < 0:
                        continue
                    if pm is None or jj >= len(pm) or pm[jj] != 'C':
                        st = fn.strip(a)
                        if st is not None and st['k'] in ('DeclRefExpr', 'MemberExpr') and st.get('lv', True):
                            r = fn.root_of(st)
                            if r is not None and r[0] in ('local', 'field'):
                                mod.add(r)
            if y['k'] == 'UnaryOperator' and y.get('op') in ('++', '--'):
                r = fn.root_of(fn.nodes[y['c'][0]])
                if r is not None:
                    mod.add(r)
            if y['k'] in ('BinaryOperator', 'CompoundAssignOperator') and y.get('op') in ('=', '+=', '-=', '*=', '/='):
                r = fn.root_of(fn.nodes[y['c'][0]])
                if r is not None:
                    mod.add(r)
        return mod, use
    ctl = 0
    for fn in list(ctx.C.functions) + list(ctx.F.concrete()):
        control = fn.qname.startswith('SpectraControl::unsequenced_draws')
        if not control and (not fn.cfg or not fn.qname.startswith('Spectra::') or (scope is not None and not scope(fn))):
            continue
        nsite = 0
        problems = []
        for x in fn.walk():
            ops = None
            if x['k'] in CALLS:
                ops = fn.call_args(x)
                if x['k'] == 'CXXMemberCallExpr' and fn.call_object(x) is not None:
                    ops = [fn.call_object(x)] + list(ops)
            elif x['k'] == 'BinaryOperator' and x.get('op') in ('+', '-', '*', '/', '%', '<', '>', '<=', '>=', '==', '!=', '&', '|', '^', '<<', '>>'):
                ops = [fn.nodes[c] for c in x['c']]
            if not ops or len(ops) < 2:
                continue
            eff = [effects(fn, o['id']) for o in ops]
            if not any(m for m, _ in eff):
                continue
            nsite += 1
            for i in range(len(ops)):
                for j in range(len(ops)):
                    if i == j:
                        continue
                    clash = eff[i][0] & (eff[j][0] | eff[j][1])
                    # a scalar handed by value is read before the call; only objects that operand i may MODIFY matter
                    if clash:
                        names = sorted(fn.locals[c[1]]['name'] if c[0] == 'local' else c[1] for c in clash)
                        problems.append('`%s`: operand %d may modify %s, which operand %d %s; their evaluation order is unspecified' %
                                        (fn.s(x['id'])[:80], i + 1, ', '.join(names), j + 1, 'also modifies' if eff[j][0] & clash else 'reads'))
        if control:
            ctl += 1 if problems else 0
            continue
        n += 1
        inst = '%s::%s' % ((fn.cls or '').replace('Spectra::', ''), fn.name) if fn.cls else fn.name
        ctx.check(not problems, rule, inst, fn.qname,
                  '%d expressions with a modifying operand: no other operand of the same expression touches the modified object' % nsite
                  if not problems else '; '.join(sorted(set(problems))[:2]))
    if ctl < 1:
        raise AnalysisBroken('unsequenced-modification rule: positive control not matched')
    if n < min_instances:
        raise AnalysisBroken('only %d functions analysed (expected >= %d)' % (n, min_instances))
    return n


def stored_ref_lifetime(ctx, rule='stored-matrix-reference-outlives-its-argument', min_instances=3):
    """`const Eigen::Ref<const T>&` parameters accept anything convertible to T: when the argument is not directly mappable
    (other storage order, an expression, a non-contiguous block) the caller's temporary Ref OWNS an evaluated copy, which dies at
    the end of the call's full expression.  Ref's copy constructor does not copy that owned object.  A class that keeps a copy
    of such a parameter in a Ref member therefore dangles whenever a temporary was needed.  Safe forms: the member is built
    from the expression itself (parameter of type MatrixBase / SparseMatrixBase / EigenBase <Derived>), or every construction
    site inside the library passes a member of the constructing object (whose lifetime covers the new object's)."""
    def is_cref(t):
        t = t.strip()
        return t.startswith('const Eigen::Ref<const ')
    n = 0
    nctl = 0
    for c in list(ctx.C.concrete()) + list(ctx.F.concrete()):
        control = c.qname.startswith('SpectraControl::KeepsParameterRef')
        if not c.d.get('ctor') or not ((c.cls or '').startswith('Spectra::') or control):
            continue
        recs = [r for r in (ctx.C if control else ctx.F).records.values() if r['qname'] == c.record and not r['dep']]
        if not recs:
            continue
        ftypes = {f['name']: f['type'] for f in recs[0]['fields']}
        for i in c.inits:
            ft = ftypes.get(i['member'], '')
            if not is_cref(ft) or i['expr'] < 0:
                continue
            n += 1
            src = c.strip(c.nodes[i['expr']])
            # look through the copy construction
            pv = None
            for y in c.walk(i['expr']):
                if y['k'] == 'DeclRefExpr' and 'var' in y and y['var'] in c.params:
                    pv = y['var']
                    break
            inst = '%s::%s' % (c.cls.replace('Spectra::', ''), i['member'])
            if pv is None:
                ctx.ok(rule, inst, c.qname, 'not initialised from a constructor parameter')
                continue
            pt = c.locals[pv]['type']
            if not (is_cref(pt.replace(' &', '').strip()) and pt.rstrip().endswith('&')):
                ctx.ok(rule, inst, c.qname, 'built from the argument expression itself (%s): the member owns any evaluated copy' % pt.split('<')[0])
                continue
            # parameter is a Ref by reference and the member copies it: every in-library construction must pass a live member
            sites = []
            for g in ctx.F.concrete():
                for x in g.walk():
                    if x['k'] in ('CXXConstructExpr', 'CXXTemporaryObjectExpr', 'CXXNewExpr') and (x.get('ctor_of') == c.cls or c.cls.split('::')[-1] in (x.get('alloc') or '')):
                        sites.append((g, x))
            pidx = c.params.index(pv)
            good = bool(sites)
            for g, x in sites:
                args = g.call_args(x) if x['k'] != 'CXXNewExpr' else []
                if x['k'] == 'CXXNewExpr':
                    for y in g.walk(x['id']):
                        if y['k'] in ('CXXConstructExpr', 'CXXTemporaryObjectExpr') and y['id'] != x['id']:
                            args = g.call_args(y)
                            break
                a = g.strip(args[pidx]) if pidx < len(args) else None
                if not (a is not None and a['k'] == 'MemberExpr' and a.get('mk') == 'field'):
                    good = False
            if control:
                nctl += 0 if good else 1
                continue
            ctx.check(good, rule, inst, c.qname,
                      'copied from a Ref parameter, but every construction site in the library passes a member of the constructing object' if good else
                      'the member copies the parameter `%s` of type `const Ref<const ...>&`: for an argument that needs an evaluated temporary (row-major into column-major, '
                      'an expression, a strided block) the temporary Ref owns the copy and dies with the call; the member then points at freed memory' % c.locals[pv]['name'])
    if n < min_instances:
        raise AnalysisBroken('only %d Ref members analysed (expected >= %d)' % (n, min_instances))
    if nctl != 1:
        raise AnalysisBroken('positive control for the stored-reference rule not matched (%d)' % nctl)


RAW_SPARSE = ('valuePtr', 'innerIndexPtr')


def view_storage_scanned_with_its_layout(ctx, rule='view-storage-scanned-with-its-layout', scope=None):
    """Every wrapper keeps the user's matrix as an Eigen::Ref / Map, and the property lets the user pass blocks, maps and
    expressions.  A view shares the storage of its parent: the raw value / inner-index arrays of a sparse view START at the
    parent's first entry, and the view's own entries are placed in them by its outer index array (an inner-panel block of a
    compressed matrix is itself "compressed" and has nonZeros() of its own, yet its entries begin at outerIndexPtr()[0], not 0).
    So a function that takes the raw arrays of a sparse VIEW (member of SparseMapBase: Ref, Map) must also consult
    outerIndexPtr(); iterating with InnerIterator / coefficient-wise expressions needs nothing.  Zero instances on the tree
    today; a positive and a negative control are matched on every run."""
    n = 0
    ctl = [0, 0]
    for fn in list(ctx.C.functions) + list(ctx.F.concrete()):
        control = fn.qname.startswith('SpectraControl::ViewStorageScan')
        if not control and (not fn.qname.startswith('Spectra::') or (scope is not None and not scope(fn))):
            continue
        raws = [x for x in fn.walk() if x['k'] == 'CXXMemberCallExpr' and x.get('callee') in RAW_SPARSE and 'MapBase' in (x.get('cls') or '')]
        if not control:
            n += 1
        if not raws:
            continue
        placed = any(x['k'] == 'CXXMemberCallExpr' and x.get('callee') == 'outerIndexPtr' for x in fn.walk())
        if control:
            ctl[1 if placed else 0] += 1
            continue
        inst = '%s::%s' % ((fn.cls or '').replace('Spectra::', ''), fn.name) if fn.cls else fn.name
        ctx.check(placed, rule, inst, fn.qname,
                  'raw arrays of a sparse view are placed by its outer index array' if placed else
                  '`%s` takes the raw array of a sparse view (Ref / Map) at %s and never consults outerIndexPtr(): for a block view of a larger '
                  'matrix the array is the PARENT\'s, so the scan reads the parent\'s leading entries instead of the view\'s' % (fn.s(raws[0]['id'])[:60], fn.loc(raws[0])))
    if ctl != [1, 1]:
        raise AnalysisBroken('view-storage rule: controls not matched exactly (flat %d, placed %d)' % tuple(ctl))
    if n < 20:
        raise AnalysisBroken('view-storage rule: only %d functions scanned' % n)
    ctx.ok(rule, '<library>', '/repo/include/Spectra', 'no function takes the raw arrays of a sparse view without its outer index array (%d function bodies; controls 1/1)' % n)
    return n
