"""Pointers into dense column-major storage, for the assume / guarantee proofs of the pointer-walking kernels.

A modelled pointer variable P into an array M (R rows, C columns, column stride R; a vector has C = 1) owns two zone variables:
row ('v', P) and column ('pc', P).  Pointer arithmetic is decomposed by the stride: P + (a*S + b) moves a columns and b rows,
where S is the stride expression of M (tabulated: a field such as m_n or a stride parameter).  An element access P[k] / *P is
inside M iff 0 <= col <= C-1 and 0 <= row + k <= R-1.  A one-past-the-end pointer of column c may be written (c+1, r): it is
normalised to (c, r + R) when compared with or subtracted from a pointer of column c."""
from . import ranges, zone
from .facts import AnalysisBroken
from .zone import zone_is_ptr
from .sym import sym, show


class Dense:
    def __init__(self, arrays, ptrs):
        """arrays: name -> dict(rows=form text, cols=form text or 1, stride=text)   (name = field or parameter / local name)
        ptrs: member -> {pointer local name: array name}"""
        self.arrays = arrays
        self.ptrs = ptrs

    # -- tables resolved per function ------------------------------------------------------------------------------
    def table(self, fn, resolve):
        t = getattr(fn, '_dense_tab', None)
        if t is not None and t[0] is self:
            return t[1]
        out = {}
        for nm, arr in self.ptrs.get(fn.name, {}).items():
            for vid, lv in fn.locals.items():
                if lv['name'] == nm and zone_is_ptr(lv['type']):
                    out[vid] = arr
        fn._dense_tab = (self, out)
        return out

    def dims(self, fn, arr, resolve):
        a = self.arrays[arr]
        R = resolve(fn, a['rows'])
        C = resolve(fn, a['cols']) if a.get('cols', 1) != 1 else {1: 1}
        S = resolve(fn, a.get('stride', a['rows']))
        return R, C, S

    def array_of(self, fn, node):
        """name of the tabulated array an object expression denotes (field, parameter or local by name)"""
        n = fn.strip(node)
        if n is None:
            return None
        f = fn.field_name(n)
        if f in self.arrays:
            return f
        if n['k'] == 'DeclRefExpr' and 'var' in n and fn.locals[n['var']]['name'] in self.arrays:
            return fn.locals[n['var']]['name']
        return None

    def split(self, L, S):
        """L = a * S + b for a single-variable stride S (coefficient 1): returns (a, b) or None"""
        sv = [(k, v) for k, v in S.items() if k != 1 and v != 0]
        if not sv:
            # constant stride: no symbolic multiple can be split off; the whole offset is a row offset (the row obligation then
            # fails if it leaves the column, which is the conservative answer)
            b = dict(L)
            b.setdefault(1, 0)
            return 0, b
        if len(sv) != 1 or sv[0][1] != 1 or S.get(1, 0) != 0:
            return None
        key = sv[0][0]
        a = L.get(key, 0)
        if a != int(a):
            return None
        b = {k: v for k, v in L.items() if k != key}
        b.setdefault(1, 0)
        return int(a), b

    def ptr_of(self, fn, node, resolve):
        """(array name, column form, row form) of a pointer-valued expression, or None"""
        tab = self.table(fn, resolve)
        n = fn.strip(node)
        if n is None:
            return None
        k = n['k']
        if k == 'DeclRefExpr' and n.get('var') in tab:
            v = n['var']
            arr = tab[v]
            col = {('pc', v): 1, 1: 0} if self.arrays[arr].get('cols', 1) != 1 else {1: 0}
            return (arr, col, {('v', v): 1, 1: 0})
        if k == 'CXXMemberCallExpr' and n.get('callee') == 'data':
            arr = self.array_of(fn, fn.call_object(n))
            return None if arr is None else (arr, {1: 0}, {1: 0})
        if k == 'UnaryOperator' and n.get('op') == '&':
            e = fn.strip(fn.nodes[n['c'][0]])
            if e is None:
                return None
            idx, base = None, None
            if e['k'] == 'CXXMemberCallExpr' and e.get('callee') in ('coeffRef', 'coeff'):
                base, idx = fn.call_object(e), fn.call_args(e)
            elif e['k'] == 'CXXOperatorCallExpr' and e.get('op') in ('()', '[]'):
                a = fn.call_args(e)
                base, idx = a[0], a[1:]
            if base is None:
                return None
            arr = self.array_of(fn, base)
            if arr is None:
                return None
            forms = [ranges.linform(fn, y) for y in idx]
            if any(f is None for f in forms):
                return None
            if len(forms) == 2:
                return (arr, forms[1], forms[0])
            if len(forms) == 1:
                return (arr, {1: 0}, forms[0])
            return None
        if k == 'BinaryOperator' and n.get('op') in ('+', '-'):
            l, r = fn.nodes[n['c'][0]], fn.nodes[n['c'][1]]
            pl = self.ptr_of(fn, l, resolve)
            off = r
            if pl is None and n['op'] == '+':
                pl = self.ptr_of(fn, r, resolve)
                off = l
            if pl is None:
                return None
            e = ranges.linform(fn, off)
            sgn = 1 if n['op'] == '+' else -1
            if e is None:
                # k * stride: k whole columns
                o = fn.strip(off)
                if o is not None and o['k'] == 'BinaryOperator' and o.get('op') == '*':
                    R, C, S = self.dims(fn, pl[0], resolve)
                    a_, b_ = ranges.linform(fn, fn.nodes[o['c'][0]]), ranges.linform(fn, fn.nodes[o['c'][1]])
                    for kf, sf in ((a_, b_), (b_, a_)):
                        if kf is not None and sf is not None and {k_: v_ for k_, v_ in ranges.lf_sub(sf, S).items() if v_ != 0} == {}:
                            col = dict(pl[1])
                            for k_, v_ in kf.items():
                                col[k_] = col.get(k_, 0) + sgn * v_
                            return (pl[0], col, pl[2])
                return None
            return self.shift(fn, pl, e, sgn, resolve)
        return None

    def shift(self, fn, p, e, sgn, resolve):
        arr, col, row = p
        R, C, S = self.dims(fn, arr, resolve)
        sp = self.split(e, S)
        if sp is None:
            return None
        a, b = sp
        col = dict(col)
        col[1] = col.get(1, 0) + sgn * a
        row = dict(row)
        for k_, v_ in b.items():
            row[k_] = row.get(k_, 0) + sgn * v_
        if a != 0 and self.arrays[arr].get('cols', 1) == 1:
            return None
        return (arr, col, row)

    # -- zone transfer ---------------------------------------------------------------------------------------------
    def make_step(self, resolve):
        def set_var(d, v, form):
            # fold variables whose value the zone knows exactly
            d.close()
            f2 = {1: form.get(1, 0)}
            for k_, c_ in form.items():
                if k_ == 1 or c_ == 0:
                    continue
                hi, lo = d.get(k_, 'Z'), d.get('Z', k_)
                if hi != zone.INF and lo != zone.INF and hi == -lo:
                    f2[1] += c_ * hi
                else:
                    f2[k_] = f2.get(k_, 0) + c_
            form = f2
            d.forget(v)
            vs = [(k, c) for k, c in form.items() if k != 1 and c != 0]
            if not vs:
                d.assign_var_plus(v, 'Z', form.get(1, 0))
            elif len(vs) == 1 and vs[0][1] == 1 and vs[0][0] != v:
                d.assign_var_plus(v, vs[0][0], form.get(1, 0))

        def shift_var(d, v, form):
            vs = [(k, c) for k, c in form.items() if k != 1 and c != 0]
            if not vs:
                d.assign_var_plus(v, v, form.get(1, 0))
            else:
                d.forget(v)

        def step(fn, d, n):
            tab = self.table(fn, resolve)
            if not tab:
                return False
            k = n['k']
            tgt, rhs, op = None, None, None
            if k == 'DeclStmt':
                hit = False
                for dd in n.get('decls', []):
                    if dd.get('var') in tab:
                        hit = True
                        v = dd['var']
                        d.forget(('v', v))
                        d.forget(('pc', v))
                        if 'init' in dd:
                            p = self.ptr_of(fn, fn.nodes[dd['init']], resolve)
                            if p is not None and p[0] == tab[v]:
                                set_var(d, ('v', v), p[2])
                                set_var(d, ('pc', v), p[1])
                return hit and len(n.get('decls', [])) == 1
            if k in ('BinaryOperator', 'CompoundAssignOperator') and n.get('op') in ('=', '+=', '-='):
                l = fn.strip(fn.nodes[n['c'][0]])
                if l is not None and l['k'] == 'DeclRefExpr' and l.get('var') in tab:
                    v = l['var']
                    if n['op'] == '=':
                        p = self.ptr_of(fn, fn.nodes[n['c'][1]], resolve)
                        # self-relative forms (P = P + e) are handled as shifts
                        if p is not None and p[0] == tab[v]:
                            rowf, colf = dict(p[2]), dict(p[1])
                            if rowf.get(('v', v), 0) == 1 and all(kk in (('v', v), 1) or vv == 0 for kk, vv in rowf.items()):
                                shift_var(d, ('v', v), {1: rowf.get(1, 0)})
                            else:
                                set_var(d, ('v', v), rowf)
                            if colf.get(('pc', v), 0) == 1 and all(kk in (('pc', v), 1) or vv == 0 for kk, vv in colf.items()):
                                shift_var(d, ('pc', v), {1: colf.get(1, 0)})
                            else:
                                set_var(d, ('pc', v), colf)
                        else:
                            d.forget(('v', v))
                            d.forget(('pc', v))
                        return True
                    e = ranges.linform(fn, fn.nodes[n['c'][1]])
                    R, C, S = self.dims(fn, tab[v], resolve)
                    sp = self.split(e, S) if e is not None else None
                    sg = 1 if n['op'] == '+=' else -1
                    if sp is None:
                        d.forget(('v', v))
                        d.forget(('pc', v))
                    else:
                        a, b = sp
                        shift_var(d, ('v', v), {kk: sg * vv for kk, vv in b.items()})
                        if a != 0:
                            shift_var(d, ('pc', v), {1: sg * a})
                    return True
            if k == 'UnaryOperator' and n.get('op') in ('++', '--'):
                l = fn.strip(fn.nodes[n['c'][0]])
                if l is not None and l['k'] == 'DeclRefExpr' and l.get('var') in tab:
                    d.assign_var_plus(('v', l['var']), ('v', l['var']), 1 if n['op'] == '++' else -1)
                    return True
            return False
        return step

    def make_assume(self, resolve):
        def hook(fn, d, n, truth):
            tab = self.table(fn, resolve)
            if not tab:
                return False
            pl, pr = self.ptr_of(fn, fn.nodes[n['c'][0]], resolve), self.ptr_of(fn, fn.nodes[n['c'][1]], resolve)
            if pl is None or pr is None or pl[0] != pr[0]:
                return False

            def var_c(form):
                vs = [(k, c) for k, c in form.items() if k != 1 and c != 0]
                if not vs:
                    return ('Z', form.get(1, 0))
                if len(vs) == 1 and vs[0][1] == 1:
                    return (vs[0][0], form.get(1, 0))
                return None
            rl, rr = var_c(pl[2]), var_c(pr[2])
            cl, cr = var_c(pl[1]), var_c(pr[1])
            if None in (rl, rr, cl, cr):
                return True          # modelled pointers, relation not representable: no refinement (sound)
            d.close()
            rows_equal = d.entails(rl[0], rr[0], rr[1] - rl[1]) and d.entails(rr[0], rl[0], rl[1] - rr[1])
            cols_equal = d.entails(cl[0], cr[0], cr[1] - cl[1]) and d.entails(cr[0], cl[0], cl[1] - cr[1])
            op = n['op']
            if not truth:
                op = {'<': '>=', '<=': '>', '>': '<=', '>=': '<', '==': '!=', '!=': '=='}[op]
            if rows_equal:
                a, b = cl, cr
            elif cols_equal:
                a, b = rl, rr
            else:
                return True
            (x, cx), (y, cy) = a, b
            c = cy - cx
            if op == '<':
                d.add(x, y, c - 1)
            elif op == '<=':
                d.add(x, y, c)
            elif op == '>':
                d.add(y, x, -c - 1)
            elif op == '>=':
                d.add(y, x, -c)
            elif op == '==':
                d.add(x, y, c)
                d.add(y, x, -c)
            return True
        return hook

    # -- obligations -----------------------------------------------------------------------------------------------
    def sites(self, resolve):
        def neg(L):
            return {k: -v for k, v in L.items()}

        def plus(L, c):
            r = dict(L)
            r[1] = r.get(1, 0) + c
            return r

        def run(fn, rec):
            tab = self.table(fn, resolve)
            nsite, probs = 0, []

            def need(z, L, what, txt):
                if L is None or not ranges.prove_nonpos(z, L):
                    probs.append('%s: cannot prove %s' % (what, txt))

            def inside(z, p, what, extra_row=None, past_end=False):
                arr, col, row = p
                R, C, S = self.dims(fn, arr, resolve)
                if extra_row is not None:
                    row = dict(row)
                    for k_, v_ in extra_row.items():
                        row[k_] = row.get(k_, 0) + v_
                need(z, neg(col), what, 'column >= 0')
                need(z, plus(ranges.lf_sub(col, C), 1), what, 'column <= %s - 1' % self.arrays[arr].get('cols', 1))
                need(z, neg(row), what, 'row >= 0')
                need(z, plus(ranges.lf_sub(row, R), 0 if past_end else 1), what, 'row <= %s%s' % (self.arrays[arr]['rows'], '' if past_end else ' - 1'))
            for x in fn.walk():
                z = rec.get(fn.pos_of(x))
                if z is None:
                    continue
                what = fn.s(x['id'])[:50]
                if (x['k'] == 'UnaryOperator' and x.get('op') == '*') or x['k'] == 'ArraySubscriptExpr':
                    p = self.ptr_of(fn, fn.nodes[x['c'][0]], resolve)
                    if p is None:
                        continue
                    nsite += 1
                    e = None
                    if x['k'] == 'ArraySubscriptExpr':
                        e = ranges.linform(fn, fn.nodes[x['c'][1]])
                        if e is None:
                            probs.append('%s: non-linear subscript' % what)
                            continue
                        R, C, S = self.dims(fn, p[0], resolve)
                        sp = self.split(e, S)
                        if sp is None:
                            probs.append('%s: subscript not decomposable by the stride' % what)
                            continue
                        a, b = sp
                        if a != 0:
                            p = (p[0], plus(p[1], a), p[2])
                        e = b
                    inside(z, p, what, extra_row=e)
                elif x['k'] == 'CallExpr' and x.get('callee') in ('ploadu', 'pstoreu', 'pload', 'pstore') and fn.call_args(x):
                    p = self.ptr_of(fn, fn.call_args(x)[0], resolve)
                    if p is None:
                        continue
                    nsite += 1
                    w = _packet_width(fn, x)
                    if w is None:
                        probs.append('%s: packet width unknown' % what)
                        continue
                    inside(z, p, what)
                    inside(z, p, what, extra_row={1: w - 1})
                elif x['k'] == 'CallExpr' and x.get('callee') == 'fill' and len(fn.call_args(x)) == 3:
                    a = fn.call_args(x)
                    p1, p2 = self.ptr_of(fn, a[0], resolve), self.ptr_of(fn, a[1], resolve)
                    if p1 is None and p2 is None:
                        continue
                    nsite += 1
                    if p1 is None or p2 is None or p1[0] != p2[0]:
                        probs.append('%s: range ends not recognised' % what)
                        continue
                    R, C, S = self.dims(fn, p1[0], resolve)
                    dc = ranges.lf_sub(p2[1], p1[1])
                    dcv = {k: v for k, v in dc.items() if v != 0}
                    r2 = p2[2]
                    if dcv == {1: 1}:
                        r2 = dict(r2)
                        for k_, v_ in R.items():
                            r2[k_] = r2.get(k_, 0) + v_
                    elif dcv != {}:
                        probs.append('%s: range spans columns' % what)
                        continue
                    inside(z, (p1[0], p1[1], p1[2]), what, past_end=True)
                    need(z, ranges.lf_sub(r2, R), what, 'range ends inside its column')
                    # an empty or reversed range writes nothing; a forward one must start inside
                elif x['k'] in ('CXXConstructExpr', 'CXXTemporaryObjectExpr') and x.get('ctor_of') == 'Eigen::Map':
                    a = [y for y in fn.call_args(x) if y['k'] != 'CXXDefaultArgExpr']
                    if len(a) != 2:
                        continue
                    p = self.ptr_of(fn, a[0], resolve)
                    if p is None:
                        continue
                    nsite += 1
                    ln = ranges.linform(fn, a[1])
                    if ln is None:
                        probs.append('%s: non-linear view length' % what)
                        continue
                    inside(z, p, what, past_end=True)
                    need(z, neg(ln), what, 'length >= 0')
                    R, C, S = self.dims(fn, p[0], resolve)
                    tot = dict(p[2])
                    for k_, v_ in ln.items():
                        tot[k_] = tot.get(k_, 0) + v_
                    need(z, ranges.lf_sub(tot, R), what, 'view ends inside its column')
            return nsite, probs
        return run


def _packet_width(fn, call):
    """number of scalars moved by a packet load / store: from the vector type of the call, else from a constexpr local"""
    import re
    for t in (call.get('targs') or []) + [call.get('t', '')]:
        m = re.search(r'__vector_size__\((\d+) \* sizeof', t or '')
        if m:
            return int(m.group(1))
    for x in fn.walk():
        if x['k'] == 'DeclStmt':
            for d in x['decls']:
                if 'var' in d and fn.locals[d['var']]['name'] == 'PacketSize' and 'init' in d:
                    n = fn.strip(fn.nodes[d['init']])
                    if n is not None and 'cval' in n:
                        return int(n['cval'])
    return None
