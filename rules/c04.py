"""C04 -- the converged set is the part of the spectrum the selection rule asks for (structural clauses)."""
from .facts import AnalysisBroken
from . import eigsbase, c18, shiftsolvers, spectral
from .sym import sym, show

EXPLANATION = (
    'Value-flow, table and abstract-evaluation rules over the instantiated solver families. Decides: (D1) the selection '
    'argument of compute() reaches every retrieve / restart call unchanged and the sorting argument reaches the final sort '
    '(both solver bases; Davidson: selection reaches the sort of the Ritz pairs and the initial-space construction); (D2) the '
    'per-rule sort keys and the dispatch tables are those named by the rule (shared with C18); (D3) wanted-first split: the '
    'restart uses positions [k, ncv) of the sorted Ritz values as shifts, the convergence test and the accessors use the first '
    'nev; (D4) the rule acts on the documented transformed spectrum: the spectral map realised by each shift adaptor on an '
    'eigenvector of the pencil, evaluated as a rational function of (lambda, sigma), EQUALS the documented map '
    '(1/(lambda-sigma), lambda/(lambda-sigma), (lambda+sigma)/(lambda-sigma)), the solver\'s back-transformation composed '
    'with it is the identity, and the Ritz values are rewritten only inside the final-sort overrides (before the base sort). '
    'Every reader of the stored Ritz values / estimates / vectors in compute() is preceded on every path from entry by the member that rebuilds them from H under the selection rule of this call (a compute() that follows another compute() never works on the re-ordered, possibly back-transformed values the earlier call left). Does NOT decide that the iteration converges to those k eigenvalues (numerical).')
ASSUMPTIONS = ['the (operator, B operator) pair handed to each mode is the documented one: inv(A - sigma B) with B, resp. inv(K - sigma KG) with K']

MODE_OF = {'Spectra::SymGEigsShiftInvertOp': 'ShiftInvert', 'Spectra::SymGEigsBucklingOp': 'Buckling', 'Spectra::SymGEigsCayleyOp': 'Cayley'}


def spectral_maps(ctx, rule='spectral-map-equals-documented-map'):
    n = 0
    maps = {}
    for fn in ctx.F.concrete():
        if fn.cls in spectral.KAPPA and fn.name == 'perform_op':
            n += 1
            mode = MODE_OF[fn.cls]
            nu = spectral.operator_map(ctx, fn, spectral.KAPPA[fn.cls])
            maps[fn.record] = (mode, nu)
            ok = nu == spectral.DOC_MAP[mode]
            ctx.check(ok, rule, '%s::perform_op' % fn.cls.replace('Spectra::', ''), fn.qname,
                      'maps an eigenvector with eigenvalue l to nu = %r, the documented map of %s mode' % (nu, mode) if ok else
                      'realises nu = %r on an eigenvector, but the documented map of %s mode is %r: the selection rule acts on a different spectrum' %
                      (nu, mode, spectral.DOC_MAP[mode]))
    if n < 6:
        raise AnalysisBroken('only %d shift adaptors analysed' % n)
    return maps


def _rf_at(rf, lam, sig):
    def pv(p):
        return sum(c * lam ** i * sig ** j for (i, j), c in p.items())
    d = pv(rf.d)
    if d == 0:
        return None
    return pv(rf.n) / d


def _running_error(t, leaves):
    """(value, bound on the relative error in units of the rounding unit) of the expression tree t evaluated as written:
    every operation adds one rounding; a sum a + b carries (|a| ea + |b| eb) / |a + b|.  leaves: {normal-form leaf: (value, err)}."""
    from fractions import Fraction
    if t in leaves:
        return leaves[t]
    if not isinstance(t, tuple):
        raise AnalysisBroken('back-transformation: cannot evaluate %r' % (t,))
    h = t[0]
    if h == 'lit':
        return Fraction(t[1]), Fraction(0)
    if h in ('+', '-') and len(t) == 3:
        (a, ea), (b, eb) = _running_error(t[1], leaves), _running_error(t[2], leaves)
        v = a + b if h == '+' else a - b
        if v == 0:
            raise ZeroDivisionError
        return v, (abs(a) * ea + abs(b) * eb) / abs(v) + 1
    if h in ('*', '/') and len(t) == 3:
        (a, ea), (b, eb) = _running_error(t[1], leaves), _running_error(t[2], leaves)
        return (a * b if h == '*' else a / b), ea + eb + 1
    if h == 'u-':
        a, ea = _running_error(t[1], leaves)
        return -a, ea
    if h in ('ctor',) and len(t) == 3:
        return _running_error(t[2], leaves)
    if h in ('array', 'matrix', 'eval') and len(t) == 2:
        return _running_error(t[1], leaves)
    raise AnalysisBroken('back-transformation: unsupported expression %s' % show(t))


def formula_conditioning(ctx, fn, t_rhs, head, nu, mode, rule='back-transformation-formula-well-conditioned'):
    """The iteration delivers nu to a relative accuracy of a few rounding units; the map g: nu -> lambda has the intrinsic
    condition number |nu g'(nu) / g(nu)| = |nu(lambda) / (lambda nu'(lambda))|.  The FORMULA by which g is evaluated must not lose
    more than that: its running error bound (a forward error analysis of the expression tree as written, evaluated in exact
    rationals on a grid of (lambda, sigma) that reaches |sigma / lambda| = 1e12 both ways) stays within 8 (1 + cond).  A formula
    that is algebraically the same map but subtracts two quantities of size |sigma| to obtain a lambda of size 1 returns
    eigenvalues with an absolute error eps |sigma|: the pencil residual grows like eps |sigma| ||B x|| -- wrong digits for every
    legal shift far from the wanted eigenvalues, where the documented form is exact to rounding."""
    from fractions import Fraction
    worst = None
    npts = 0
    for lam in (Fraction(1), Fraction(-1), Fraction(37, 10), Fraction(-13, 1000)):
        for e in (-6, -3, 0, 3, 6, 9, 12):
            for sg in (1, -1):
                sig = sg * Fraction(10) ** e * Fraction(7, 5)
                if sig == lam:
                    continue
                v = _rf_at(nu, lam, sig)
                h = abs(lam) / Fraction(10 ** 24)
                v1, v2 = _rf_at(nu, lam + h, sig), _rf_at(nu, lam - h, sig)
                if v is None or v1 is None or v2 is None or v == 0 or v1 == v2:
                    continue
                dnu = (v1 - v2) / (2 * h)
                cond = abs(v / (lam * dnu))
                leaves = {head: (v, Fraction(1)), ('array', head): (v, Fraction(1)), ('F', 'm_sigma'): (sig, Fraction(0))}
                try:
                    val, err = _running_error(t_rhs, leaves)
                except ZeroDivisionError:
                    continue
                npts += 1
                ratio = err / (1 + cond)
                if worst is None or ratio > worst[0]:
                    worst = (ratio, lam, sig, err, cond)
    if npts < 40:
        raise AnalysisBroken('%s: only %d grid points evaluated for the conditioning of the back-transformation' % (fn.qname, npts))
    ok = worst[0] <= 8
    ctx.check(ok, rule, '%s<%s>::sort_ritzpair' % (fn.cls.replace('Spectra::', ''), mode), fn.qname,
              'running error of the formula <= %.1f (1 + cond of the map) on %d grid points up to |sigma/lambda| = 1e12' % (float(worst[0]), npts) if ok else
              'the formula `%s` loses %.3g rounding units at lambda = %s, sigma = %.3g where the map itself has condition %.3g: it cancels quantities of size |sigma| to '
              'produce lambda -- eigenvalues come back with an absolute error eps |sigma| (pencil residual eps |sigma| ||B x||) for shifts far from the wanted eigenvalues' %
              (show(t_rhs)[:80], float(worst[3]), worst[1], float(worst[2]), float(worst[4])))


def back_transforms(ctx, maps, rule='back-transformation-inverts-spectral-map'):
    """g(nu(lambda)) == lambda for every solver that iterates on a transformed spectrum."""
    n = 0
    for base in ('Spectra::HermEigsBase', 'Spectra::GenEigsBase'):
        for fn, b in shiftsolvers.overrides_of_final_sort(ctx, base):
            if fn.cls == 'Spectra::GenEigsComplexShiftSolver':
                ctx.note('GenEigsComplexShiftSolver: back-transformation chooses between two roots by a numerical test; not in the rational-function domain')
                continue
            asg = [sym(fn, x, inline=False) for x in fn.walk() if x['k'] in ('CXXOperatorCallExpr', 'BinaryOperator') and x.get('op') == '=']
            asg = [t for t in asg if show(t[1]).startswith('head(') or show(t[1]).startswith('array(head(')]
            if len(asg) != 1:
                raise AnalysisBroken('%s: back-transformation assignment not found' % fn.qname)
            t = asg[0]
            lhs = t[1]
            # which spectral map does this solver iterate on?
            if fn.cls == 'Spectra::SymGEigsShiftSolver':
                rec = [r for r in ctx.F.records.values() if r['qname'] == fn.record and not r['dep']][0]
                opt = rec['bases'][0]['type']
                optype = opt[opt.index('<') + 1:]
                hit = [m for r, m in maps.items() if optype.startswith(r)]
                if not hit:
                    raise AnalysisBroken('%s: adaptor of the base class not analysed' % fn.qname)
                mode, nu = hit[0]
            else:
                mode, nu = 'ShiftInvert', spectral.DOC_MAP['ShiftInvert']     # wrapper contract: y = inv(A - sigma I) x
            head = lhs[1] if lhs[0] == 'array' else lhs
            env = {head: nu, ('array', head): nu, ('F', 'm_sigma'): spectral.SIG}
            g = spectral.scalar(t[2], env)
            n += 1
            ok = g == spectral.LAM
            ctx.check(ok, rule, '%s<%s>::sort_ritzpair' % (fn.cls.replace('Spectra::', ''), mode), fn.qname,
                      'g(nu(lambda)) = lambda for nu = %r' % nu if ok else
                      'back-transformation applied to nu = %r gives %r, not lambda: eigenvalues are reported in the wrong spectrum' % (nu, g))
            if ok:
                formula_conditioning(ctx, fn, t[2], head, nu, mode)
    if n < 6:
        raise AnalysisBroken('only %d back-transformations analysed' % n)


def ritz_value_writers(ctx, rule='ritz-values-written-only-by-retrieve-and-final-sort'):
    from .eigsbase import SOLVER_TMPLS
    for base in ('Spectra::HermEigsBase', 'Spectra::GenEigsBase'):
        for comp in ctx.F.insts(base + '::compute'):
            m = eigsbase.BaseModel(ctx, comp)
            ev = ctx.F.by_record[comp.record].get('eigenvalues', [])
            if not ev:
                continue
            val = [p[0] for p in ctx.E.may_read(ev[0]) if p and p[0] != m.flag and 'ritz' in p[0]]
            if len(val) != 1:
                raise AnalysisBroken('%s: Ritz value field not identified (%s)' % (comp.record, val))
            vf = val[0]
            bad = []
            okw = []
            for name, fn in m.named():
                if any(a.path == (vf,) and a.mode == 'w' for a in ctx.E.of(fn).accesses):
                    (okw if name in ('init', 'retrieve_ritzpair', 'sort_ritzpair') else bad).append(name)
            for fn in ctx.F.concrete():
                if fn.cls in SOLVER_TMPLS and fn.cls not in ('Spectra::HermEigsBase', 'Spectra::GenEigsBase') and fn.name != 'sort_ritzpair':
                    if any(a.path == (vf,) and a.mode == 'w' for a in ctx.E.of(fn).accesses):
                        bad.append(fn.cls + '::' + fn.name)
            ctx.check(not bad, rule, base.replace('Spectra::', ''), comp.record,
                      '%s written only by %s (and the final-sort overrides)' % (vf, sorted(set(okw))) if not bad else '%s also written by %s' % (vf, sorted(set(bad))))


def wanted_first_split(ctx, rule='wanted-first-split'):
    for fn in ctx.F.insts('Spectra::HermEigsBase::restart'):
        pk = fn.locals[fn.params[0]]['name']
        d = {fn.locals[dd['var']]['name']: sym(fn, dd['init'], inline=False) for x in fn.walk() if x['k'] == 'DeclStmt' for dd in x['decls'] if 'init' in dd}
        tails = [v for v in d.values() if isinstance(v, tuple) and v[0] == 'tail']
        ok = len(tails) == 1 and tails[0][1][0] == 'F' and sym(fn, [dd['init'] for x in fn.walk() if x['k'] == 'DeclStmt' for dd in x['decls'] if 'init' in dd and fn.locals[dd['var']]['name'] == show(tails[0][2])][0], inline=False) == ('-', ('F', 'm_ncv'), ('P', pk)) if tails and tails[0][2][0] == 'L' else False
        ctx.check(ok, rule, 'HermEigsBase::restart', fn.qname, 'shifts = last ncv - k sorted Ritz values' if ok else 'shifts are not the tail(ncv - k) of the sorted Ritz values')
    for fn in ctx.F.insts('Spectra::GenEigsBase::restart'):
        pk = fn.locals[fn.params[0]]['name']
        loops = [x for x in fn.walk() if x['k'] == 'ForStmt']
        rg = eigsbase.loop_range(fn, loops[0]) if loops else None
        ok = rg is not None and rg[1] == ('P', pk) and rg[2] == ('F', 'm_ncv')
        if ok:
            # the shifts are Ritz values at the loop index
            uses = [sym(fn, x, inline=False) for x in fn.walk(loops[0]['body']) if x['k'] == 'CXXOperatorCallExpr' and x.get('op') == '[]']
            ok = all(u[1][0] == 'F' and (u[2] == ('L', rg[0]) or u[2] == ('+', ('L', rg[0]), ('lit', '1'))) for u in uses) and bool(uses)
        ctx.check(ok, rule, 'GenEigsBase::restart', fn.qname, 'shifts = sorted Ritz values at positions [k, ncv)' if ok else 'shift loop does not run over positions [k, ncv)')


def davidson_rule_flow(ctx, rule='rule-argument-flow'):
    for fn in ctx.F.insts('Spectra::JDSymEigsBase::compute'):
        pn = [fn.locals[v]['name'] for v in fn.params]
        calls = [x for x in fn.walk() if x['k'] == 'CXXMemberCallExpr' and x.get('callee') == 'setup_initial_search_space']
        ok = len(calls) == 1 and sym(fn, fn.call_args(calls[0])[0], inline=False) == ('P', pn[0])
        ctx.check(ok, rule, 'JDSymEigsBase::compute', fn.qname, 'selection reaches the initial-space construction' if ok else 'initial space built with another rule')


def start_vector_keeps_every_direction(ctx, rule='krylov-space-built-on-the-start-vector'):
    """The Krylov space is K(A, v1) with v1 the first basis column.  An eigenvector that has no component in v1 is invisible to the
    whole run (in exact arithmetic for good; in floating point until rounding reintroduces it, long after the first nev Ritz values
    have "converged").  If v1 is the start vector itself, the default (pseudo-random, fixed-seed) vector has a component in every
    eigenvector of every matrix except adversarially built ones.  If v1 is the IMAGE A v0 of the start vector, the component along
    every null vector of A is removed for ANY v0: the eigenvalue 0 of a singular matrix (graph Laplacians, rank-deficient Gram
    matrices) -- the wanted one under SmallestAlge / SmallestMagn / BothEnds -- cannot be found, and the solver reports Successful
    with the next ones.  Structural check: on the normal path of the factorization's init(), the first basis column is derived
    from the start vector by scaling only, not through an application of the operator."""
    from . import paths
    n = 0
    seen = set()
    for fn in ctx.F.concrete():
        if fn.cls != 'Spectra::Arnoldi' or fn.name != 'init' or not fn.cfg or fn.mangled in seen:
            continue
        seen.add(fn.mangled)
        p0 = fn.locals[fn.params[0]]['name']
        # the local that maps the first column of V
        firsts = [fn.locals[d['var']]['name'] for x in fn.walk() if x['k'] == 'DeclStmt' for d in x['decls']
                  if 'init' in d and 'var' in d and 'm_fac_V' in show(sym(fn, d['init'], inline=False)) and fn.locals[d['var']]['type'].startswith('Eigen::Map')]
        if len(firsts) != 1:
            raise AnalysisBroken('%s: the map of the first basis column was not identified' % fn.qname)
        V1 = firsts[0]
        filtered = []
        for c in fn.walk():
            if c['k'] == 'CXXMemberCallExpr' and c.get('callee') == 'perform_op':
                a = [sym(fn, y, inline=False) for y in fn.call_args(c)]
                if len(a) == 2 and p0 in show(a[0]) and V1 in show(a[1]):
                    filtered.append(c)
        n += 1
        ctx.check(not filtered, rule, 'Arnoldi::init', fn.qname,
                  'the first basis column is the start vector, scaled' if not filtered else
                  'the first basis column is `%s`, the image of the start vector under the operator: the component of ANY start vector along the null space of a singular matrix is removed, '
                  'so its eigenvalue 0 is invisible to the Krylov space and the run reports Successful with the next eigenvalues instead' % fn.s(filtered[0])[:50])
    if n < 1:
        raise AnalysisBroken('Arnoldi::init not analysed')


def run(ctx):
    for base in ('Spectra::HermEigsBase', 'Spectra::GenEigsBase'):
        eigsbase.rule_argument_flow(ctx, base)
        eigsbase.ritz_data_of_current_call(ctx, base)
    davidson_rule_flow(ctx)
    start_vector_keeps_every_direction(ctx)
    c18.keys(ctx)
    c18.dispatch(ctx)
    wanted_first_split(ctx)
    maps = spectral_maps(ctx)
    back_transforms(ctx, maps)
    ritz_value_writers(ctx)
    for base, floor in (('Spectra::HermEigsBase', 4), ('Spectra::GenEigsBase', 2)):
        shiftsolvers.backtransform_before_sort(ctx, base, floor)
