"""C12 -- invalid arguments are rejected with std::invalid_argument; valid ones are accepted."""
import itertools
import re
from .facts import AnalysisBroken
from . import paths, hygiene, c18
from .sym import sym, show, atoms
from .xeval import ev, CannotEval

EXPLANATION = (
    'Predicate extraction and table agreement over the AST/CFG of every constructor and validating member. Decides: (D1) the '
    'rejection predicate of each solver-base constructor (guards of its throw statements), evaluated as an expression for every '
    'matrix size n in 1..14 and every (nev, ncv) in [-3, n+4]^2, rejects exactly the complement of the documented range -- the '
    'range being taken from two independent sources that must agree: the inequality chain in the exception message and a frozen '
    'table from the class documentation; sibling constructors agree; (D2) every throw statement in a constructor / validating '
    'member constructs std::invalid_argument, and the library throws only invalid_argument, logic_error and runtime_error; '
    '(D3) the selection / sorting rule sets accepted by the dispatchers equal the documented sets and everything else reaches a '
    'default that throws invalid_argument (shared with C18); (D4) dominating guards: sigma == 0 is rejected before the shift is '
    'installed in buckling and Cayley mode, a zero start vector is rejected before the first operator application, every '
    'factorizing wrapper constructor rejects exactly the non-square shapes (guard evaluated on all shapes up to 3x3); (D5) no '
    'raw owning pointer: a constructor that throws leaks nothing; (D6) in every validating constructor no object is constructed or resized with a size that '
    'depends on nev / ncv before the range guards -- followed through the constructors of Spectra members and through fields initialised from the arguments -- '
    'so an out-of-range argument meets the guard first and not an allocation. Evaluation here means evaluating ONE extracted integer '
    'predicate on a finite grid that determines it (unit-coefficient linear inequalities): no library code is run.')
ASSUMPTIONS = ['members already constructed are destroyed when a constructor throws (language rule)']

# documented ranges (class documentation): predicate over (n, nev, ncv) that must be ACCEPTED
DOC_RANGES = {
    'Spectra::HermEigsBase': ('1 <= nev <= n - 1', 'nev < ncv <= n'),
    'Spectra::GenEigsBase': ('1 <= nev <= n - 2', 'nev + 2 <= ncv <= n'),
    'Spectra::JDSymEigsBase': ('1 <= nev <= n - 1',),
}


def chain_holds(chain, env):
    """'1 <= nev <= n - 1' -> bool under env (python's chained comparison has the same meaning)."""
    if not re.match(r'^[\w\s+\-<>=]+$', chain):
        raise AnalysisBroken('cannot parse inequality chain %r' % chain)
    return bool(eval(chain, {'__builtins__': {}}, dict(env)))


def message_chains(fn, throw):
    for x in fn.walk(throw):
        if x['k'] == 'StringLiteral':
            m = re.search(r'must satisfy (.+?), n is', x.get('val', ''))
            if m:
                return m.group(1)
    return None


def guards_of_throws(fn):
    """[(condition node, throw node)] for throws that are the `then` of an if statement."""
    out = []
    for i in fn.walk():
        if i['k'] == 'IfStmt':
            th = [y for y in fn.walk(i['then']) if y['k'] == 'CXXThrowExpr']
            if th:
                out.append((i, th[0]))
    return out


def range_guards(ctx, rule='range-guard-equals-documented-range'):
    n_fn = 0
    for tmpl, doc in sorted(DOC_RANGES.items()):
        ctors = [f for f in ctx.F.concrete() if f.cls == tmpl and f.d.get('ctor')]
        if not ctors:
            raise AnalysisBroken('%s: no constructor analysed' % tmpl)
        units = []
        for fn in ctors:
            # guards of the constructor itself and of the member functions it calls on this object (validation helpers)
            gs = [(fn, g, t) for g, t in guards_of_throws(fn)]
            delegating = False
            for c in fn.walk():
                if c['k'] == 'CXXMemberCallExpr' and c.get('org') == 'S':
                    o = fn.call_object(c)
                    if o is not None and fn.strip(o)['k'] == 'CXXThisExpr':
                        h = ctx.F.resolve(c)
                        if h is not None:
                            gs += [(h, g, t) for g, t in guards_of_throws(h)]
            for i in fn.inits:
                if i['member'] == '<delegating>':
                    delegating = True
            if delegating and not gs:
                continue      # forwards to a sibling constructor that is checked itself
            units.append((fn, gs))
        for fn, gs in units:
            n_fn += 1
            msgs = [message_chains(gf, t) for gf, _, t in gs]
            inst = '%s::%s' % (tmpl.replace('Spectra::', ''), fn.name)
            problems = []
            if not gs:
                problems.append('constructor performs no range check at all')
            if gs and sorted(m for m in msgs if m) != sorted(doc):
                problems.append('exception messages state %s but the documentation states %s' % (sorted(m for m in msgs if m), sorted(doc)))
            for n in range(1, 15):
                for nev in range(-3, n + 5):
                    for ncv in range(-3, n + 5):
                        rejected = False
                        for gf, g, _ in gs:
                            env = {}
                            calls = {}
                            for v in gf.params:
                                nm = gf.locals[v]['name']
                                if nm == 'nev':
                                    env[('local', nm)] = nev
                                if nm == 'ncv':
                                    env[('local', nm)] = ncv
                            for x in gf.walk(g['cond']):
                                if x['k'] == 'MemberExpr' and x.get('mk') == 'field':
                                    t = x['member']
                                    if 'number_eigenvalues' in t or t == 'm_nev':
                                        env[('field', t)] = nev
                                    elif t == 'm_ncv':
                                        env[('field', t)] = min(ncv, n)      # the stored value is the clamped argument (checked below)
                                    elif t == 'm_n':
                                        env[('field', t)] = n
                                if x['k'] == 'CXXMemberCallExpr' and x.get('callee') in ('rows', 'cols'):
                                    calls[gf.s(x)] = (lambda a, n=n: n)
                            try:
                                if ev(gf, g['cond'], env, calls):
                                    rejected = True
                            except CannotEval as e:
                                raise AnalysisBroken('%s: cannot evaluate range guard: %s' % (gf.qname, e))
                        accept_doc = all(chain_holds(ch, {'n': n, 'nev': nev, 'ncv': ncv}) for ch in doc)
                        if rejected == accept_doc:
                            problems.append('n=%d nev=%d ncv=%d is %s but the documented range says %s' %
                                            (n, nev, ncv, 'rejected' if rejected else 'accepted', 'valid' if accept_doc else 'invalid'))
                            break
                    if len(problems) > 0 and problems[-1].startswith('n='):
                        break
                if len(problems) > 0 and problems[-1].startswith('n='):
                    break
            # guards run before anything else in the body
            ctx.check(not problems, rule, inst, fn.qname,
                      'rejects exactly the complement of {%s} for n <= 14 (messages, documentation and guards agree)' % ' and '.join(doc)
                      if not problems else '; '.join(problems[:3]))
    if n_fn < 4:
        raise AnalysisBroken('only %d validating constructors analysed' % n_fn)
    # the effective Krylov dimension is the clamped argument: min(ncv, n)
    for tmpl in ('Spectra::HermEigsBase', 'Spectra::GenEigsBase'):
        for fn in [f for f in ctx.F.concrete() if f.cls == tmpl and f.d.get('ctor')]:
            ini = {i['member']: i['expr'] for i in fn.inits}
            if 'm_ncv' not in ini:
                raise AnalysisBroken('%s: m_ncv initialiser not found' % fn.qname)
            bad = []
            for n in (1, 2, 5):
                for ncv in range(-2, 9):
                    v = ev(fn, ini['m_ncv'], {('local', 'ncv'): ncv, ('field', 'm_n'): n})
                    if v != min(ncv, n):
                        bad.append((n, ncv, v))
            ctx.check(not bad, rule, '%s::m_ncv' % tmpl.replace('Spectra::', ''), fn.qname,
                      'stored subspace dimension = min(ncv, n)' if not bad else 'stored dimension differs from min(ncv, n): %s' % bad[:3])


VALIDATORS = ('check_argument', 'set_shift_and_move', 'init', 'sort_ritzpair', 'retrieve_ritzpair', 'argsort', 'get', 'set_shift',
              'factorize_from', 'compute_with_guess')
ALLOWED_TYPES = ('std::invalid_argument', 'std::logic_error', 'std::runtime_error')


def thrown_types(ctx, rule='rejections-are-invalid_argument'):
    n = 0
    seen = set()
    for fn in ctx.F.functions:
        for x in fn.walk():
            if x['k'] != 'CXXThrowExpr':
                continue
            key = (fn.tq, x['l'])
            if key in seen:
                continue
            seen.add(key)
            n += 1
            ty = x.get('thrown', '')
            if fn.dep and not ty.startswith('std::'):
                # dependent pattern: type printed differently; decided on instantiations
                continue
            site = '%s@%d' % (fn.tq.replace('Spectra::', ''), [y['id'] for y in fn.walk() if y['k'] == 'CXXThrowExpr'].index(x['id']) + 1)
            if x.get('rethrow'):
                ctx.fail(rule, site, fn.loc(x), 'rethrow')
                continue
            validating = fn.d.get('ctor') or fn.name in VALIDATORS
            if validating and fn.cls in ('Spectra::SparseRegularInverse',) and fn.name != 'SparseRegularInverse':
                validating = False
            if validating and 'factorization failed' in ''.join(y.get('val', '') for y in fn.walk(x) if y['k'] == 'StringLiteral'):
                validating = True
            ok = (ty == 'std::invalid_argument') if validating else (ty in ALLOWED_TYPES)
            ctx.check(ok, rule, site, fn.loc(x),
                      'throws %s' % ty if ok else ('argument validation throws %s instead of std::invalid_argument' % ty if validating
                                                   else 'throws %s, not one of the documented exception types' % ty))
    if n < 40:
        raise AnalysisBroken('only %d throw sites seen' % n)


def sigma_guards(ctx, rule='guard-dominates-use'):
    modes = {x['val']: x['name'] for x in ctx.F.enums['Spectra::GEigsMode']['enumerators']}
    n = 0
    for fn in ctx.F.concrete():
        if fn.cls != 'Spectra::SymGEigsShiftSolver' or fn.name != 'set_shift_and_move':
            continue
        mode = modes.get(fn.cargs[2]) if len(fn.cargs) >= 3 else None
        if mode is None:
            raise AnalysisBroken('%s: mode not identified' % fn.qname)
        n += 1
        pn = [fn.locals[v]['name'] for v in fn.params]
        gs = guards_of_throws(fn)
        zero = [g for g, t in gs if sym(fn, g['cond'], inline=False) in (('==', ('P', pn[1]), ('lit', '0')), ('==', ('lit', '0'), ('P', pn[1])))]
        sets = paths.positions_of(fn, lambda x: x['k'] == 'CXXMemberCallExpr' and x.get('callee') == 'set_shift')
        inst = 'SymGEigsShiftSolver<%s>::set_shift_and_move' % mode
        if mode in ('Buckling', 'Cayley'):
            ok = bool(zero) and bool(sets) and all(paths.dominated_by(fn, s, lambda x, g=zero[0]: fn.within(x, g['cond'])) for s in sets)
            ctx.check(ok, rule, inst, fn.qname, 'sigma == 0 is rejected before the shift is installed' if ok else
                      'sigma == 0 is not rejected before set_shift in %s mode' % mode)
        else:
            ctx.ok(rule, inst, fn.qname, 'shift-and-invert mode accepts any sigma (tabulated)')
    if n < 3:
        raise AnalysisBroken('only %d set_shift_and_move instantiations' % n)
    # zero start vector
    k = 0
    for fn in ctx.F.insts('Spectra::Arnoldi::init'):
        k += 1
        pn = [fn.locals[v]['name'] for v in fn.params]
        gs = guards_of_throws(fn)
        good = None
        for g, t in gs:
            c = sym(fn, g['cond'])      # with single-definition locals inlined
            if c[0] == '<' and isinstance(c[1], tuple) and c[1][0] == 'norm' and c[1][-1] == ('P', pn[0]) and 'invalid_argument' in t.get('thrown', ''):
                good = g
        ops = paths.positions_of(fn, lambda x: x['k'] == 'CXXMemberCallExpr' and x.get('callee') == 'perform_op')
        ok = good is not None and bool(ops) and all(paths.dominated_by(fn, o, lambda x, g=good: fn.within(x, g['cond'])) for o in ops)
        ctx.check(ok, rule, 'Arnoldi::init', fn.qname, 'norm(v0) < tiny is rejected with invalid_argument before the first operator application' if ok else
                  'a zero start vector is not rejected before the operator is applied')
    if k < 5:
        raise AnalysisBroken('only %d Arnoldi::init instantiations' % k)


SQUARE_WRAPPERS = ('DenseSymShiftSolve', 'SparseSymShiftSolve', 'DenseGenRealShiftSolve', 'SparseGenRealShiftSolve', 'DenseGenComplexShiftSolve',
                   'SparseGenComplexShiftSolve', 'DenseCholesky', 'SparseCholesky', 'SparseRegularInverse', 'SymShiftInvert',
                   # a symmetric / Hermitian matrix is square by definition: the product wrappers that read one triangle must reject others
                   'DenseSymMatProd', 'DenseHermMatProd', 'SparseSymMatProd', 'SparseHermMatProd')


def square_guards(ctx, rule='square-matrix-guard'):
    for w in SQUARE_WRAPPERS:
        ctors = [f for f in ctx.F.concrete() if f.cls == 'Spectra::' + w and f.d.get('ctor')]
        if not ctors:
            raise AnalysisBroken('constructor of %s not analysed' % w)
        for fn in ctors:
            gs = guards_of_throws(fn)
            problems = []
            if len(gs) != 1:
                problems.append('%d guarded throws in the constructor' % len(gs))
            else:
                g, t = gs[0]
                if 'invalid_argument' not in t.get('thrown', ''):
                    problems.append('throws %s' % t.get('thrown'))
                calls = sorted(set(fn.s(x) for x in fn.walk(g['cond']) if x['k'] == 'CXXMemberCallExpr' and x.get('callee') in ('rows', 'cols')))
                # fields initialised from a dimension of an argument count as that dimension
                flds = sorted(set(x['member'] for x in fn.walk(g['cond']) if x['k'] == 'MemberExpr' and x.get('mk') == 'field'))
                for fl in flds:
                    ini = [i for i in fn.inits if i['member'] == fl]
                    if not ini or not any(y['k'] == 'CXXMemberCallExpr' and y.get('callee') in ('rows', 'cols') for y in fn.walk(ini[0]['expr'])):
                        problems.append('guard uses field %s, which is not a dimension of an argument' % fl)
                if len(calls) + len(flds) < 2:
                    problems.append('guard does not compare rows and columns')
                elif not problems:
                    for vals in itertools.product((1, 2, 3), repeat=len(calls) + len(flds)):
                        cd = {c: (lambda a, v=v: v) for c, v in zip(calls, vals)}
                        env = {('field', fl): v for fl, v in zip(flds, vals[len(calls):])}
                        try:
                            rej = ev(fn, g['cond'], env, cd)
                        except CannotEval as e:
                            raise AnalysisBroken('%s: cannot evaluate the shape guard: %s' % (fn.qname, e))
                        if rej != (len(set(vals)) != 1):
                            problems.append('shape %s is %s' % (dict(zip(calls + flds, vals)), 'rejected' if rej else 'accepted'))
                            break
            ctx.check(not problems, rule, w, fn.qname, 'rejects exactly the non-square (or mismatching) shapes up to 3x3' if not problems else '; '.join(problems))
    # the solvers themselves: an operator (the library's product wrappers for general matrices, or a user-defined one) may be
    # rectangular; the eigen-solver needs a square one and must say so instead of iterating on mismatched lengths
    nb = 0
    for tmpl in sorted(DOC_RANGES):
        for fn in [f for f in ctx.F.concrete() if f.cls == tmpl and f.d.get('ctor')]:
            if any(i['member'] == '<delegating>' for i in fn.inits):
                continue
            gs = [(fn, g, t) for g, t in guards_of_throws(fn)]
            for c in fn.walk():
                if c['k'] == 'CXXMemberCallExpr' and c.get('org') == 'S':
                    o = fn.call_object(c)
                    if o is not None and fn.strip(o)['k'] == 'CXXThisExpr' and ctx.F.resolve(c) is not None:
                        h = ctx.F.resolve(c)
                        gs += [(h, g, t) for g, t in guards_of_throws(h)]
            found = False
            for gf, g, t in gs:
                calls = sorted(set(gf.s(x) for x in gf.walk(g['cond']) if x['k'] == 'CXXMemberCallExpr' and x.get('callee') in ('rows', 'cols')))
                kinds = set(x.get('callee') for x in gf.walk(g['cond']) if x['k'] == 'CXXMemberCallExpr' and x.get('callee') in ('rows', 'cols'))
                if kinds != {'rows', 'cols'} or len(calls) != 2 or 'invalid_argument' not in t.get('thrown', ''):
                    continue
                ok = True
                for vals in itertools.product((1, 2, 3), repeat=2):
                    try:
                        rej = ev(gf, g['cond'], {}, {c_: (lambda a, v=v: v) for c_, v in zip(calls, vals)})
                    except CannotEval:
                        ok = False
                        break
                    if rej != (vals[0] != vals[1]):
                        ok = False
                found = found or ok
            nb += 1
            ctx.check(found, rule, '%s::%s/operator-is-square' % (tmpl.replace('Spectra::', ''), fn.name), fn.qname,
                      'the constructor rejects an operator whose rows() and cols() differ with std::invalid_argument' if found else
                      'the constructor never compares rows() and cols() of the operator: a rectangular operator (DenseGenMatProd of a 3x4 matrix) is accepted and the iteration runs on vectors of mismatched length')
    if nb < 4:
        raise AnalysisBroken('only %d solver-base constructors analysed for the square-operator guard' % nb)



INT_T = ('long', 'int', 'unsigned long', 'unsigned int', 'Eigen::Index', 'std::size_t', 'const long', 'const int', 'long long')
SIZED_CALLS = ('resize', 'conservativeResize', 'reserve', 'setZero', 'setOnes', 'setConstant', 'setRandom', 'setLinSpaced')


def _leaves(fn, nid):
    """('P', name) / ('F', name) leaves of an expression."""
    out = set()
    for x in fn.walk(nid):
        if x['k'] == 'DeclRefExpr' and 'var' in x and x['var'] in fn.params:
            out.add(('P', fn.locals[x['var']]['name']))
        elif x['k'] == 'MemberExpr' and x.get('mk') == 'field':
            out.add(('F', x['member']))
    return out


def _sized_allocations(F, fn, tainted, depth=0, seen=None):
    """[(function, node, what)]: constructions / resizes in fn (initialiser list and body, and the constructors they run) whose size
    depends on a tainted parameter or on a field initialised from one.  `tainted` = set of ('P', name) / ('F', name)."""
    if seen is None:
        seen = set()
    key = (fn.mangled or fn.qname, tuple(sorted(tainted)))
    if key in seen or depth > 6:
        return []
    seen.add(key)
    tainted = set(tainted)
    out = []
    roots = []
    for i in fn.inits:
        if i['expr'] >= 0:
            roots.append((i, i['expr']))
    if fn.d.get('body', -1) is not None and fn.d.get('body', -1) >= 0:
        roots.append((None, fn.d['body']))
    for i, root in roots:
        for x in fn.walk(root):
            k = x['k']
            if k in ('CXXConstructExpr', 'CXXTemporaryObjectExpr') and (x.get('cls') or '').startswith(('Eigen::', 'std::vector')):
                args = fn.call_args(x)
                if args and x.get('targs') and all(t in INT_T for t in x['targs']):
                    lv = set()
                    for a in args:
                        lv |= _leaves(fn, a['id'])
                    if lv & tainted:
                        out.append((fn, x, '%s sized by %s' % (fn.s(x)[:50], sorted(n for _, n in lv & tainted))))
            elif k == 'CXXMemberCallExpr' and x.get('callee') in SIZED_CALLS and (x.get('cls') or '').startswith(('Eigen::', 'std::vector')):
                args = fn.call_args(x)
                lv = set()
                for a in args:
                    lv |= _leaves(fn, a['id'])
                if args and lv & tainted:
                    out.append((fn, x, '%s sized by %s' % (fn.s(x)[:50], sorted(n for _, n in lv & tainted))))
            elif k in ('CXXConstructExpr', 'CXXTemporaryObjectExpr') and (x.get('cls') or '').startswith(('Spectra::', 'SpectraControl::')):
                callee = F.resolve(x)
                if callee is None or not callee.d.get('ctor'):
                    continue
                args = fn.call_args(x)
                t2 = set()
                for a, pv in zip(args, callee.params):
                    if _leaves(fn, a['id']) & tainted:
                        t2.add(('P', callee.locals[pv]['name']))
                if t2:
                    out += _sized_allocations(F, callee, t2, depth + 1, seen)
        # a field initialised from a tainted expression is tainted for the later initialisers and the body
        if i is not None and i['member'] not in ('<base>', '<delegating>') and _leaves(fn, root) & tainted:
            tainted.add(('F', i['member']))
    return out


def validation_precedes_allocation(ctx, rule='no-allocation-sized-by-unvalidated-argument', min_instances=6):
    """An out-of-range (nev, ncv) must be answered by std::invalid_argument -- not by whatever an allocation of a negative or
    absurd size does first (std::bad_alloc with Eigen's assertions off, abort with them on).  In every validating constructor:
    no object is constructed or resized with a size that depends on nev / ncv in the member-initialiser list (which runs before
    the range guards in the body), transitively through the constructors of Spectra members; in the body such allocations are
    dominated by every range guard."""
    n = 0
    for tmpl in sorted(DOC_RANGES):
        for fn in [f for f in ctx.F.concrete() if f.cls == tmpl and f.d.get('ctor')]:
            pn = set(fn.locals[v]['name'] for v in fn.params)
            taint = set(('P', x) for x in pn if x in ('nev', 'ncv') or 'number_eigenvalues' in x or 'search_space' in x)
            if not taint:
                if any(i['member'] == '<delegating>' for i in fn.inits):
                    continue
                raise AnalysisBroken('%s: no nev / ncv parameter recognised among %s' % (fn.qname, sorted(pn)))
            inst = '%s::%s' % (tmpl.replace('Spectra::', ''), fn.name)
            ev_ = _sized_allocations(ctx.F, fn, taint)
            guards = [g for g, t in guards_of_throws(fn)]
            helpers = [c['id'] for c in fn.walk() if c['k'] == 'CXXMemberCallExpr' and c.get('org') == 'S' and ctx.F.resolve(c) is not None and guards_of_throws(ctx.F.resolve(c))]
            bad = []
            for g, x, what in ev_:
                in_body = g is fn and fn.d.get('body', -1) >= 0 and fn.within(x['id'], fn.d['body'])
                if in_body:
                    stops = set(gd['cond'] for gd in guards) | set(helpers)
                    # every guard (or validating helper) dominates the allocation (a guard = any part of its condition)
                    ok = bool(stops) and all(paths.dominated_by(fn, fn.pos_of(x), lambda m, s_=s_: fn.within(m['id'], s_)) for s_ in stops)
                    if not ok:
                        bad.append('%s at %s is not dominated by every range guard' % (what, fn.loc(x)))
                else:
                    bad.append('%s at %s runs in the member-initialiser list%s, before the range guards of the constructor body' %
                               (what, g.loc(x), '' if g is fn else ' (through the constructor %s)' % g.qname.split('<')[0].split('::')[-1]))
            n += 1
            ctx.check(not bad, rule, inst, fn.qname,
                      'no construction or resize sized by nev / ncv before the range guards (%d sized allocations after them)' % len(ev_)
                      if not bad else '; '.join(bad[:3]) + ': an out-of-range argument (negative ncv) reaches the allocation first and is answered by std::bad_alloc / an Eigen assertion instead of std::invalid_argument')
    if n < min_instances:
        raise AnalysisBroken('only %d validating constructors analysed' % n)
    # positive control: the control constructor allocates through a member's constructor before its guard, and once after it
    ctl = [f for f in ctx.C.concrete() if f.qname == 'SpectraControl::LateValidation::LateValidation']
    if not ctl:
        raise AnalysisBroken('positive control constructor LateValidation not analysed')
    ev_ = _sized_allocations(ctx.C, ctl[0], {('P', 'nev'), ('P', 'ncv')})
    early = [e for e in ev_ if e[0] is not ctl[0]]
    late = [e for e in ev_ if e[0] is ctl[0] and paths.dominated_by(ctl[0], ctl[0].pos_of(e[1]), lambda m: any(ctl[0].within(m['id'], g['cond']) for g, _ in guards_of_throws(ctl[0])))]
    if len(early) != 1 or len(late) != 1:
        raise AnalysisBroken('positive control for allocation-before-validation not matched exactly (early %d, late %d)' % (len(early), len(late)))

def rejected_init_leaves_uninitialised(ctx, rule='rejected-init-leaves-no-half-built-state'):
    """init() can be rejected (zero start vector: std::invalid_argument) or interrupted (the user's operator throws).  The
    factorization records how far it is built in its dimension field: 0 = nothing, 1 = after init(), ncv = after compute(); the
    solver's compute() refuses a dimension-0 object.  A rejected init() on an object that was used before must not leave the
    dimension of the earlier run standing next to arrays this call has already zeroed (compute() would then "converge" at once on
    H = 0 and report Successful): every path from the entry of the factorization's init() to a statement that can throw --
    a throw expression or a call into the user's operator -- passes an assignment of 0 to the dimension field first."""
    from . import paths
    n = 0
    seen = set()
    for fn in ctx.F.concrete():
        if fn.cls != 'Spectra::Arnoldi' or fn.name != 'init' or not fn.cfg or fn.mangled in seen:
            continue
        seen.add(fn.mangled)
        resets = [x for x in fn.walk() if x['k'] == 'BinaryOperator' and x.get('op') == '=' and sym(fn, x, inline=False) == ('=', ('F', 'm_k'), ('lit', '0'))]
        rids = set(x['id'] for x in resets)

        def may_throw(n_):
            if n_['k'] == 'CXXThrowExpr':
                return True
            if n_['k'] == 'CXXMemberCallExpr' and n_.get('callee') in ('perform_op', 'norm', 'inner_product', 'trans_product', 'adjoint_product'):
                o = fn.call_object(n_)
                return o is not None and fn.field_name(fn.strip(o)) == 'm_op'
            return False
        points = [x for x in fn.walk() if may_throw(x)]
        if len(points) < 3:
            raise AnalysisBroken('%s: only %d throwing points found' % (fn.qname, len(points)))
        hit = paths.search(fn, [], stop=lambda n_: n_['id'] in rids, target=may_throw, include_entry=True)
        # the dimension is set to its positive value only after the last throwing point
        sets = [x for x in fn.walk() if x['k'] == 'BinaryOperator' and x.get('op') == '=' and sym(fn, x['c'][0], inline=False) == ('F', 'm_k') and x['id'] not in rids]
        late = None
        for x in sets:
            late = late or paths.search(fn, [fn.pos_of(x)], stop=lambda n_: False, target=may_throw)
        n += 1
        ok = hit is None and late is None and bool(sets)
        ctx.check(ok, rule, 'Arnoldi::init', fn.qname,
                  'the dimension is reset to 0 before the first of %d statements that can throw and set to its final value after the last' % len(points) if ok else
                  ('a statement that can throw (%s) is reached while the dimension field still holds the value of an earlier run: after a rejected init() (zero start vector) on a '
                   'used object, compute() skips the factorization, finds H = 0 "converged" and reports Successful with zero eigenvalues' % (hit[-1].split(': ', 1)[-1][:50] if hit else 'after the dimension was set')))
    if n < 1:
        raise AnalysisBroken('Arnoldi::init not analysed')


def rejected_compute_changes_nothing(ctx, rule='rejected-call-leaves-the-object-unchanged'):
    """compute() of the small decompositions rejects a non-square argument with std::invalid_argument.  The object may hold a
    valid earlier decomposition (its `computed` flag stays true): the rejected call must not have changed any member before it
    threw -- otherwise the accessors and apply methods go on working with the new size and the old arrays (wrong results without
    an exception, or reads past the arrays).  On every path from the entry of the member to a throw of invalid_argument no field of
    the object is written."""
    from . import paths
    n = 0
    seen = set()
    for fn in ctx.F.concrete():
        if not (fn.cls or '').startswith('Spectra::') or fn.name != 'compute' or not fn.cfg or fn.mangled in seen:
            continue
        if '/LinAlg/' not in (fn.d.get('file') or fn.loc()):
            continue
        throws = [t for g, t in guards_of_throws(fn) if 'invalid_argument' in t.get('thrown', '')]
        if not throws:
            continue
        seen.add(fn.mangled)
        fe = ctx.E.of(fn)
        writes = {}
        for a in fe.accesses:
            if a.mode == 'w' and a.path and not a.path[0].startswith('%'):
                writes[a.node] = a.path[0]
        for t in throws:
            n += 1
            tid = t['id']
            hit = paths.search(fn, [], stop=lambda n_: False, target=lambda n_: n_['id'] in writes and
                               paths.search(fn, [fn.pos_of(n_)], stop=lambda m_: False, target=lambda m_: m_['id'] == tid) is not None, include_entry=True)
            first = None
            if hit is not None:
                for nid, fld in sorted(writes.items()):
                    pos = fn.pos_of(fn.nodes[nid])
                    if pos and paths.search(fn, [pos], stop=lambda m_: False, target=lambda m_: m_['id'] == tid) is not None:
                        first = (fld, fn.s(fn.nodes[nid])[:40])
                        break
            ctx.check(hit is None, rule, '%s::compute' % fn.cls.replace('Spectra::', ''), fn.qname,
                      'nothing is written before the rejection `%s`' % fn.s(t)[:60] if hit is None else
                      'the member %s is written (`%s`) before the argument is rejected: after a rejected compute() on an object that holds a valid decomposition the `computed` flag is still true, '
                      'the size is the one of the rejected matrix and the arrays are the old ones -- the apply methods / accessors then return wrong results or read past the arrays' % (first or ('?', '?')))
    if n < 5:
        raise AnalysisBroken('only %d rejecting compute() members found in LinAlg (7 confirmed by hand)' % n)


def sorting_rule_validated_first(ctx, rule='sorting-rule-validated-before-the-iteration'):
    """compute(selection, maxit, tol, sorting): the final sort is the only consumer of `sorting`, and it rejects an unsupported
    rule -- AFTER the whole iteration has run: the flags are set, the Ritz values retrieved (back-transformed in the shift
    solvers), the operator applied ncv (maxit + 1) times, while status and iteration count are those of before the call: a
    rejected call that leaves a partially built result behind.  So (a) compute() has a test on `sorting` that throws
    std::invalid_argument and that every path from entry passes before the first call that changes the object; and (b) the
    set of rules that test accepts equals the set the final sort accepts (evaluated on all nine enumerators): one more would be
    rejected late all the same, one fewer would reject a documented rule."""
    from . import paths
    from .xeval import ev, CannotEval
    names = c18.enum_table(ctx)
    n = 0
    for base in ('Spectra::HermEigsBase', 'Spectra::GenEigsBase'):
        for fn in ctx.F.insts(base + '::compute'):
            if not fn.cfg:
                continue
            rp = [v for v in fn.params if fn.locals[v]['type'] == 'Spectra::SortRule']
            if len(rp) != 2:
                raise AnalysisBroken('%s: compute() has %d SortRule parameters' % (fn.record, len(rp)))
            srt = fn.locals[rp[1]]['name']
            guards = [(g, t) for g, t in guards_of_throws(fn) if 'invalid_argument' in t.get('thrown', '') and
                      any(y['k'] == 'DeclRefExpr' and y.get('var') == rp[1] for y in fn.walk(g['cond']))]
            inst = '%s::compute' % base.replace('Spectra::', '')
            n += 1
            if not guards:
                ctx.fail(rule, inst, fn.qname, 'compute() never tests its `%s` argument: an unsupported rule is rejected only by the final sort, after the whole iteration '
                         '(flags set, Ritz values retrieved, operator applied, status and iteration count unchanged)' % srt)
                continue
            g = guards[0][0]
            cond_ids = set(y['id'] for y in fn.walk(g['cond']))
            changing = lambda m_: m_['k'] == 'CXXMemberCallExpr' and m_.get('callee') in ('factorize_from', 'retrieve_ritzpair', 'restart', 'num_converged', 'sort_ritzpair', 'init')
            hit = paths.search(fn, [], stop=lambda m_: m_['id'] in cond_ids, target=changing, include_entry=True)
            # accepted sets
            def accepted_by(fnx, cond, var):
                acc = set()
                for val, name in names.items():
                    try:
                        r = ev(fnx, cond, {('local', fnx.locals[var]['name']): ('enum', name)})
                    except CannotEval as e:
                        raise AnalysisBroken('%s: cannot evaluate the rule test: %s' % (fnx.qname, e))
                    if not r:
                        acc.add(name)
                return acc
            mine = accepted_by(fn, g['cond'], rp[1])
            # the final sort of this base
            sorts = [f for f in ctx.F.by_record[fn.record].get('sort_ritzpair', [])]
            theirs = None
            if sorts:
                sf = sorts[0]
                sw = [x for x in sf.walk() if x['k'] == 'SwitchStmt']
                if sw:
                    theirs = set(names[c.get('ival')] for c in sf.walk(sw[0]['body']) if c['k'] == 'CaseStmt' and c.get('ival') in names)
                else:
                    sg = [(gg, t) for gg, t in guards_of_throws(sf) if 'invalid_argument' in t.get('thrown', '')]
                    if sg:
                        theirs = accepted_by(sf, sg[0][0]['cond'], sf.params[0])
            if theirs is None:
                raise AnalysisBroken('%s: rule support of the final sort not identified' % fn.record)
            probs = []
            if hit is not None:
                probs.append('`%s` changes the object on a path that has not yet tested `%s`' % (str(hit[-1])[:90], srt))
            if mine != theirs:
                probs.append('compute() accepts %s, the final sort %s' % (sorted(mine), sorted(theirs)))
            ctx.check(not probs, rule, inst, fn.qname,
                      '`%s` is tested (accepts %s, like the final sort) before the first call that changes the object' % (srt, sorted(mine)) if not probs else '; '.join(probs))
    if n < 2:
        raise AnalysisBroken('only %d compute() members of the solver bases analysed' % n)


def run(ctx):
    range_guards(ctx)
    validation_precedes_allocation(ctx)
    rejected_init_leaves_uninitialised(ctx)
    rejected_compute_changes_nothing(ctx)
    sorting_rule_validated_first(ctx)
    thrown_types(ctx)
    c18.dispatch(ctx)
    sigma_guards(ctx)
    square_guards(ctx)
    composite_operators_check_the_user_operator(ctx)
    hygiene.raw_allocation(ctx)
    ctx.require('range-guard-equals-documented-range', 6)
    ctx.require('square-matrix-guard', 10)


def composite_operators_check_the_user_operator(ctx, rule='square-matrix-guard'):
    """The generalized solvers hand the base class an internal composite operator.  When its rows() / cols() report the size of
    ONE of the user's operators only (the Cholesky and regular-inverse composites report the size of B), the base's shape test
    `rows() == cols()` never sees the other one: a rectangular A built with a library wrapper that legitimately accepts any shape
    (DenseGenMatProd, SparseGenMatProd) is accepted, compute() reports an eigenvalue for a 4 x 3 A and reads out of bounds for a
    3 x 4 one.  Such a composite must compare, in its constructor and before it sizes anything by them, rows() and cols() of the
    operator it hides with each other and with the size it reports, and throw invalid_argument."""
    n = 0
    for cls in ('Spectra::SymGEigsCholeskyOp', 'Spectra::SymGEigsRegInvOp'):
        ms = [f for f in ctx.F.concrete() if f.cls == cls and f.cfg is not None]
        ctors = [f for f in ms if f.d.get('ctor') and len(f.params) == 2]
        sizes = [f for f in ms if f.name in ('rows', 'cols')]
        if not ctors or not sizes:
            raise AnalysisBroken('%s: constructor / rows() / cols() not analysed' % cls)
        reported = set()
        for f in sizes:
            for r in f.walk():
                if r['k'] == 'ReturnStmt':
                    reported |= set(a[1] for a in atoms(sym(f, r['value'], inline=False)) if a[0] == 'F')
        seen = set()
        for fn in ctors:
            if fn.mangled in seen:
                continue
            seen.add(fn.mangled)
            pn = [fn.locals[v]['name'] for v in fn.params]
            hidden = [p_ for p_, fld in zip(pn, ('m_op', 'm_Bop')) if fld not in reported]
            n += 1
            if not hidden:
                ctx.ok(rule, cls.replace('Spectra::', '') + '::ctor', fn.qname, 'rows() / cols() involve both operators')
                continue
            gs = guards_of_throws(fn)
            ok = False
            why = 'no guarded throw in the constructor'
            for g, t in gs:
                c = show(sym(fn, g['cond'], inline=False))
                h = hidden[0]
                if 'invalid_argument' in t.get('thrown', '') and ('rows(%s)' % h) in c and ('cols(%s)' % h) in c and any(('rows(%s)' % o) in c or ('cols(%s)' % o) in c for o in pn if o != h):
                    ok, why = True, 'the constructor throws invalid_argument unless `%s`' % c[:90]
            # nothing is sized by the hidden operator before the test
            inits = [i for i in fn.inits if i.get('expr', -1) >= 0 and h_in(fn, i, hidden)]
            if inits:
                ok, why = False, 'member `%s` is sized by the unvalidated operator in the initialiser list' % inits[0]['member']
            ctx.check(ok, rule, cls.replace('Spectra::', '') + '::ctor', fn.qname,
                      why if ok else 'rows() and cols() of this composite report the size of %s only, and %s: a rectangular A (a library wrapper for general matrices accepts any shape) passes the '
                      'solver\'s shape test; compute() then reports an eigenvalue for a 4 x 3 matrix and reads out of bounds for a 3 x 4 one' % (sorted(reported), why))
    if n < 2:
        raise AnalysisBroken('only %d composite-operator constructors analysed' % n)


def h_in(fn, init, hidden):
    t = show(sym(fn, fn.nodes[init['expr']], inline=False)) if isinstance(init.get('expr'), int) and init['expr'] in fn.nodes else ''
    return any(('rows(%s)' % h) in t or ('cols(%s)' % h) in t for h in hidden)
