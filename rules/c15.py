"""C15 -- Davidson solver: success discipline, ordering, guarded correction (structural clauses)."""
from .facts import AnalysisBroken
from . import paths
from .sym import sym, show, atoms
from .defuse import DefUse

EXPLANATION = (
    'Must-pass-through, dominating-guard and definite-assignment rules over the CFGs of the instantiated Davidson solver '
    '(dense and sparse operator), its CRTP base, RitzPairs and SearchSpace. Decides: (D1) the status is set to Successful only '
    'under a test of the flag returned, in the same loop iteration, by the convergence check; on every path of an iteration '
    'that reaches the check the pairs were recomputed (compute_eigen_pairs) and then sorted by the caller\'s selection rule, '
    'with nothing modifying them in between; the convergence check compares the column norms of the residual matrix '
    '(recomputed in compute_eigen_pairs as (A V) y - (V y) theta) with tol for the first nev pairs; compute() returns the '
    'number of set flags among the first nev; the rule and tolerance arguments reach their consumers unchanged; the sort moves '
    'values, vectors, residuals and small vectors with one index vector; (D2) the correction step divides the residual by '
    '(theta_k - a_ii) with no guard: classified UNGUARDED, recorded as a known finding (exactly decoupled coordinate => NaN); '
    '(D3) the status is assigned on every path of the iteration entry point -- today NOT the case when maxit <= 0 (loop not '
    'entered): recorded as a known finding. (D4) no `noalias()` assignment of the Davidson classes has its destination among the factors of a product on its right-hand side. Does NOT decide that the cached products equal A times the basis to rounding, '
    'orthonormality of the basis, or the effect of dependent user-supplied guesses.')
ASSUMPTIONS = ['Eigen::SelfAdjointEigenSolver returns ascending eigenvalues with orthonormal vectors']


def success_order(ctx, rule='success-only-after-fresh-sorted-convergence-test'):
    fns = ctx.F.insts('Spectra::JDSymEigsBase::compute_with_guess')
    for fn in fns:
        problems = []
        rec = [r for r in ctx.F.records.values() if r['qname'] == fn.record and not r['dep']][0]
        info = [f['name'] for f in rec['fields'] if f['type'] == 'Spectra::CompInfo'][0]
        succ = [x for x in fn.walk() if x['k'] == 'BinaryOperator' and x.get('op') == '=' and fn.field_name(fn.nodes[x['c'][0]]) == info and
                sym(fn, x['c'][1], inline=False) == ('enum', 'Successful')]
        if not succ:
            raise AnalysisBroken('%s: no assignment of Successful' % fn.qname)
        pn = [fn.locals[v]['name'] for v in fn.params]
        ptypes = [fn.locals[v]['type'] for v in fn.params]
        sel = [n for n, t in zip(pn, ptypes) if t == 'Spectra::SortRule'][0]
        tol = [n for n, t in zip(pn, ptypes) if t in ('double', 'float', 'long double')][0]
        cec = lambda n: n['k'] == 'CXXMemberCallExpr' and n.get('callee') == 'compute_eigen_pairs'
        srt = lambda n: n['k'] == 'CXXMemberCallExpr' and n.get('callee') == 'sort' and n.get('cls') == 'Spectra::RitzPairs'
        chk = lambda n: n['k'] == 'CXXMemberCallExpr' and n.get('callee') == 'check_convergence'
        for s in succ:
            g = None
            for a in fn.ancestors(s):
                if a['k'] == 'IfStmt' and fn.within(s, a['then']):
                    g = a
                    break
            if g is None:
                problems.append('Successful assigned unconditionally')
                continue
            c = sym(fn, g['cond'])     # single-definition locals inlined: the flag is the call itself
            if not (c[0] == 'check_convergence'):
                problems.append('Successful assigned under `%s`, which is not the result of the convergence check' % fn.s(g['cond']))
        checks = paths.positions_of(fn, chk)
        if len(checks) != 1:
            problems.append('%d convergence checks' % len(checks))
        else:
            # arguments
            call = paths.node_at(fn, *checks[0])
            a = [sym(fn, x, inline=False) for x in fn.call_args(call)]
            if a[0] != ('P', tol) or a[1][0] != 'F':
                problems.append('convergence check receives (%s)' % ', '.join(show(x) for x in a))
            # every path from loop-body entry to the check passes compute_eigen_pairs and then sort(selection)
            loops = [x for x in fn.walk() if x['k'] == 'ForStmt']
            body_first = None
            hit = paths.search(fn, [], stop=cec, target=chk, include_entry=True)
            if hit is not None:
                problems.append('the convergence check can be reached without recomputing the pairs')
            # from any writer of the pairs / the search space to the check: must pass compute then sort
            writers = paths.positions_of(fn, lambda n: n['k'] == 'CXXMemberCallExpr' and n.get('callee') in
                                         ('restart', 'extend_basis', 'update_operator_basis_product', 'initialize_search_space'))
            hit = paths.search(fn, writers, stop=cec, target=chk)
            if hit is not None:
                problems.append('after the search space changed the check runs on pairs that were not recomputed: ' + hit[-1])
            hit = paths.search(fn, paths.positions_of(fn, cec), stop=srt, target=chk)
            if hit is not None:
                problems.append('pairs are checked (and reported) without being sorted by the selection rule')
            sorts = paths.positions_of(fn, srt)
            for sp in sorts:
                sc = paths.node_at(fn, *sp)
                if sym(fn, fn.call_args(sc)[0], inline=False) != ('P', sel):
                    problems.append('sort receives %s, not the caller\'s selection rule' % fn.s(fn.call_args(sc)[0]))
            hit = paths.search(fn, sorts, stop=chk, target=lambda n: cec(n) or (n['k'] == 'CXXMemberCallExpr' and n.get('callee') in ('restart', 'extend_basis')))
            if hit is not None:
                problems.append('pairs / search space modified between sort and check')
        # return value: number of set flags among the first nev
        rets = [sym(fn, r['value'], inline=False) for r in fn.walk() if r['k'] == 'ReturnStmt']
        okr = len(rets) == 1 and rets[0][0] == 'sum' and rets[0][1][0] == 'head' and rets[0][1][1][0] == 'cast' and \
            rets[0][1][1][1][0] == 'converged_eigenvalues' and rets[0][1][2][0] == 'F'
        if not okr:
            problems.append('returns %s, not the number of converged flags among the first nev' % [show(r) for r in rets])
        ctx.check(not problems, rule, 'JDSymEigsBase::compute_with_guess', fn.qname,
                  'compute_eigen_pairs -> sort(selection) -> check_convergence(tol, nev) -> Successful; returns count of flags in head(nev)'
                  if not problems else '; '.join(problems))
    # compute() forwards its arguments
    for fn in ctx.F.insts('Spectra::JDSymEigsBase::compute'):
        pn = [fn.locals[v]['name'] for v in fn.params]
        calls = [x for x in fn.walk() if x['k'] == 'CXXMemberCallExpr' and x.get('callee') == 'compute_with_guess']
        ok = len(calls) == 1 and [sym(fn, a, inline=False) for a in fn.call_args(calls[0])][1:] == [('P', p) for p in pn]
        ctx.check(ok, rule, 'JDSymEigsBase::compute', fn.qname, 'selection, maxit, tol forwarded unchanged' if ok else 'arguments not forwarded unchanged')


def ritz_pairs_rules(ctx, rule='ritz-pairs-consistency'):
    for fn in ctx.F.insts('Spectra::RitzPairs::check_convergence'):
        pn = [fn.locals[v]['name'] for v in fn.params]
        problems = []
        # norms = column norms of the residual field
        defs = {fn.locals[d['var']]['name']: sym(fn, d['init'], inline=False) for x in fn.walk() if x['k'] == 'DeclStmt' for d in x['decls'] if 'init' in d}
        norms = [k for k, v in defs.items() if isinstance(v, tuple) and v[0] == 'norm' and v[1][0] == 'colwise' and v[1][1][0] == 'F']
        if len(norms) != 1:
            problems.append('column norms of the residual matrix not found')
        else:
            nn = norms[0]
            ands = [sym(fn, x, inline=False) for x in fn.walk() if x['k'] == 'CompoundAssignOperator' and x.get('op') == '&=']
            want = ('<', ('[]', ('L', nn), None), ('P', pn[0]))
            ok = len(ands) == 1 and ands[0][2][0] == '<' and ands[0][2][1][0] == '[]' and ands[0][2][1][1] == ('L', nn) and ands[0][2][2] == ('P', pn[0])
            if not ok:
                problems.append('converged is not the conjunction of norm[j] < tol')
            else:
                # guarded by j < nev
                x = [y for y in fn.walk() if y['k'] == 'CompoundAssignOperator' and y.get('op') == '&='][0]
                gs = [a for a in fn.ancestors(x) if a['k'] == 'IfStmt']
                if not gs or sym(fn, gs[0]['cond'], inline=False) != ('<', ands[0][2][1][2], ('P', pn[1])):
                    problems.append('conjunction is not restricted to j < nev')
            flags = [sym(fn, y, inline=False) for y in fn.walk() if y['k'] in ('BinaryOperator', 'CXXOperatorCallExpr') and y.get('op') == '=' and
                     sym(fn, y, inline=False)[1][0] == '[]' and sym(fn, y, inline=False)[1][1][0] == 'F']
            if not flags or flags[0][2][0] != '<' or flags[0][2][2] != ('P', pn[0]):
                problems.append('per-pair flag is not norm[j] < tol')
            rets = [sym(fn, r['value'], inline=False) for r in fn.walk() if r['k'] == 'ReturnStmt']
            if rets != [('L', 'converged')] and not (len(rets) == 1 and rets[0][0] == 'L'):
                problems.append('returns %s' % rets)
        ctx.check(not problems, rule, 'RitzPairs::check_convergence', fn.qname, 'all_{j<nev} ||r_j|| < tol, flags per pair' if not problems else '; '.join(problems))
    for fn in ctx.F.insts('Spectra::RitzPairs::compute_eigen_pairs'):
        asg = {show(sym(fn, x, inline=False)[1]): sym(fn, x, inline=False)[2] for x in fn.walk() if x['k'] in ('BinaryOperator', 'CXXOperatorCallExpr') and x.get('op') == '='}
        r = asg.get('m_residues')
        ok = r is not None and r[0] == '-' and r[1][0] == '*' and r[1][2] == ('F', 'm_small_vectors') and r[2][0] == '*' and r[2][1] == ('F', 'm_vectors') and \
            r[2][2] == ('asDiagonal', ('F', 'm_values'))
        v = asg.get('m_vectors')
        ok = ok and v is not None and v[0] == '*' and v[2] == ('F', 'm_small_vectors')
        ctx.check(bool(ok), rule, 'RitzPairs::compute_eigen_pairs', fn.qname,
                  'residues = (A V) y - (V y) diag(theta), vectors = V y' if ok else 'residual / Ritz vector formulas changed: %s' % {k: show(v) for k, v in asg.items()})
    for fn in ctx.F.insts('Spectra::RitzPairs::sort'):
        from .eigsbase import indexed_copies, split_index, loop_range
        copies = indexed_copies(fn)
        how = {}          # field -> ('gather' | 'scatter', index source)
        for n, dst, src, loop in copies:
            droot, didx = split_index(dst)
            sroot, sidx = split_index(src)
            if droot and droot[0] == 'F' and sidx and isinstance(sidx[-1], tuple) and sidx[-1][0] == '[]' and didx and didx[-1][0] == 'L':
                how[droot[1]] = ('gather', sidx[-1][1])           # f<i> = old_f<ind[i]>
            elif droot and droot[0] == 'F' and didx and isinstance(didx[-1], tuple) and didx[-1][0] == '[]':
                how[droot[1]] = ('scatter', didx[-1][1])          # f<ind[i]> = old_f<i>
        # permutation-matrix idiom: P.indices()[i] = ind[i]  =>  (M * P)(:, i) = M(:, ind[i]) gathers, P * v scatters,
        # P.transpose() * v / P.inverse() * v gathers
        perms = {}
        for n, dst, src, loop in copies:
            if isinstance(dst, tuple) and dst[0] == '[]' and isinstance(dst[1], tuple) and dst[1][0] == 'indices' and dst[1][1][0] == 'L' and \
                    isinstance(src, tuple) and src[0] == '[]' and dst[2] == src[2]:
                perms[dst[1][1][1]] = src[1]
        for x in fn.walk():
            if x['k'] in ('CXXOperatorCallExpr', 'BinaryOperator') and x.get('op') == '=':
                t = sym(fn, x, inline=False)
                if t[1][0] != 'F' or not isinstance(t[2], tuple) or t[2][0] != '*' or len(t[2]) != 3:
                    continue
                a, b = t[2][1], t[2][2]
                f = t[1][1]
                if a == t[1] and b[0] == 'L' and b[1] in perms:
                    how[f] = ('gather', perms[b[1]])
                elif b == t[1] and a[0] == 'L' and a[1] in perms:
                    how[f] = ('scatter', perms[a[1]])
                elif b == t[1] and a[0] in ('transpose', 'inverse') and a[1][0] == 'L' and a[1][1] in perms:
                    how[f] = ('gather', perms[a[1][1]])
                elif a == t[1] and b[0] in ('transpose', 'inverse') and b[1][0] == 'L' and b[1][1] in perms:
                    how[f] = ('scatter', perms[b[1][1]])
        rec = [r for r in ctx.F.records.values() if r['qname'] == fn.record and not r['dep']][0]
        per_pair = [f['name'] for f in rec['fields'] if f['type'].startswith('Eigen::Matrix<')]
        missing = [f for f in per_pair if f not in how]
        kinds = set(h[0] for h in how.values())
        srcs = set(h[1] for h in how.values())
        ok = not missing and kinds == {'gather'} and len(srcs) == 1
        ctx.check(ok, rule, 'RitzPairs::sort', fn.qname, 'values, vectors, residues and small vectors gathered by one index vector' if ok else
                  'per-pair arrays are not permuted alike: %s%s' % ({f: h[0] for f, h in sorted(how.items())}, (', not permuted: %s' % missing) if missing else ''))


def correction_guard(ctx, rule='division-guarded'):
    for fn in ctx.F.insts('Spectra::DavidsonSymEigsSolver::calculate_correction_vector'):
        divs = [x for x in fn.walk() if x['k'] in ('CXXOperatorCallExpr', 'BinaryOperator') and x.get('op') == '/']
        if not divs:
            raise AnalysisBroken('%s: correction division not found' % fn.qname)
        for d in divs:
            ops = fn.call_args(d) if d['k'] == 'CXXOperatorCallExpr' else [fn.nodes[c] for c in d['c']]
            den = sym(fn, ops[1])
            guarded = False
            for i in fn.walk():
                if i['k'] == 'IfStmt' and paths.dominated_by(fn, fn.pos_of(d), lambda n, i=i: fn.within(n, i['cond'])):
                    guarded = True
            # also guarded if the denominator is clamped (cwiseMax / select / max) away from zero
            txt = show(den)
            if any(k in txt for k in ('cwiseMax', 'select(', 'max(', 'cwiseMin')):
                guarded = True
            ctx.check(guarded, rule, 'DavidsonSymEigsSolver::calculate_correction_vector', fn.qname,
                      'division by %s is guarded' % txt if guarded else
                      'the correction divides by %s with no guard: an exactly decoupled coordinate (theta_k == a_ii) gives 0/0 or x/0 and the iteration continues with NaN' % txt)


def status_assigned(ctx, rule='status-assigned-on-every-path'):
    """Two instances so that a known finding for one escape does not hide the other: (a) the iteration loop is not entered,
    (b) a path that ran at least part of one iteration leaves the function without assigning the status."""
    for fn in ctx.F.insts('Spectra::JDSymEigsBase::compute_with_guess'):
        rec = [r for r in ctx.F.records.values() if r['qname'] == fn.record and not r['dep']][0]
        info = [f['name'] for f in rec['fields'] if f['type'] == 'Spectra::CompInfo'][0]
        wids = set(a.node for a in ctx.E.of(fn).accesses if a.path == (info,) and a.mode == 'w')
        loops = [x for x in fn.walk() if x['k'] == 'ForStmt']
        if len(loops) != 1:
            raise AnalysisBroken('%s: %d loops' % (fn.qname, len(loops)))
        body = loops[0]['body']
        in_body = lambda n: fn.within(n, body)
        is_ret = lambda n: n['k'] == 'ReturnStmt'
        # (a) entry -> return without entering the body and without a status write
        w_a = paths.search(fn, [], stop=lambda n: n['id'] in wids or in_body(n), target=is_ret, include_entry=True, feas=True)
        ctx.check(w_a is None, rule, 'JDSymEigsBase::compute_with_guess@loop-not-entered', fn.qname,
                  'status assigned also when the loop is not entered' if w_a is None else
                  'when the iteration loop is not entered (maxit <= 0) no status is assigned: info() keeps the value of an earlier run (or NotComputed) '
                  'and the returned count / accessors read pairs that this call never computed', path=w_a)
        # (b) from the first element of the loop body -> return without a status write
        first = None
        for x in fn.walk(body):
            p = fn.elem_pos.get(x['id'])
            if p is not None:
                first = p
                break
        # start just before the first body element
        starts = [(first[0], first[1] - 1)] if first else []
        w_b = paths.search(fn, starts, stop=lambda n: n['id'] in wids, target=is_ret, feas=True,
                           assume=[(fn.nodes[loops[0]['cond']], True)]) if starts else None
        ctx.check(w_b is None, rule, 'JDSymEigsBase::compute_with_guess@inside-loop', fn.qname,
                  'every path that ran an iteration assigns Successful / NotConverging / NumericalIssue before returning' if w_b is None else
                  'a path that ran the iteration leaves compute_with_guess() without assigning the status', path=w_b)


def run(ctx):
    from . import hygiene
    hygiene.noalias_destination_not_in_product(ctx, scope=lambda fn: fn.cls in ('Spectra::SearchSpace', 'Spectra::RitzPairs', 'Spectra::JDSymEigsBase', 'Spectra::DavidsonSymEigsSolver'), min_instances=1)
    success_order(ctx)
    ritz_pairs_rules(ctx)
    correction_guard(ctx)
    status_assigned(ctx)
