"""C15 -- Davidson solver: success discipline, ordering, guarded correction (structural clauses)."""
from .facts import AnalysisBroken
from . import paths
from .sym import sym, show, atoms
from .defuse import DefUse

EXPLANATION = (
    'Must-pass-through, dominating-guard and definite-assignment rules over the CFGs of the instantiated Davidson solver '
    '(dense and sparse operator), its CRTP base, RitzPairs and SearchSpace. Decides: (D1) the status is set to Successful only '
    'under a test of the flag returned, in the same loop iteration, by the convergence check; on every path of an iteration '
    'that reaches the check the pairs were recomputed (compute_eigen_pairs) and then sorted by the caller\'s selection rule, '
    'with nothing modifying them in between; the convergence check compares the column norms of the residual matrix '
    '(recomputed in compute_eigen_pairs as (A V) y - (V y) theta) with tol for the first nev pairs; compute() returns the '
    'number of set flags among the first nev; the rule and tolerance arguments reach their consumers unchanged; the sort moves '
    'values, vectors, residuals and small vectors with one index vector; (D2) the correction step divides the residual by '
    '(theta_k - a_ii) with no guard: classified UNGUARDED, recorded as a known finding (exactly decoupled coordinate => NaN); '
    '(D3) the status is assigned on every path of the iteration entry point -- today NOT the case when maxit <= 0 (loop not '
    'entered): recorded as a known finding. (D4) no `noalias()` assignment of the Davidson classes has its destination among the factors of a product on its right-hand side. Does NOT decide that the cached products equal A times the basis to rounding, '
    'orthonormality of the basis, or the effect of dependent user-supplied guesses.')
ASSUMPTIONS = ['Eigen::SelfAdjointEigenSolver returns ascending eigenvalues with orthonormal vectors']


def success_order(ctx, rule='success-only-after-fresh-sorted-convergence-test'):
    fns = ctx.F.insts('Spectra::JDSymEigsBase::compute_with_guess')
    for fn in fns:
        problems = []
        rec = [r for r in ctx.F.records.values() if r['qname'] == fn.record and not r['dep']][0]
        info = [f['name'] for f in rec['fields'] if f['type'] == 'Spectra::CompInfo'][0]
        succ = [x for x in fn.walk() if x['k'] == 'BinaryOperator' and x.get('op') == '=' and fn.field_name(fn.nodes[x['c'][0]]) == info and
                sym(fn, x['c'][1], inline=False) == ('enum', 'Successful')]
        if not succ:
            raise AnalysisBroken('%s: no assignment of Successful' % fn.qname)
        pn = [fn.locals[v]['name'] for v in fn.params]
        ptypes = [fn.locals[v]['type'] for v in fn.params]
        sel = [n for n, t in zip(pn, ptypes) if t == 'Spectra::SortRule'][0]
        tol = [n for n, t in zip(pn, ptypes) if t in ('double', 'float', 'long double')][0]
        cec = lambda n: n['k'] == 'CXXMemberCallExpr' and n.get('callee') == 'compute_eigen_pairs'
        srt = lambda n: n['k'] == 'CXXMemberCallExpr' and n.get('callee') == 'sort' and n.get('cls') == 'Spectra::RitzPairs'
        chk = lambda n: n['k'] == 'CXXMemberCallExpr' and n.get('callee') == 'check_convergence'
        for s in succ:
            g = None
            for a in fn.ancestors(s):
                if a['k'] == 'IfStmt' and fn.within(s, a['then']):
                    g = a
                    break
            if g is None:
                problems.append('Successful assigned unconditionally')
                continue
            c = sym(fn, g['cond'])     # single-definition locals inlined: the flag is the call itself
            if not (c[0] == 'check_convergence'):
                problems.append('Successful assigned under `%s`, which is not the result of the convergence check' % fn.s(g['cond']))
        checks = paths.positions_of(fn, chk)
        if len(checks) != 1:
            problems.append('%d convergence checks' % len(checks))
        else:
            # arguments
            call = paths.node_at(fn, *checks[0])
            a = [sym(fn, x, inline=False) for x in fn.call_args(call)]
            if a[0] != ('P', tol) or a[1][0] != 'F':
                problems.append('convergence check receives (%s)' % ', '.join(show(x) for x in a))
            # every path from loop-body entry to the check passes compute_eigen_pairs and then sort(selection)
            loops = [x for x in fn.walk() if x['k'] == 'ForStmt']
            body_first = None
            hit = paths.search(fn, [], stop=cec, target=chk, include_entry=True)
            if hit is not None:
                problems.append('the convergence check can be reached without recomputing the pairs')
            # from any writer of the pairs / the search space to the check: must pass compute then sort
            writers = paths.positions_of(fn, lambda n: n['k'] == 'CXXMemberCallExpr' and n.get('callee') in
                                         ('restart', 'extend_basis', 'update_operator_basis_product', 'initialize_search_space'))
            hit = paths.search(fn, writers, stop=cec, target=chk)
            if hit is not None:
                problems.append('after the search space changed the check runs on pairs that were not recomputed: ' + hit[-1])
            hit = paths.search(fn, paths.positions_of(fn, cec), stop=srt, target=chk)
            if hit is not None:
                problems.append('pairs are checked (and reported) without being sorted by the selection rule')
            sorts = paths.positions_of(fn, srt)
            for sp in sorts:
                sc = paths.node_at(fn, *sp)
                if sym(fn, fn.call_args(sc)[0], inline=False) != ('P', sel):
                    problems.append('sort receives %s, not the caller\'s selection rule' % fn.s(fn.call_args(sc)[0]))
            hit = paths.search(fn, sorts, stop=chk, target=lambda n: cec(n) or (n['k'] == 'CXXMemberCallExpr' and n.get('callee') in ('restart', 'extend_basis')))
            if hit is not None:
                problems.append('pairs / search space modified between sort and check')
        # return value: number of set flags among the first nev
        retn = [r for r in fn.walk() if r['k'] == 'ReturnStmt']
        # `return 0` under a guard that says fewer than nev pairs exist (nothing was computed) is the count itself: accept it
        main = []
        for r in retn:
            t = sym(fn, r['value'], inline=False)
            if t == ('lit', '0'):
                gs = [sym(fn, c, inline=False) for c, tr in paths.enclosing_assumptions(fn, r) if tr]
                if any(g[0] == '<' and g[1][0] == 'size' and g[2][0] == 'F' for g in gs):
                    continue
            main.append(t)
        rets = main
        okr = len(rets) == 1 and rets[0][0] == 'sum' and rets[0][1][0] == 'head' and rets[0][1][1][0] == 'cast' and \
            rets[0][1][1][1][0] == 'converged_eigenvalues' and rets[0][1][2][0] == 'F'
        if not okr:
            problems.append('returns %s, not the number of converged flags among the first nev' % [show(r) for r in rets])
        ctx.check(not problems, rule, 'JDSymEigsBase::compute_with_guess', fn.qname,
                  'compute_eigen_pairs -> sort(selection) -> check_convergence(tol, nev) -> Successful; returns count of flags in head(nev)'
                  if not problems else '; '.join(problems))
    # compute() forwards its arguments
    for fn in ctx.F.insts('Spectra::JDSymEigsBase::compute'):
        pn = [fn.locals[v]['name'] for v in fn.params]
        calls = [x for x in fn.walk() if x['k'] == 'CXXMemberCallExpr' and x.get('callee') == 'compute_with_guess']
        ok = len(calls) == 1 and [sym(fn, a, inline=False) for a in fn.call_args(calls[0])][1:] == [('P', p) for p in pn]
        ctx.check(ok, rule, 'JDSymEigsBase::compute', fn.qname, 'selection, maxit, tol forwarded unchanged' if ok else 'arguments not forwarded unchanged')


def ritz_pairs_rules(ctx, rule='ritz-pairs-consistency'):
    for fn in ctx.F.insts('Spectra::RitzPairs::check_convergence'):
        pn = [fn.locals[v]['name'] for v in fn.params]
        problems = []
        # norms = column norms of the residual field
        defs = {fn.locals[d['var']]['name']: sym(fn, d['init'], inline=False) for x in fn.walk() if x['k'] == 'DeclStmt' for d in x['decls'] if 'init' in d}
        norms = [k for k, v in defs.items() if isinstance(v, tuple) and v[0] == 'norm' and v[1][0] == 'colwise' and v[1][1][0] == 'F']
        if len(norms) != 1:
            problems.append('column norms of the residual matrix not found')
        else:
            nn = norms[0]
            ands = [sym(fn, x, inline=False) for x in fn.walk() if x['k'] == 'CompoundAssignOperator' and x.get('op') == '&=']
            want = ('<', ('[]', ('L', nn), None), ('P', pn[0]))
            ok = len(ands) == 1 and ands[0][2][0] == '<' and ands[0][2][1][0] == '[]' and ands[0][2][1][1] == ('L', nn) and ands[0][2][2] == ('P', pn[0])
            if not ok:
                problems.append('converged is not the conjunction of norm[j] < tol')
            else:
                # guarded by j < nev
                x = [y for y in fn.walk() if y['k'] == 'CompoundAssignOperator' and y.get('op') == '&='][0]
                gs = [a for a in fn.ancestors(x) if a['k'] == 'IfStmt']
                if not gs or sym(fn, gs[0]['cond'], inline=False) != ('<', ands[0][2][1][2], ('P', pn[1])):
                    problems.append('conjunction is not restricted to j < nev')
            flags = [sym(fn, y, inline=False) for y in fn.walk() if y['k'] in ('BinaryOperator', 'CXXOperatorCallExpr') and y.get('op') == '=' and
                     sym(fn, y, inline=False)[1][0] == '[]' and sym(fn, y, inline=False)[1][1][0] == 'F']
            if not flags or flags[0][2][0] != '<' or flags[0][2][2] != ('P', pn[0]):
                problems.append('per-pair flag is not norm[j] < tol')
            rets = [sym(fn, r['value'], inline=False) for r in fn.walk() if r['k'] == 'ReturnStmt']
            if rets != [('L', 'converged')] and not (len(rets) == 1 and rets[0][0] == 'L'):
                problems.append('returns %s' % rets)
        ctx.check(not problems, rule, 'RitzPairs::check_convergence', fn.qname, 'all_{j<nev} ||r_j|| < tol, flags per pair' if not problems else '; '.join(problems))
    for fn in ctx.F.insts('Spectra::RitzPairs::compute_eigen_pairs'):
        asg = {show(sym(fn, x, inline=False)[1]): sym(fn, x, inline=False)[2] for x in fn.walk() if x['k'] in ('BinaryOperator', 'CXXOperatorCallExpr') and x.get('op') == '='}
        r = asg.get('m_residues')
        ok = r is not None and r[0] == '-' and r[1][0] == '*' and r[1][2] == ('F', 'm_small_vectors') and r[2][0] == '*' and r[2][1] == ('F', 'm_vectors') and \
            r[2][2] == ('asDiagonal', ('F', 'm_values'))
        v = asg.get('m_vectors')
        ok = ok and v is not None and v[0] == '*' and v[2] == ('F', 'm_small_vectors')
        ctx.check(bool(ok), rule, 'RitzPairs::compute_eigen_pairs', fn.qname,
                  'residues = (A V) y - (V y) diag(theta), vectors = V y' if ok else 'residual / Ritz vector formulas changed: %s' % {k: show(v) for k, v in asg.items()})
    for fn in ctx.F.insts('Spectra::RitzPairs::sort'):
        from .eigsbase import indexed_copies, split_index, loop_range
        copies = indexed_copies(fn)
        how = {}          # field -> ('gather' | 'scatter', index source)
        for n, dst, src, loop in copies:
            droot, didx = split_index(dst)
            sroot, sidx = split_index(src)
            if droot and droot[0] == 'F' and sidx and isinstance(sidx[-1], tuple) and sidx[-1][0] == '[]' and didx and didx[-1][0] == 'L':
                how[droot[1]] = ('gather', sidx[-1][1])           # f<i> = old_f<ind[i]>
            elif droot and droot[0] == 'F' and didx and isinstance(didx[-1], tuple) and didx[-1][0] == '[]':
                how[droot[1]] = ('scatter', didx[-1][1])          # f<ind[i]> = old_f<i>
        # permutation-matrix idiom: P.indices()[i] = ind[i]  =>  (M * P)(:, i) = M(:, ind[i]) gathers, P * v scatters,
        # P.transpose() * v / P.inverse() * v gathers
        perms = {}
        for n, dst, src, loop in copies:
            if isinstance(dst, tuple) and dst[0] == '[]' and isinstance(dst[1], tuple) and dst[1][0] == 'indices' and dst[1][1][0] == 'L' and \
                    isinstance(src, tuple) and src[0] == '[]' and dst[2] == src[2]:
                perms[dst[1][1][1]] = src[1]
        for x in fn.walk():
            if x['k'] in ('CXXOperatorCallExpr', 'BinaryOperator') and x.get('op') == '=':
                t = sym(fn, x, inline=False)
                if t[1][0] != 'F' or not isinstance(t[2], tuple) or t[2][0] != '*' or len(t[2]) != 3:
                    continue
                a, b = t[2][1], t[2][2]
                f = t[1][1]
                if a == t[1] and b[0] == 'L' and b[1] in perms:
                    how[f] = ('gather', perms[b[1]])
                elif b == t[1] and a[0] == 'L' and a[1] in perms:
                    how[f] = ('scatter', perms[a[1]])
                elif b == t[1] and a[0] in ('transpose', 'inverse') and a[1][0] == 'L' and a[1][1] in perms:
                    how[f] = ('gather', perms[a[1][1]])
                elif a == t[1] and b[0] in ('transpose', 'inverse') and b[1][0] == 'L' and b[1][1] in perms:
                    how[f] = ('scatter', perms[b[1][1]])
        rec = [r for r in ctx.F.records.values() if r['qname'] == fn.record and not r['dep']][0]
        per_pair = [f['name'] for f in rec['fields'] if f['type'].startswith('Eigen::Matrix<')]
        missing = [f for f in per_pair if f not in how]
        kinds = set(h[0] for h in how.values())
        srcs = set(h[1] for h in how.values())
        ok = not missing and kinds == {'gather'} and len(srcs) == 1
        ctx.check(ok, rule, 'RitzPairs::sort', fn.qname, 'values, vectors, residues and small vectors gathered by one index vector' if ok else
                  'per-pair arrays are not permuted alike: %s%s' % ({f: h[0] for f, h in sorted(how.items())}, (', not permuted: %s' % missing) if missing else ''))


def correction_guard(ctx, rule='division-guarded'):
    for fn in ctx.F.insts('Spectra::DavidsonSymEigsSolver::calculate_correction_vector'):
        divs = [x for x in fn.walk() if x['k'] in ('CXXOperatorCallExpr', 'BinaryOperator') and x.get('op') == '/']
        if not divs:
            raise AnalysisBroken('%s: correction division not found' % fn.qname)
        for d in divs:
            ops = fn.call_args(d) if d['k'] == 'CXXOperatorCallExpr' else [fn.nodes[c] for c in d['c']]
            den = sym(fn, ops[1])
            guarded = False
            for i in fn.walk():
                if i['k'] == 'IfStmt' and paths.dominated_by(fn, fn.pos_of(d), lambda n, i=i: fn.within(n, i['cond'])):
                    guarded = True
            # also guarded if the denominator is clamped (cwiseMax / select / max) away from zero
            txt = show(den)
            if any(k in txt for k in ('cwiseMax', 'select(', 'max(', 'cwiseMin')):
                guarded = True
            # ... or if the denominator is a local whose last write before the division replaces its small entries by a
            # positive floor:  v = (abs(v) < floor).select(Constant(floor), v)  with  floor = max(.., min())
            dn = sym(fn, ops[1], inline=False)
            while isinstance(dn, tuple) and dn[0] in ('array', 'matrix') and len(dn) == 2:
                dn = dn[1]
            if not guarded and isinstance(dn, tuple) and dn[0] == 'L':
                writes = [x for x in fn.walk() if x['k'] in ('CXXOperatorCallExpr', 'BinaryOperator') and x.get('op') == '=' and sym(fn, x, inline=False)[1] == dn]
                for w in writes:
                    t = sym(fn, w, inline=False)[2]
                    if not (isinstance(t, tuple) and t[0] == 'select' and len(t) == 4):
                        continue
                    cnd, a_, b_ = t[1], t[2], t[3]
                    fl = cnd[2] if cnd[0] in ('<', '<=') and cnd[1] == ('abs', dn) else None
                    if fl is None or b_ != dn or not (a_ == fl or (a_[0] == 'call' and a_[1] == 'Constant' and a_[-1] == fl)):
                        continue
                    # the floor is positive: max(x, min()) / max(x, positive literal)
                    fi = [sym(fn, d_['init'], inline=False) for y in fn.walk() if y['k'] == 'DeclStmt' for d_ in y['decls'] if 'init' in d_ and fl[0] == 'L' and fn.locals[d_['var']]['name'] == fl[1]]
                    positive = bool(fi) and fi[0][0] == 'call' and fi[0][1] == 'max' and any(u == ('call', 'min') or (u[0] == 'lit' and float(u[1]) > 0) for u in fi[0][2:])
                    later = [x for x in writes if x['l'] > w['l'] and x['l'] < d['l']]
                    if positive and not later and paths.dominated_by(fn, fn.pos_of(d), lambda n_, w=w: n_['id'] == w['id']):
                        guarded = True
                        txt = '%s, whose entries below the positive floor %s were replaced by it' % (show(dn), show(fl))
            ctx.check(guarded, rule, 'DavidsonSymEigsSolver::calculate_correction_vector', fn.qname,
                      'division by %s is guarded' % txt if guarded else
                      'the correction divides by %s with no guard: an exactly decoupled coordinate (theta_k == a_ii) gives 0/0 or x/0 and the iteration continues with NaN' % txt)


def status_assigned(ctx, rule='status-assigned-on-every-path'):
    """Two instances so that a known finding for one escape does not hide the other: (a) the iteration loop is not entered,
    (b) a path that ran at least part of one iteration leaves the function without assigning the status."""
    for fn in ctx.F.insts('Spectra::JDSymEigsBase::compute_with_guess'):
        rec = [r for r in ctx.F.records.values() if r['qname'] == fn.record and not r['dep']][0]
        info = [f['name'] for f in rec['fields'] if f['type'] == 'Spectra::CompInfo'][0]
        wids = set(a.node for a in ctx.E.of(fn).accesses if a.path == (info,) and a.mode == 'w')
        loops = [x for x in fn.walk() if x['k'] == 'ForStmt']
        if len(loops) != 1:
            raise AnalysisBroken('%s: %d loops' % (fn.qname, len(loops)))
        body = loops[0]['body']
        in_body = lambda n: fn.within(n, body)
        is_ret = lambda n: n['k'] == 'ReturnStmt'
        # (a) entry -> return without entering the body and without a status write
        w_a = paths.search(fn, [], stop=lambda n: n['id'] in wids or in_body(n), target=is_ret, include_entry=True, feas=True)
        ctx.check(w_a is None, rule, 'JDSymEigsBase::compute_with_guess@loop-not-entered', fn.qname,
                  'status assigned also when the loop is not entered' if w_a is None else
                  'when the iteration loop is not entered (maxit <= 0) no status is assigned: info() keeps the value of an earlier run (or NotComputed) '
                  'and the returned count / accessors read pairs that this call never computed', path=w_a)
        # (b) from the first element of the loop body -> return without a status write
        first = None
        for x in fn.walk(body):
            p = fn.elem_pos.get(x['id'])
            if p is not None:
                first = p
                break
        # start just before the first body element
        starts = [(first[0], first[1] - 1)] if first else []
        w_b = paths.search(fn, starts, stop=lambda n: n['id'] in wids, target=is_ret, feas=True,
                           assume=[(fn.nodes[loops[0]['cond']], True)]) if starts else None
        ctx.check(w_b is None, rule, 'JDSymEigsBase::compute_with_guess@inside-loop', fn.qname,
                  'every path that ran an iteration assigns Successful / NotConverging / NumericalIssue before returning' if w_b is None else
                  'a path that ran the iteration leaves compute_with_guess() without assigning the status', path=w_b)


ORTHO_HELPERS = ('twice_is_enough_orthogonalisation', 'JensWehner_orthogonalisation', 'QR_orthogonalisation', 'MGS_orthogonalisation', 'GS_orthogonalisation')


def basis_orthonormal(ctx, rule='search-space-basis-orthonormal'):
    """The Rayleigh-Ritz step solves the STANDARD small problem V'AV y = theta y and reports x = V y: that is a Ritz pair of A,
    with ||x|| = ||y|| = 1, only for an orthonormal V.  With a non-orthonormal or rank-deficient V (a caller-supplied initial space;
    the property names non-orthonormal ones) V'AV has spurious eigenvalues whose vectors satisfy V y = 0: zero-norm "eigenvectors"
    with zero residual, accepted as converged.  Typestate over the writers of the basis field: each must leave it orthonormal --
    (a) assigned from a parameter: followed on every path by a whole-matrix orthonormalisation (left_cols_to_skip = 0);
    (b) restart: assigned the leading Ritz vectors V Y of the previous (orthonormal) basis, Y orthonormal eigenvectors of a
        symmetric matrix (assumption on SelfAdjointEigenSolver);
    (c) append: new columns appended, then orthonormalised against the old ones and among themselves
        (left_cols_to_skip = number of old columns).
    Any other writer is reported."""
    from . import paths
    fns = [f for f in ctx.F.concrete() if f.cls == 'Spectra::SearchSpace' and f.cfg]
    if not fns:
        raise AnalysisBroken('SearchSpace is not instantiated')
    recs = sorted(set(f.record for f in fns))
    n = 0
    for rec in recs:
        ms = [f for f in fns if f.record == rec]
        fields = [r for r in ctx.F.records.values() if r['qname'] == rec and not r['dep']][0]['fields']
        basis = [f['name'] for f in fields if 'basis_vectors' in f['name']]
        if len(basis) != 1:
            raise AnalysisBroken('%s: basis field not identified' % rec)
        B = basis[0]
        for fn in ms:
            if fn.d.get('ctor') or fn.d.get('dtor'):
                continue
            writes = []
            for a in ctx.E.of(fn).accesses:
                if a.mode == 'w' and a.path == (B,):
                    nd = fn.nodes[a.node]
                    if nd['k'] == 'CallExpr' and nd.get('callee') in ORTHO_HELPERS:
                        continue          # the orthonormalisation itself
                    writes.append(nd)
            if not writes:
                continue
            inst = 'SearchSpace::%s' % fn.name
            pn = [fn.locals[v]['name'] for v in fn.params]

            def ortho_calls(skip_pred):
                out = []
                for c in fn.walk():
                    if c['k'] == 'CallExpr' and c.get('callee') in ORTHO_HELPERS:
                        a = fn.call_args(c)
                        if a and fn.field_name(fn.strip(a[0])) == B and skip_pred(a[1] if len(a) > 1 else None):
                            out.append(c)
                return out
            n += 1
            whole = [w for w in writes if w['k'] in ('CXXOperatorCallExpr', 'BinaryOperator') and w.get('op') == '=' and sym(fn, w, inline=False)[1] == ('F', B)]
            srcs = [sym(fn, w, inline=False)[2] for w in whole]
            if whole and all(isinstance(t, tuple) and t[0] == 'P' for t in srcs):
                # (a) from a parameter: must be orthonormalised as a whole afterwards
                def is_zero(a):
                    return a is None or a['k'] == 'CXXDefaultArgExpr' or sym(fn, a, inline=False) == ('lit', '0')
                oc = ortho_calls(is_zero)
                ids = set(c['id'] for c in oc)
                hit = paths.search(fn, [fn.pos_of(w) for w in whole], stop=lambda n_: n_['id'] in ids, target=lambda n_: n_['k'] == 'ReturnStmt',
                                   exit_is_target=lambda b: True, normal_only=True)
                ok = bool(oc) and hit is None
                ctx.check(ok, rule, inst, fn.qname,
                          'the basis taken from the argument `%s` is orthonormalised as a whole before the member returns' % srcs[0][1] if ok else
                          'the basis is assigned from the argument `%s` and used as it is: for a non-orthonormal or rank-deficient initial space (which the caller may supply) the small '
                          'problem V\'AV y = theta y has spurious solutions with V y = 0 -- zero-norm vectors with zero residual that pass the convergence test, so Successful is reported '
                          'with values that are not eigenvalues' % srcs[0][1])
            elif whole and all(isinstance(t, tuple) and 'ritz_vectors' in show(t) and 'leftCols' in show(t) for t in srcs):
                ctx.ok(rule, inst, fn.qname, 'restart: leading Ritz vectors of the previous orthonormal basis (orthonormal eigenvectors of the symmetric small problem)')
            elif not whole:
                # (c) append: some member on this path must orthonormalise the appended columns against the old ones; accept the
                # appending helper itself only if every caller does
                callers = [(g, c) for g in ms for c in g.walk() if c['k'] == 'CXXMemberCallExpr' and c.get('callee') == fn.name and g is not fn]
                probs = []
                if not callers:
                    probs.append('%s changes the basis in place and nobody orthonormalises it' % fn.name)
                for g, c in callers:
                    after = [o for o in g.walk() if o['k'] == 'CallExpr' and o.get('callee') in ORTHO_HELPERS and g.field_name(g.strip(g.call_args(o)[0])) == B]
                    ids = set(o['id'] for o in after)
                    hit = paths.search(g, [g.pos_of(c)], stop=lambda n_: n_['id'] in ids, target=lambda n_: n_['k'] == 'ReturnStmt', exit_is_target=lambda b: True, normal_only=True)
                    good = bool(after) and hit is None
                    # the number of columns to skip is the size before the append
                    for o in after:
                        a = g.call_args(o)
                        t = sym(g, a[1]) if len(a) > 1 and a[1]['k'] != 'CXXDefaultArgExpr' else None
                        if t is None or 'size' not in show(t) and 'cols' not in show(t):
                            good = False
                        elif not paths.dominated_by(g, g.pos_of(c), lambda n_, a1=a[1]: n_['k'] == 'DeclStmt' and any(y['k'] == 'DeclRefExpr' and y.get('var') == n_['decls'][0].get('var') for y in g.walk(a1['id']))):
                            good = False
                    if not good:
                        probs.append('%s appends columns through %s without orthonormalising them against the columns present before the append' % (g.name, fn.name))
                ctx.check(not probs, rule, inst, fn.qname, 'appended columns are orthonormalised against the old ones by every caller (%s)' % ', '.join(sorted(set(g.name for g, _ in callers)))
                          if not probs else '; '.join(probs))
            else:
                ctx.fail(rule, inst, fn.qname, '%s assigns the basis from %s: not one of the orthonormality-preserving forms' % (fn.name, [show(t)[:40] for t in srcs]))
    if n < 3:
        raise AnalysisBroken('only %d writers of the search-space basis found (initialise, restart, append confirmed)' % n)


def search_space_not_wider_than_matrix(ctx, rule='rayleigh-ritz-basis-fits-the-matrix'):
    """A basis with more columns than the matrix has rows cannot be orthonormal: the Rayleigh-Ritz step on it has solutions with
    V y = 0, zero-norm vectors with zero residual that pass the convergence test.  Two structural conditions keep the basis that
    reaches the Rayleigh-Ritz step within n columns: (1) every writer of the maximal search-space size leaves it clamped to the
    operator's dimension (the constructor does it through initialize(); a setter must too); (2) inside the iteration the
    Rayleigh-Ritz step is preceded, on every path from the loop condition, by the restart test `size() > maximal size`
    (a basis that outgrew the maximum is collapsed before it is used)."""
    from . import paths
    from .blockscan import _Quiet
    bases = [f for f in ctx.F.concrete() if f.cls == 'Spectra::JDSymEigsBase' and f.cfg]
    if not bases:
        raise AnalysisBroken('JDSymEigsBase is not instantiated')
    # (0) since fix F34 the extension itself keeps the basis within n columns: it appends only the numerical range of the block
    # projected against the basis (rank <= n - size).  Then neither (1) nor (2) is a necessary condition any more -- replayed: with
    # the setter unclamped (maximum 2n) or the restart test moved behind the correction, 200 + 26 solves stay correct -- and
    # demanding them would raise alarms on behaviour-preserving edits.  They are demanded when the extension is NOT rank revealing.
    q = _Quiet(ctx)
    new_directions_are_independent(q)
    if q.obl and all(o['ok'] for o in q.obl):
        ctx.check(True, rule, 'SearchSpace::extend_basis/only-independent-directions', q.obl[0]['where'],
                  'the extension appends only directions independent of the current basis (%s): the basis never has more than n columns, whatever the configured '
                  'maximum and wherever the restart test sits' % q.obl[0]['detail'])
        return
    recs = sorted(set(f.record for f in bases))
    n = 0
    for rec in recs[:2]:
        ms = [f for f in bases if f.record == rec]
        fields = [r for r in ctx.F.records.values() if r['qname'] == rec and not r['dep']][0]['fields']
        mx = [f['name'] for f in fields if 'max' in f['name'] and 'search_space' in f['name']]
        if len(mx) != 1:
            raise AnalysisBroken('%s: maximal search-space size field not identified' % rec)
        MX = mx[0]
        # (1) writers
        clampers = set()
        for fn in ms:
            for x in fn.walk():
                if x['k'] == 'IfStmt':
                    c = sym(fn, x['cond'], inline=False)
                    if c[0] in ('<', '<=') and ('F', MX) in c[1:] and any('cols' in show(u) or 'rows' in show(u) for u in c[1:]):
                        asg = [y for y in fn.walk(x['then']) if y['k'] == 'BinaryOperator' and y.get('op') == '=' and sym(fn, y['c'][0], inline=False) == ('F', MX)]
                        if asg and ('cols' in show(sym(fn, asg[0]['c'][1], inline=False)) or 'rows' in show(sym(fn, asg[0]['c'][1], inline=False))):
                            clampers.add(fn.name)
        if not clampers:
            raise AnalysisBroken('%s: no member clamps %s to the operator dimension' % (rec, MX))
        for fn in ms:
            writes = [x for x in fn.walk() if x['k'] == 'BinaryOperator' and x.get('op') == '=' and sym(fn, x['c'][0], inline=False) == ('F', MX)]
            inits = [i for i in fn.inits if i['member'] == MX and i['expr'] >= 0] if fn.d.get('ctor') else []
            if fn.name in clampers or (not writes and not inits):
                continue
            n += 1
            inst = 'JDSymEigsBase::%s/%s' % (fn.name, MX)
            calls = [c for c in fn.walk() if c['k'] == 'CXXMemberCallExpr' and c.get('callee') in clampers]
            ok = False
            if inits and not writes:
                # constructor: the body runs after the initialiser list; the clamping member must be called on every normal path
                if any(i['member'] == '<delegating>' for i in fn.inits):
                    ok = True
                else:
                    ids = set(c['id'] for c in calls)
                    ok = bool(calls) and paths.search(fn, [], stop=lambda n_: n_['id'] in ids, target=lambda n_: n_['k'] == 'ReturnStmt', include_entry=True,
                                                      exit_is_target=lambda b: True, normal_only=True) is None
            else:
                ids = set(c['id'] for c in calls)
                ok = bool(writes) and all(
                    'min' in show(sym(fn, w['c'][1], inline=False)) and any(t_ in show(sym(fn, w['c'][1], inline=False)) for t_ in ('cols', 'rows')) or
                    (bool(calls) and paths.search(fn, [fn.pos_of(w)], stop=lambda n_: n_['id'] in ids, target=lambda n_: n_['k'] == 'ReturnStmt',
                                                  exit_is_target=lambda b: True, normal_only=True) is None)
                    for w in writes)
            ctx.check(ok, rule, inst, fn.qname,
                      'the maximal search-space size is clamped to the operator dimension after this write (%s)' % ', '.join(sorted(clampers)) if ok else
                      '%s stores the maximal search-space size unclamped (the constructor clamps it to n through %s): with a maximum above n the basis grows wider than the matrix, '
                      'the Rayleigh-Ritz step gets solutions V y = 0 and Successful is reported with zero-norm eigenvectors' % (fn.name, ', '.join(sorted(clampers))))
        # (2) the restart test precedes the Rayleigh-Ritz step in every iteration
        for fn in ms:
            if fn.name != 'compute_with_guess':
                continue
            loops = [lp for lp in fn.walk() if lp['k'] == 'ForStmt' and any(c['k'] == 'CXXMemberCallExpr' and c.get('callee') == 'compute_eigen_pairs' for c in fn.walk(lp['body']))]
            if len(loops) != 1:
                raise AnalysisBroken('%s: iteration loop not identified' % fn.qname)
            lp = loops[0]
            rr = [c for c in fn.walk(lp['body']) if c['k'] == 'CXXMemberCallExpr' and c.get('callee') == 'compute_eigen_pairs']
            tests = []
            for x in fn.walk(lp['body']):
                if x['k'] == 'IfStmt':
                    c = sym(fn, x['cond'])
                    conj = [c]
                    while any(y_[0] == '&&' for y_ in conj):
                        conj = [z_ for y_ in conj for z_ in (y_[1:] if y_[0] == '&&' else [y_])]
                    c = ([y_ for y_ in conj if y_[0] in ('<', '<=') and y_[1] == ('F', MX)] or [c])[0]
                    if c[0] in ('<', '<=') and c[1] == ('F', MX) and 'size' in show(c[2]) and \
                            any(y['k'] == 'CXXMemberCallExpr' and y.get('callee') == 'restart' for y in fn.walk(x['then'])):
                        tests.append(x)
            n += 1
            cpos = fn.pos_of(fn.nodes[lp['cond']])
            tids = [t['cond'] for t in tests]
            hit = paths.search(fn, [cpos], stop=lambda n_: any(fn.within(n_, t_) for t_ in tids), target=lambda n_: n_['id'] == rr[0]['id']) if tests and cpos else ['no restart test']
            # ... and the collapse is not followed by an extension before the step
            ext = None
            if tests:
                ext = paths.search(fn, [fn.pos_of(fn.nodes[t['cond']]) for t in tests if fn.pos_of(fn.nodes[t['cond']])],
                                   stop=lambda n_: n_['id'] == rr[0]['id'] or fn.within(n_, lp['inc']),
                                   target=lambda n_: n_['k'] == 'CXXMemberCallExpr' and n_.get('callee') == 'extend_basis')
            ok = hit is None and ext is None
            ctx.check(ok, rule, 'JDSymEigsBase::compute_with_guess/restart-before-rayleigh-ritz', fn.qname,
                      'in every iteration the test `size() > %s` (which collapses the basis) is passed before the Rayleigh-Ritz step, with no extension in between' % MX if ok else
                      'the Rayleigh-Ritz step can run on a basis that has outgrown the maximal size (the restart test does not precede it in every iteration%s): the basis can then have '
                      'more columns than the matrix has rows' % ('; the basis is extended between the test and the step' if ext is not None else ''))
    if n < 3:
        raise AnalysisBroken('only %d obligations about the search-space size' % n)


def default_sizes_admissible(ctx, rule='constructed-search-space-sizes-admissible'):
    """The constructor derives the initial, maximal and correction sizes from nev (defaults 2 nev, 10 nev, nev) and clamps them for
    small matrices.  The iteration needs: initial size >= nev (the Rayleigh-Ritz step must deliver nev pairs: the flags and
    the accessors take head(nev)), correction size >= 1, initial + correction <= n (the sizes the property quantifies over),
    maximal size >= initial size.  The member-initialiser expressions and the straight-line clamping member are executed over the
    integers for every matrix size 2..14 and every documented nev (1..n-1), for the default sizes and for every explicit
    (initial, maximal) pair with initial + nev <= n: the invariants must hold in each case.  Nothing of the library is run: the
    fragment is integer assignments and comparisons."""
    from .xeval import ev, CannotEval
    bases = [f for f in ctx.F.concrete() if f.cls == 'Spectra::JDSymEigsBase' and f.cfg]
    recs = sorted(set(f.record for f in bases))
    if not recs:
        raise AnalysisBroken('JDSymEigsBase is not instantiated')
    for rec in recs[:1]:
        ms = [f for f in bases if f.record == rec]
        ctors = [f for f in ms if f.d.get('ctor') and len(f.params) == 4 and not any(i['member'] == '<delegating>' for i in f.inits)]
        deleg = [f for f in ms if f.d.get('ctor') and any(i['member'] == '<delegating>' for i in f.inits)]
        clamp = [f for f in ms if f.name == 'initialize']
        if len(ctors) != 1 or not clamp or not deleg:
            raise AnalysisBroken('%s: constructor / clamping member not identified' % rec)
        ctor, ini = ctors[0], clamp[0]
        pn = [ctor.locals[v]['name'] for v in ctor.params]
        fields = [r for r in ctx.F.records.values() if r['qname'] == rec and not r['dep']][0]['fields']
        fn_ = {f['name']: f['type'] for f in fields}
        F_NEV = [k for k in fn_ if 'number_eigenvalues' in k][0]
        F_INIT = [k for k in fn_ if 'initial_search_space' in k][0]
        F_MAX = [k for k in fn_ if 'max_search_space' in k][0]
        F_CORR = [k for k in fn_ if 'correction_size' in k][0]
        # default arguments of the delegating constructor, as expressions of nev
        dctor = deleg[0]
        dini = [i for i in dctor.inits if i['member'] == '<delegating>'][0]
        dargs = None
        for y in dctor.walk(dini['expr']):
            if y['k'] in ('CXXConstructExpr', 'CXXTemporaryObjectExpr') and len(dctor.call_args(y)) == 4:
                dargs = dctor.call_args(y)
                break
        if dargs is None:
            raise AnalysisBroken('%s: delegating constructor arguments not found' % rec)
        dnev = dctor.locals[dctor.params[1]]['name']

        def run(n, nev, a_init, a_max):
            env = {('local', pn[1]): nev, ('local', pn[2]): a_init, ('local', pn[3]): a_max}
            calls = {}
            st = {}

            def E(f, node, extra=None):
                e = dict(env)
                for k_, v_ in st.items():
                    e[('field', k_)] = v_
                if extra:
                    e.update(extra)
                cd = {}
                for x in f.walk(node if isinstance(node, int) else node['id']):
                    if x['k'] == 'CXXMemberCallExpr' and x.get('callee') in ('rows', 'cols'):
                        cd[f.s(x)] = (lambda a, n=n: n)
                return ev(f, node, e, cd)
            for i in ctor.inits:
                if i['member'] in fn_ and fn_[i['member']] in ('long', 'Eigen::Index', 'const long', 'int') and i['expr'] >= 0:
                    st[i['member']] = E(ctor, i['expr'])

            def exec_stmt(f, node):
                k = node['k']
                if k == 'CompoundStmt':
                    for c in f.kids(node):
                        exec_stmt(f, c)
                elif k == 'IfStmt':
                    if E(f, node['cond']):
                        exec_stmt(f, f.nodes[node['then']])
                    elif node.get('else', -1) is not None and node.get('else', -1) >= 0:
                        exec_stmt(f, f.nodes[node['else']])
                elif k == 'BinaryOperator' and node.get('op') == '=':
                    l = f.strip(f.nodes[node['c'][0]])
                    if l['k'] == 'MemberExpr' and l.get('mk') == 'field':
                        st[l['member']] = E(f, node['c'][1])
                    else:
                        raise CannotEval('assignment to ' + f.s(l))
                elif k in ('NullStmt',):
                    pass
                elif k == 'DeclStmt':
                    for d in node.get('decls', []):
                        if 'init' in d:
                            env[('local', f.locals[d['var']]['name'])] = E(f, d['init'])
                elif k in ('ExprWithCleanups', 'ImplicitCastExpr', 'ParenExpr'):
                    exec_stmt(f, f.nodes[node['c'][0]])
                else:
                    raise CannotEval('statement ' + k)
            exec_stmt(ini, ini.nodes[ini.d['body']])
            return st
        bad = []
        ncase = 0
        try:
            for n in range(2, 15):
                for nev in range(1, n):
                    cases = [('default sizes', None, None)]
                    for ai in range(nev, n - nev + 1):
                        for am in (ai, n, 10 * nev):
                            cases.append(('nvec_init %d, nvec_max %d' % (ai, am), ai, am))
                    for label, ai, am in cases:
                        if ai is None:
                            de = {('local', dnev): nev}
                            ai = ev(dctor, dargs[2], de, {})
                            am = ev(dctor, dargs[3], de, {})
                        st = run(n, nev, ai, am)
                        ncase += 1
                        I, M_, C = st[F_INIT], st[F_MAX], st[F_CORR]
                        why = None
                        if I < nev:
                            why = 'the initial search space has %d vectors, fewer than nev = %d: the first Rayleigh-Ritz step has %d pairs and head(nev) of the flags / values runs past them' % (I, nev, I)
                        elif C < 1:
                            why = 'the correction size is %d' % C
                        elif I + C > n:
                            why = 'initial + correction = %d exceeds n' % (I + C)
                        elif M_ < I:
                            why = 'the maximal size %d is below the initial size %d' % (M_, I)
                        if why and len(bad) < 3:
                            bad.append('n = %d, nev = %d, %s: %s' % (n, nev, label, why))
        except CannotEval as e:
            raise AnalysisBroken('%s: constructor sizes outside the evaluable fragment: %s' % (rec, e))
        ctx.check(not bad, rule, 'JDSymEigsBase/constructor-sizes', ctor.qname,
                  'for every n in 2..14 and nev in 1..n-1 (%d cases: default and explicit sizes) the constructed sizes satisfy nev <= initial, 1 <= correction, initial + correction <= n, initial <= maximal' % ncase
                  if not bad else '; '.join(bad))


RANK_REVEALING = ('Eigen::ColPivHouseholderQR', 'Eigen::FullPivHouseholderQR', 'Eigen::CompleteOrthogonalDecomposition', 'Eigen::JacobiSVD', 'Eigen::BDCSVD')


def _truncation(g, t, qr, appended):
    """How many columns of the orthogonal factor are kept.  `rank()` of the factorization compares the pivots with the LARGEST
    pivot of the projected block: when every correction already lies in the search space (correction size below nev, fewer pairs
    than nev, a tolerance at rounding level) the whole block is rounding noise, its largest pivot too, and the noise is declared
    full rank -- the appended columns lie in span(V) again (replayed: Successful with zero vectors for block-diagonal matrices).
    The count must compare the pivots with the size of the vectors BEFORE the projection: either the columns are normalised
    before the projection and the threshold is absolute, or the threshold carries a norm of the caller's block."""
    param = g.locals[g.params[0]]['name']
    # the count: a local used in t, incremented under / initialised from a comparison with the diagonal of R
    cands = [g.locals[v]['name'] for v in g.locals if g.locals[v]['name'] in t and v not in g.params]
    rank_calls = [x for x in g.walk() if x['k'] == 'CXXMemberCallExpr' and x.get('callee') == 'rank']
    if rank_calls:
        return False, ('the number of new directions is rank() of the factorization of the PROJECTED block, which compares the pivots with its largest pivot: when every correction lies in the '
                       'current search space the block is rounding noise, the noise is declared full rank and appended')
    loops = [x for x in g.walk() if x['k'] in ('WhileStmt', 'ForStmt') and any(k in show(sym(g, x['cond'], inline=False)) for k in ('matrixR(', 'matrixQR(', 'singularValues('))]
    counted = None
    for lp in loops:
        c = show(sym(g, lp['cond'], inline=False))
        for nm in cands:
            incs = [y for y in g.walk(lp['body']) if y['k'] in ('UnaryOperator', 'CompoundAssignOperator') and y.get('op') in ('++', '+=') and nm in g.s(y)]
            incs += [y for y in g.walk(lp.get('inc', lp['body'])) if isinstance(lp.get('inc'), int) and lp.get('inc', -1) >= 0 and y['k'] == 'UnaryOperator' and nm in g.s(y)]
            if nm in c and incs:
                counted = (nm, lp, c)
    if counted is None:
        return False, 'the orthogonal factor of the pivoted factorization is not truncated to a count of its significant pivots'
    nm, lp, c = counted
    # reference of the threshold
    thr_mentions_param = param in c or any(param in show(sym(g, d['init'], inline=False)) for x in g.walk() if x['k'] == 'DeclStmt' for d in x['decls']
                                           if 'init' in d and g.locals[d['var']]['name'] in c and g.locals[d['var']]['name'] != nm and 'norm' in show(sym(g, d['init'], inline=False)))
    # columns normalised before the projection: col(W, j) /= norm(col(W, j)) (or normalized()) dominating the first projection
    wname = None
    for x in g.walk():
        if x['k'] == 'DeclStmt':
            for d in x['decls']:
                if 'init' in d and sym(g, d['init'], inline=False) == ('P', param):
                    wname = g.locals[d['var']]['name']
    normalised = False
    projs = [x for x in g.walk() if x['k'] in ('CXXOperatorCallExpr', 'CompoundAssignOperator') and x.get('op') == '-=' and 'transpose(' in show(sym(g, x, inline=False))]
    for x in g.walk():
        if x['k'] in ('CXXOperatorCallExpr', 'CompoundAssignOperator') and x.get('op') == '/=':
            tt = sym(g, x, inline=False)
            if tt[1][0] == 'col' and wname and tt[1][1] == ('L', wname) and tt[2][0] == 'L':
                init = [show(sym(g, d['init'], inline=False)) for y in g.walk() for d in (y['decls'] if y['k'] == 'DeclStmt' else []) if 'init' in d and g.locals[d['var']]['name'] == tt[2][1]]
                if init and init[0].startswith('norm(col(%s' % wname) and projs and all(x['l'] < p_['l'] for p_ in projs):
                    normalised = True
    if any('normalized(' in show(sym(g, d['init'], inline=False)) for x in g.walk() if x['k'] == 'DeclStmt' for d in x['decls'] if 'init' in d and wname and g.locals[d['var']]['name'] == wname):
        normalised = True
    if 'maxPivot' in c or '()(matrixR(%s), 0, 0)' % '' in c:
        return False, 'the pivots are compared with the largest pivot of the projected block, which is noise when every correction lies in the search space'
    if normalised or thr_mentions_param:
        return True, ('the appended block is the leading %s columns of the orthogonal factor of a %s, %s counting the pivots above a threshold that refers to the vectors before the projection (%s)'
                      % (nm, qr['type'].split('<')[0], nm, 'columns normalised first' if normalised else 'threshold times a norm of the caller\'s block'))
    return False, ('the pivots of the projected block are compared with a threshold that does not refer to the size of the corrections before the projection '
                   '(columns not normalised, no norm of `%s` in the threshold): the count depends on the scale of the corrections' % param)


def new_directions_are_independent(ctx, rule='search-space-basis-orthonormal'):
    """The correction block handed to the search space can be rank deficient after projection against the current basis: a
    correction computed from the rounding-level residual of an already exact pair lies in the search space, and corrections of a
    structured matrix started from unit vectors are linearly dependent (the 1-D Laplacian with the default start: rank 1 to 4 of
    6).  A plain Householder QR returns, for the missing directions, arbitrary orthonormal columns that were never projected
    against the basis; the Rayleigh-Ritz step then has a null vector V s = 0: a zero-norm Ritz vector with zero residual that
    passes the convergence test (Successful with eigenvalues 1e-16 for a positive definite matrix).  So the block that is
    appended must come from a RANK-REVEALING factorization truncated to its numerical rank."""
    fns = [f for f in ctx.F.concrete() if f.cls == 'Spectra::SearchSpace' and f.cfg]
    n = 0
    seen = set()
    for g in fns:
        if g.mangled in seen:
            continue
        for c in g.walk():
            if not (c['k'] == 'CXXMemberCallExpr' and c.get('callee') == 'append_new_vectors_to_basis'):
                continue
            seen.add(g.mangled)
            n += 1
            a = g.strip(g.call_args(c)[0])
            ok, why = False, 'the appended block is `%s`' % g.s(a)[:40]
            if a is not None and a['k'] == 'DeclRefExpr' and 'var' in a and a['var'] not in g.params:
                init = [d['init'] for x in g.walk() if x['k'] == 'DeclStmt' for d in x['decls'] if d.get('var') == a['var'] and 'init' in d]
                if init:
                    t = show(sym(g, init[0], inline=False))
                    qrs = [g.locals[y['var']] for y in g.walk(init[0]) if y['k'] == 'DeclRefExpr' and 'var' in y and g.locals[y['var']]['type'].startswith(RANK_REVEALING)]
                    if qrs and 'householderQ' in t or (qrs and ('matrixU' in t or 'matrixQ' in t)):
                        ok, why = _truncation(g, t, qrs[0], a)
                    else:
                        why = 'the appended block `%s` does not come from a rank-revealing factorization' % t[:60]
            elif a is not None and a['k'] == 'DeclRefExpr' and a.get('var') in g.params:
                why = 'the caller\'s block `%s` is appended as it is and completed by a plain QR' % g.locals[a['var']]['name']
            ctx.check(ok, rule, 'SearchSpace::%s/new-directions' % g.name, g.qname, why if ok else
                      why + ': corrections that lie in the current search space or depend on each other are replaced by arbitrary orthonormal columns that are not orthogonal to the basis; '
                      'the small problem then has solutions with V s = 0 -- zero-norm vectors with zero residual, reported as converged')
    if n < 1:
        raise AnalysisBroken('no caller of append_new_vectors_to_basis found')


def counts_within_available_pairs(ctx, rule='counts-clamped-by-available-pairs'):
    """The number of Ritz pairs is the current size of the search space, which can be below the configured correction size, the
    initial size or nev (small guesses, explicit sizes, directions dropped as dependent).  Every place that takes the first k
    pairs must clamp k by what exists: the correction loop by the number of residual columns, the restart by the number of Ritz
    vectors, and convergence of nev pairs presupposes that nev pairs exist."""
    n = 0
    # (a) corrections
    for fn in [f for f in ctx.F.concrete() if f.name == 'calculate_correction_vector' and f.cfg and (f.cls or '').startswith('Spectra::')][:2]:
        loops = [lp for lp in fn.walk() if lp['k'] == 'ForStmt']
        probs = []
        for lp in loops:
            c = sym(fn, lp['cond'])
            if not (c[0] == '<' and 'min' in show(c[2]) and ('cols' in show(c[2]) or 'size' in show(c[2]))):
                probs.append('the correction loop runs to %s' % show(sym(fn, lp['cond'], inline=False)[2]))
        n += 1
        ctx.check(bool(loops) and not probs, rule, '%s::calculate_correction_vector' % fn.cls.replace('Spectra::', ''), fn.qname,
                  'the number of corrections is min(correction size, number of residual columns)' if not probs and loops else
                  '; '.join(probs or ['no loop']) + ': with fewer Ritz pairs than the correction size (a small initial space, set_correction_size) the loop reads residual columns that do not exist')
    # (b) restart
    for fn in [f for f in ctx.F.concrete() if f.cls == 'Spectra::SearchSpace' and f.name == 'restart' and f.cfg][:2]:
        pn = fn.locals[fn.params[1]]['name']
        clamps = [x for x in fn.walk() if x['k'] == 'BinaryOperator' and x.get('op') == '=' and sym(fn, x['c'][0], inline=False) == ('P', pn) and
                  'min' in show(sym(fn, x['c'][1], inline=False)) and 'cols' in show(sym(fn, x['c'][1], inline=False))]
        uses = [x for x in fn.walk() if x['k'] == 'CXXMemberCallExpr' and x.get('callee') == 'leftCols']
        from . import paths
        ok = bool(uses) and all(
            ('min' in show(sym(fn, fn.call_args(u)[0], inline=False))) or
            (clamps and paths.dominated_by(fn, fn.pos_of(u), lambda n_: n_['id'] == clamps[0]['id'])) for u in uses)
        n += 1
        ctx.check(ok, rule, 'SearchSpace::restart', fn.qname,
                  'the restart size is clamped by the number of Ritz vectors before it is used' if ok else
                  'leftCols(%s) is taken of the Ritz vectors without clamping: a restart with fewer Ritz pairs than the initial size reads past them' % pn)
    # (c) convergence presupposes nev pairs
    for fn in [f for f in ctx.F.concrete() if f.cls == 'Spectra::RitzPairs' and f.name == 'check_convergence' and f.cfg][:2]:
        rets = [sym(fn, r['value'], inline=False) for r in fn.walk() if r['k'] == 'ReturnStmt']
        pn = [fn.locals[v]['name'] for v in fn.params]
        inits = [sym(fn, d['init'], inline=False) for x in fn.walk() if x['k'] == 'DeclStmt' for d in x['decls'] if 'init' in d and rets and rets[0] == ('L', fn.locals[d['var']]['name'])]
        ok = bool(inits) and any(t[0] in ('<=', '<', '>=', '>') and any(pn[1] in show(u) for u in t[1:]) and any('size' in show(u) or 'cols' in show(u) for u in t[1:]) for t in inits)
        n += 1
        ctx.check(ok, rule, 'RitzPairs::check_convergence', fn.qname,
                  'all-converged starts from `number of pairs >= nev`' if ok else
                  'the verdict starts from `%s`: with fewer pairs than nev the loop over the existing pairs leaves it true and Successful is reported with fewer than nev pairs' % [show(t) for t in inits])
    # (d) a restart collapses the space onto the Ritz vectors: it needs some (an initial space wider than the maximal size reaches
    # the restart test in the first iteration, when the pairs have just been emptied)
    for fn in [f for f in ctx.F.concrete() if f.cls == 'Spectra::JDSymEigsBase' and f.name == 'compute_with_guess' and f.cfg][:2]:
        calls = [x for x in fn.walk() if x['k'] == 'CXXMemberCallExpr' and x.get('callee') == 'restart']
        if not calls:
            raise AnalysisBroken('%s: no restart call' % fn.qname)
        for c in calls:
            conds = [show(sym(fn, i['cond'])) for i in fn.ancestors(c) if i['k'] == 'IfStmt' and fn.within(c, i['then'])]
            ok = any(('size(m_ritz_pairs)' in t and ('0 <' in t or '> 0' in t or '1 <=' in t)) or ('niter_' in t and ('0 <' in t or '> 0' in t)) for t in conds)
            n += 1
            ctx.check(ok, rule, 'JDSymEigsBase::compute_with_guess/restart', fn.qname,
                      'the restart is taken only when Ritz pairs exist (%s)' % ' && '.join(conds)[:120] if ok else
                      'restart() can run under `%s` before any Ritz pair exists: with an initial space wider than the maximal size (set_initial_search_space_size, a wide guess) the first '
                      'iteration collapses the basis onto zero Ritz vectors and the next product is taken of a 0 x 0 matrix (assertion / null-pointer read)' % ' && '.join(conds)[:120])
    if n < 4:
        raise AnalysisBroken('only %d count sites analysed' % n)


def run(ctx):
    from . import hygiene
    hygiene.noalias_destination_not_in_product(ctx, scope=lambda fn: fn.cls in ('Spectra::SearchSpace', 'Spectra::RitzPairs', 'Spectra::JDSymEigsBase', 'Spectra::DavidsonSymEigsSolver'), min_instances=1)
    success_order(ctx)
    ritz_pairs_rules(ctx)
    correction_guard(ctx)
    status_assigned(ctx)
    basis_orthonormal(ctx)
    new_directions_are_independent(ctx)
    counts_within_available_pairs(ctx)
    search_space_not_wider_than_matrix(ctx)
    default_sizes_admissible(ctx)
