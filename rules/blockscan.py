"""Block-structure (regular-shape) invariant of the Bunch-Kaufman permutation array, and the scans that rely on it.

BKLDLT stores the pivot structure in the SIGN pattern of m_perm: a non-negative entry is a 1x1 block, two adjacent negative
entries are one 2x2 block.  solve_inplace walks the array and, on a negative entry, touches the neighbouring position
(x[i + 1], diag_coeff(i + 1), coeff(i + 1, i - 1), ...): memory-safe only because

    (G)  the sign string of m_perm[0 .. n) is a word of the language  ( P | N N )*          (P: >= 0, N: < 0)

and the scans meet it ALIGNED (a forward scan stands on the first position of a block, the backward scan on the last).
Neither is a per-entry invariant, so the zone / contract engines cannot express it.  This module decides it in two parts:

  writers   every write of m_perm in the class is one of the tabulated forms, and the factorization loop of compute()
            advances by exactly the size of the block it has just marked (structural rules on the resolved AST / CFG);
  readers   every loop of a reader that tests the sign of m_perm[i] has the stride discipline that keeps it aligned; the
            positional facts (G) gives at an aligned negative entry (forward: i + 1 <= n - 1; backward: i - 1 >= 0) are injected
            on the branch edges and the ordinary index obligations are discharged by the contract engine, once for each sign
            of the last entry (the expression that picks the start of the scans tests it; the array is not written meanwhile).
"""
from .facts import AnalysisBroken
from . import paths, zone, ranges
from .sym import sym, show

CLS = 'Spectra::BKLDLT'
ARR = 'm_perm'


def _fns(ctx, name):
    return [f for f in ctx.F.concrete() if f.cls == CLS and f.name == name and f.cfg]


def _perm_writes(fn):
    """[(node, index sym, value sym)] for element writes of the array, [(node, text)] for whole-array operations."""
    elems, whole = [], []
    for x in fn.walk():
        if x['k'] in ('BinaryOperator', 'CompoundAssignOperator') and x.get('op') in ('=', '+=', '-=', '*=', '/='):
            l = sym(fn, x['c'][0], inline=False)
            if isinstance(l, tuple) and l[0] in ('[]', '()', 'coeffRef') and l[1] == ('F', ARR):
                elems.append((x, l[2], sym(fn, x['c'][1], inline=False), x.get('op')))
        elif x['k'] == 'UnaryOperator' and x.get('op') in ('++', '--'):
            l = sym(fn, x['c'][0], inline=False)
            if isinstance(l, tuple) and l[0] in ('[]', '()', 'coeffRef') and l[1] == ('F', ARR):
                elems.append((x, l[2], None, x['op']))
        elif x['k'] == 'CXXMemberCallExpr' and x.get('org') == 'E':
            o = fn.call_object(x)
            if o is not None and fn.field_name(fn.strip(o)) == ARR and not x.get('cconst'):
                whole.append((x, x.get('callee')))
        elif x['k'] == 'CXXOperatorCallExpr' and x.get('op') in ('=', '+=', '-=', '<<'):
            a = fn.call_args(x)
            if a and fn.field_name(fn.strip(a[0])) == ARR:
                whole.append((x, 'operator' + x['op']))
    return elems, whole


def _upper_bound(fn, cond, var):
    """L with  cond  <=>  var <= L  (L a linear form without var), for a comparison with unit coefficient of var; else None."""
    n = fn.strip(fn.nodes[cond] if isinstance(cond, int) else cond)
    if n is None or n['k'] != 'BinaryOperator' or n.get('op') not in ('<', '<=', '>', '>='):
        return None
    a, b = ranges.linform(fn, fn.nodes[n['c'][0]]), ranges.linform(fn, fn.nodes[n['c'][1]])
    if a is None or b is None:
        return None
    op = n['op']
    if op in ('>', '>='):
        a, b = b, a
        op = '<' if op == '>' else '<='
    d = ranges.lf_sub(b, a)                 # a op b  <=>  0 op d
    v = ('v', var)
    if d.get(v, 0) != -1:
        return None
    L = {k: c for k, c in d.items() if k != v}
    L[1] = L.get(1, 0) - (1 if op == '<' else 0)
    return {k: c for k, c in L.items() if c != 0 or k == 1}


def _compute_structure(ctx, ms, comp, writes, probs):
    """compute(): one reset setLinSpaced(n, 0, n - 1) (entries 0 .. n-1: non-negative and < n) that dominates the factorization
    loop, and a loop that advances by the size of the block it has just marked."""
    resets = [w for w in writes if w[0] == 'whole']
    if len(resets) != 1 or len(writes) != 1 or resets[0][3] != 'setLinSpaced':
        probs.append('compute() does not reset %s by exactly one setLinSpaced: %s' % (ARR, [comp.s(w[2])[:40] for w in writes]))
        resets = []
    else:
        a = comp.call_args(resets[0][2])
        ok = len(a) == 3 and sym(comp, a[0], inline=False) == ('F', 'm_n') and sym(comp, a[1], inline=False) == ('lit', '0') and \
            sym(comp, a[2], inline=False) == ('-', ('F', 'm_n'), ('lit', '1'))
        if not ok:
            probs.append('the reset `%s` does not fill n entries with 0 .. n - 1 (every entry must start non-negative and below n)' % comp.s(resets[0][2])[:50])
    # ---- W3: compute(): the loop variable advances by the size of the block just marked
    loops = [lp for lp in comp.walk() if lp['k'] == 'ForStmt' and any(c['k'] == 'CXXMemberCallExpr' and c.get('callee') == 'permutate_mat' for c in comp.walk(lp['body']))]
    pcalls = [c for c in comp.walk() if c['k'] == 'CXXMemberCallExpr' and c.get('callee') == 'permutate_mat']
    others = [(name, g) for name, gs in ms.items() for g in gs if name != 'compute' and any(c['k'] == 'CXXMemberCallExpr' and c.get('callee') == 'permutate_mat' for c in g.walk())]
    if len(loops) != 1 or len(pcalls) != 1 or others:
        probs.append('permutate_mat is not called from exactly one loop of compute() (%d loops, %d calls, other callers %s)' % (len(loops), len(pcalls), [o[0] for o in others]))
    else:
        lp, pc = loops[0], pcalls[0]
        kv = sym(comp, comp.call_args(pc)[0], inline=False)
        init = sym(comp, lp['init'], inline=False) if lp.get('init', -1) >= 0 else None
        cond = sym(comp, lp['cond'], inline=False)
        inc = sym(comp, lp['inc'], inline=False)
        kvar = None
        a0 = comp.strip(comp.call_args(pc)[0])
        if a0 is not None and a0['k'] == 'DeclRefExpr' and 'var' in a0:
            kvar = a0['var']
        ub = _upper_bound(comp, lp['cond'], kvar) if kvar is not None else None
        if not (kv[0] == 'L' and init == ('=', kv, ('lit', '0')) and inc in (('u++', kv), ('++u', kv)) and
                ub == {('f', 'm_n'): 1, 1: -2}):
            probs.append('the factorization loop is not `for (k = 0; k < n - 1; k++)` over the position handed to permutate_mat: %s; %s; %s' %
                         (show(init) if init else None, show(cond), show(inc)))
        else:
            # the flag that receives the result, the branch on it, and the extra step in the 2x2 branch
            par = comp.node(comp.parent.get(pc['id'], -1))
            while par is not None and par['k'] in ('ImplicitCastExpr', 'ExprWithCleanups', 'ParenExpr'):
                par = comp.node(comp.parent.get(par['id'], -1))
            flag = None
            if par is not None and par['k'] == 'DeclStmt' and len(par.get('decls', [])) == 1:
                flag = ('L', comp.locals[par['decls'][0]['var']]['name'])
            steps = [x for x in comp.walk(lp['body']) if (x['k'] == 'UnaryOperator' and x.get('op') in ('++', '--') and sym(comp, x['c'][0], inline=False) == kv) or
                     (x['k'] in ('BinaryOperator', 'CompoundAssignOperator') and x.get('op') in ('=', '+=', '-=') and sym(comp, x['c'][0], inline=False) == kv)]
            ifs = [i for i in comp.walk(lp['body']) if i['k'] == 'IfStmt' and flag is not None and sym(comp, i['cond'], inline=False) in (flag, ('!', flag))]
            if flag is None or len(ifs) != 1:
                probs.append('the result of permutate_mat is not kept in a flag that selects the elimination branch')
            else:
                i0 = ifs[0]
                two = i0['else'] if sym(comp, i0['cond'], inline=False) == flag else i0['then']
                one = i0['then'] if sym(comp, i0['cond'], inline=False) == flag else i0['else']
                good = len(steps) == 1 and steps[0]['k'] == 'UnaryOperator' and steps[0]['op'] == '++' and two is not None and two >= 0 and comp.within(steps[0], two)
                if good:
                    # on every path through the 2x2 branch: the branch is straight-line code
                    good = not [x for x in comp.walk(two) if x['k'] in ('IfStmt', 'ForStmt', 'WhileStmt', 'DoStmt', 'BreakStmt', 'ContinueStmt', 'ReturnStmt', 'ConditionalOperator', 'SwitchStmt')]
                if not good:
                    probs.append('the loop body does not advance k by exactly one extra step in the 2x2 branch (%d writes of k in the body)' % len(steps))
                # the flag is not rewritten between the call and the branch
                fw = [x for x in comp.walk(lp['body']) if x['k'] in ('BinaryOperator', 'CompoundAssignOperator') and sym(comp, x['c'][0], inline=False) == flag]
                if fw:
                    probs.append('the block-size flag is rewritten inside the loop')
                # the elimination members are handed the same position
                for c in comp.walk(lp['body']):
                    if c['k'] == 'CXXMemberCallExpr' and c.get('callee', '').startswith('gaussian_elimination'):
                        if sym(comp, comp.call_args(c)[0], inline=False) != kv:
                            probs.append('%s is applied at %s, not at the block position' % (c['callee'], comp.s(comp.call_args(c)[0])))
        # the reset dominates the loop
        if resets and not paths.dominated_by(comp, comp.pos_of(pc), lambda n_: n_['id'] == resets[0][2]['id']):
            probs.append('the factorization loop is not dominated by the reset of %s' % ARR)


def writers(ctx, rule='permutation-sign-structure'):
    """(G) is established by compute() and by nothing else."""
    F = ctx.F
    recs = sorted(set(f.record for f in F.concrete() if f.cls == CLS and f.cfg))
    if not recs:
        raise AnalysisBroken('BKLDLT is not instantiated')
    n_inst = 0
    for rec in recs:
        ms = {}
        for g in F.methods(rec):
            if g.cfg:
                ms.setdefault(g.name, []).append(g)
        inst = rec.replace('Spectra::', '')
        probs = []
        # ---- W1: the writers of the array are exactly the tabulated ones
        seen = {}
        for name, gs in sorted(ms.items()):
            for g in gs:
                if g.d.get('ctor') or g.d.get('dtor'):
                    continue
                el, wh = _perm_writes(g)
                for (x, idx, val, op) in el:
                    seen.setdefault(name, []).append(('elem', g, x, idx, val, op))
                for (x, what) in wh:
                    seen.setdefault(name, []).append(('whole', g, x, what))
        allowed = {'compute', 'pivoting_1x1', 'pivoting_2x2'}
        for name in seen:
            if name not in allowed:
                probs.append('%s writes %s (%s): only compute() [reset], pivoting_1x1 [one non-negative entry] and pivoting_2x2 [one adjacent negative pair] may' %
                             (name, ARR, seen[name][0][1].s(seen[name][0][2])[:40]))
        for need in sorted(allowed):
            if need not in seen:
                raise AnalysisBroken('%s::%s no longer writes %s: the writer table of the block-structure rule is stale' % (inst, need, ARR))
        # compute(): one whole-array reset setLinSpaced(n, 0, n - 1) (all entries >= 0), dominating the factorization loop
        for comp in ms['compute']:
            _compute_structure(ctx, ms, comp, [w for w in seen.get('compute', []) if w[1] is comp], probs)
        # pivoting_1x1(k, r): m_perm[k] = r, r a parameter (non-negative by the verified call precondition k <= r, 0 <= k)
        p1 = ms['pivoting_1x1'][0]
        pn1 = [p1.locals[v]['name'] for v in p1.params]
        w1 = seen.get('pivoting_1x1', [])
        if not (len(w1) == 1 and w1[0][0] == 'elem' and w1[0][5] == '=' and w1[0][3] == ('P', pn1[0]) and w1[0][4] == ('P', pn1[1])):
            probs.append('pivoting_1x1 does not write exactly %s[%s] = %s' % (ARR, pn1[0], pn1[1]))
        # pivoting_2x2(k, r, p): exactly  m_perm[k] = -m_perm[k] - 1  and  m_perm[k + 1] = -m_perm[k + 1] - 1, on every normal
        # path, each after the pivoting_1x1 call that has just stored a non-negative value at that very position
        p2 = ms['pivoting_2x2'][0]
        pn2 = [p2.locals[v]['name'] for v in p2.params]
        K = ('P', pn2[0])
        K1 = ('+', K, ('lit', '1'))
        w2 = [w for w in seen.get('pivoting_2x2', [])]
        marks = {}
        for w in w2:
            if w[0] != 'elem' or w[5] != '=':
                probs.append('pivoting_2x2: unexpected write `%s`' % p2.s(w[2])[:40])
                continue
            idx, val = w[3], w[4]
            neg_form = ('-', ('u-', ('[]', ('F', ARR), idx)), ('lit', '1'))
            if idx in (K, K1) and val == neg_form:
                marks.setdefault(idx, []).append(w[2])
            else:
                probs.append('pivoting_2x2: `%s` is not the sign mark %s[e] = -%s[e] - 1 for e in {%s, %s + 1}' % (p2.s(w[2])[:50], ARR, ARR, pn2[0], pn2[0]))
        for idx, nm in ((K, pn2[0]), (K1, pn2[0] + ' + 1')):
            if len(marks.get(idx, [])) != 1:
                probs.append('pivoting_2x2 marks position %s %d times (a 2x2 block is two adjacent negative entries)' % (nm, len(marks.get(idx, []))))
                continue
            m = marks[idx][0]
            # on every normal path to the exit
            hit = paths.search(p2, [], stop=lambda n_, m=m: n_['id'] == m['id'], target=lambda n_: n_['k'] == 'ReturnStmt', include_entry=True,
                               exit_is_target=lambda b: True, normal_only=True)
            if hit is not None:
                probs.append('a path through pivoting_2x2 does not mark position %s' % nm)
            # dominated by pivoting_1x1(idx, ..), and no pivoting_1x1 / other write of that position afterwards
            def stores_nonneg(n_, idx=idx):
                return n_['k'] == 'CXXMemberCallExpr' and n_.get('callee') == 'pivoting_1x1' and sym(p2, p2.call_args(n_)[0], inline=False) == idx
            if not paths.dominated_by(p2, p2.pos_of(m), stores_nonneg):
                probs.append('the mark of position %s is not preceded by pivoting_1x1(%s, ..): the negated value need not be non-negative' % (nm, nm))
            later = paths.search(p2, [p2.pos_of(m)], stop=lambda n_: False,
                                 target=lambda n_: n_['k'] == 'CXXMemberCallExpr' and n_.get('callee') in ('pivoting_1x1', 'pivoting_2x2'))
            if later is not None:
                probs.append('pivoting_2x2 calls a pivoting member after marking position %s (the mark could be overwritten)' % nm)
        # ---- W2: who calls the two markers, and with which position
        pm = ms.get('permutate_mat', [None])[0]
        if pm is None:
            raise AnalysisBroken('%s::permutate_mat not analysed' % inst)
        kpm = ('P', pm.locals[pm.params[0]]['name'])
        for name, gs in sorted(ms.items()):
            for g in gs:
                for c in g.walk():
                    if c['k'] == 'CXXMemberCallExpr' and c.get('cls') == CLS and c.get('callee') in ('pivoting_1x1', 'pivoting_2x2'):
                        a0 = sym(g, g.call_args(c)[0], inline=False)
                        if name == 'permutate_mat':
                            if a0 != kpm:
                                probs.append('permutate_mat calls %s at position %s instead of its own position %s' % (c['callee'], show(a0), kpm[1]))
                        elif name == 'pivoting_2x2' and c['callee'] == 'pivoting_1x1':
                            pass        # checked above
                        else:
                            probs.append('%s calls %s: only permutate_mat (and pivoting_2x2 for its two positions) may' % (name, c['callee']))
        # permutate_mat: `return true` paths mark nothing; `return false` paths pass exactly the one pivoting_2x2 call
        rets = [r for r in pm.walk() if r['k'] == 'ReturnStmt' and r.get('value', -1) >= 0]
        calls2 = [c for c in pm.walk() if c['k'] == 'CXXMemberCallExpr' and c.get('callee') == 'pivoting_2x2']
        for r in rets:
            v = sym(pm, r['value'], inline=False)
            if v not in (('lit', 'true'), ('lit', 'false')):
                probs.append('permutate_mat returns %s: the block size it reports cannot be tied to the marks it made' % show(v))
                continue
            is2 = lambda n_: n_['k'] == 'CXXMemberCallExpr' and n_.get('callee') == 'pivoting_2x2'
            if v == ('lit', 'true'):
                # no path entry -> pivoting_2x2 -> this return
                if calls2:
                    hit = paths.search(pm, [pm.pos_of(c) for c in calls2], stop=lambda n_: False, target=lambda n_, r=r: n_['id'] == r['id'])
                    if hit is not None:
                        probs.append('permutate_mat can return true (1x1 block) after marking a 2x2 block: the factorization loop would advance by one over a negative pair')
            else:
                if not paths.dominated_by(pm, pm.pos_of(r), is2):
                    probs.append('permutate_mat can return false (2x2 block) without marking the pair: the loop would skip an unmarked position pair')
        n_inst += 1
        ctx.check(not probs, rule, '%s/writers' % inst.split('<')[0], rec,
                  'sign string of %s is in (P | NN)*: reset to non-negative entries; pivoting_1x1 stores a non-negative value at its position; pivoting_2x2 negates exactly '
                  'positions k and k + 1 after storing non-negative values there; permutate_mat returns false iff it marked a pair at its own position; the loop of compute() '
                  'advances by one after a 1x1 and by two after a 2x2 block, under k < n - 1' % ARR if not probs else '; '.join(probs[:4]))
    return n_inst


# ---------------------------------------------------------------------------------------------------------------------------
# readers
# ---------------------------------------------------------------------------------------------------------------------------
def _sign_test(fn, cond):
    """(index node, negative-when-true) if cond is `m_perm[e] < 0` / `m_perm[e] >= 0`, else None."""
    n = fn.strip(cond)
    if n is None or n['k'] != 'BinaryOperator' or n.get('op') not in ('<', '>='):
        return None
    l, r = fn.strip(fn.nodes[n['c'][0]]), fn.strip(fn.nodes[n['c'][1]])
    if r is None or sym(fn, r, inline=False) != ('lit', '0') or l is None:
        return None
    t = sym(fn, l, inline=False)
    if not (isinstance(t, tuple) and t[0] in ('[]', '()', 'coeff') and len(t) == 3 and t[1] == ('F', ARR)):
        return None
    idx = None
    for y in fn.walk(l['id']):
        if y['k'] in ('CXXOperatorCallExpr', 'CXXMemberCallExpr') and (y.get('op') in ('[]', '()') or y.get('callee') == 'coeff'):
            idx = fn.call_args(y)[-1]
            break
    if idx is None:
        return None
    return idx, n['op'] == '<'


def scan_loops(fn):
    """Loops of fn whose body branches on the sign of m_perm[i], i the loop variable.  Returns [(loop, var id, direction,
    problems)], direction +1 / -1; problems non-empty if the stride discipline that keeps the scan aligned is broken."""
    out = []
    for lp in fn.walk():
        if lp['k'] != 'ForStmt':
            continue
        tests = []
        for i in fn.walk(lp['body']):
            if i['k'] == 'IfStmt':
                st = _sign_test(fn, fn.nodes[i['cond']])
                if st is not None:
                    tests.append((i, st))
        if not tests:
            continue
        probs = []
        inc = fn.strip(fn.nodes[lp['inc']]) if lp.get('inc', -1) >= 0 else None
        if inc is None or inc['k'] != 'UnaryOperator' or inc.get('op') not in ('++', '--'):
            out.append((lp, None, 0, ['loop step `%s` is not a unit step' % (fn.s(lp['inc']) if lp.get('inc', -1) >= 0 else '')]))
            continue
        v = fn.strip(fn.nodes[inc['c'][0]])
        if v is None or v['k'] != 'DeclRefExpr' or 'var' not in v:
            out.append((lp, None, 0, ['loop variable not identified']))
            continue
        var = v['var']
        direction = 1 if inc['op'] == '++' else -1
        name = fn.locals[var]['name']
        for (i, (idx, neg_true)) in tests:
            if ranges.linform(fn, idx) != {('v', var): 1, 1: 0}:
                probs.append('the sign test reads position `%s`, not the scan position `%s`' % (fn.s(idx), name))
        steps = []
        for x in fn.walk(lp['body']):
            w = None
            if x['k'] == 'UnaryOperator' and x.get('op') in ('++', '--'):
                w = fn.strip(fn.nodes[x['c'][0]])
            elif x['k'] in ('BinaryOperator', 'CompoundAssignOperator') and x.get('op') in ('=', '+=', '-=', '*=', '/='):
                w = fn.strip(fn.nodes[x['c'][0]])
            if w is not None and w['k'] == 'DeclRefExpr' and w.get('var') == var:
                steps.append(x)
        want = '++' if direction == 1 else '--'
        # the negative-entry branch (of any of the sign tests) that holds the extra step
        nbranch = None
        for (i, (idx, neg_true)) in tests:
            nb = i['then'] if neg_true else i.get('else', -1)
            if nb is not None and nb >= 0 and (nbranch is None or any(fn.within(s_, nb) for s_ in steps)):
                nbranch = nb
        if nbranch is None or nbranch < 0:
            probs.append('no branch for a negative entry')
        elif not (len(steps) == 1 and steps[0]['k'] == 'UnaryOperator' and steps[0]['op'] == want and fn.within(steps[0], nbranch)):
            probs.append('the scan does not take exactly one extra `%s%s` in the negative-entry branch (a 2x2 block spans two positions): %s' %
                         (name, want, [fn.s(s_)[:20] for s_ in steps] or 'no step'))
        else:
            s0 = steps[0]
            # nothing reads the scan position after the extra step inside the body
            after = paths.search(fn, [fn.pos_of(s0)], stop=lambda n_: fn.within(n_, lp['inc']) or fn.within(n_, lp['cond']),
                                 target=lambda n_: n_['k'] == 'DeclRefExpr' and n_.get('var') == var and fn.within(n_, lp['body']) and not fn.within(n_, s0))
            if after is not None:
                probs.append('the scan position is used after the extra step inside the body (it then stands in the middle of a block)')
            # the extra step is on every path of the negative branch: the branch's statements are straight-line up to it
            bad = [x for x in fn.walk(nbranch) if x['k'] in ('IfStmt', 'ForStmt', 'WhileStmt', 'BreakStmt', 'ContinueStmt', 'ReturnStmt', 'ConditionalOperator')]
            if bad:
                probs.append('control flow inside the negative-entry branch: the extra step may be skipped')
        # every iteration looks at the sign of its position: the test is on every path from the loop condition to the step
        tids = [fn.nodes[i['cond']]['id'] for (i, _) in tests]
        cpos = fn.pos_of(fn.nodes[lp['cond']]) if lp.get('cond', -1) >= 0 else None
        if cpos is not None:
            hit = paths.search(fn, [cpos], stop=lambda n_: any(fn.within(n_, t_) for t_ in tids),
                               target=lambda n_: fn.within(n_, lp['inc']))
            if hit is not None:
                probs.append('an iteration can reach the loop step without testing the sign of %s[%s] (skipping a 2x2 block\'s extra step leaves the scan in the middle of the block): %s' %
                             (ARR, name, ' -> '.join(h.split(': ', 1)[-1] for h in hit[-3:])))
        # start position
        init_ok = None
        if direction == 1:
            t0 = None
            if lp.get('init', -1) >= 0:
                ini = fn.nodes[lp['init']]
                if ini['k'] == 'DeclStmt' and len(ini.get('decls', [])) == 1 and ini['decls'][0].get('var') == var and 'init' in ini['decls'][0]:
                    t0 = sym(fn, ini['decls'][0]['init'], inline=False)
                elif ini['k'] == 'BinaryOperator':
                    t0 = sym(fn, ini['c'][1], inline=False)
            if t0 != ('lit', '0'):
                probs.append('a forward scan must start at position 0 (a block start); it starts at %s' % (show(t0) if t0 else 'an unknown position'))
        out.append((lp, var, direction, probs))
    return out


def _backward_start(fn, lp, var):
    """The start of a backward scan must be `(m_perm[n - 1] < 0) ? n - 3 : n - 2`: one before the first position of the last block."""
    ini = None
    if lp.get('init', -1) >= 0 and fn.nodes[lp['init']]['k'] not in ('NullStmt',):
        n0 = fn.nodes[lp['init']]
        if n0['k'] == 'DeclStmt' and n0['decls'][0].get('var') == var and 'init' in n0['decls'][0]:
            ini = n0['decls'][0]['init']
    if ini is None:
        for x in fn.walk():
            if x['k'] == 'DeclStmt':
                for d in x.get('decls', []):
                    if d.get('var') == var and 'init' in d:
                        ini = d['init']
    if ini is None:
        return 'start of the backward scan not found'
    # other writes of the variable outside the loop
    for x in fn.walk():
        if x['k'] in ('BinaryOperator', 'CompoundAssignOperator') and x.get('op') in ('=', '+=', '-=') and not fn.within(x, lp):
            w = fn.strip(fn.nodes[x['c'][0]])
            if w is not None and w['k'] == 'DeclRefExpr' and w.get('var') == var:
                return 'the scan variable is assigned outside the loop as well'
    c = fn.strip(fn.nodes[ini])
    if c is None or c['k'] != 'ConditionalOperator':
        return 'the backward scan does not start from a position chosen by the sign of the last entry: `%s`' % fn.s(ini)[:50]
    st = _sign_test(fn, fn.nodes[c['c'][0]])
    if st is None or ranges.linform(fn, st[0]) != {('f', 'm_n'): 1, 1: -1}:
        return 'the start of the backward scan is not chosen by the sign of %s[n - 1]' % ARR
    a, b = ranges.linform(fn, fn.nodes[c['c'][1]]), ranges.linform(fn, fn.nodes[c['c'][2]])
    if not st[1]:
        a, b = b, a
    if a != {('f', 'm_n'): 1, 1: -3} or b != {('f', 'm_n'): 1, 1: -2}:
        return 'backward scan starts at %s / %s for a negative / non-negative last entry; one before the last block is n - 3 / n - 2' % (
            fn.s(c['c'][1 if st[1] else 2]), fn.s(c['c'][2 if st[1] else 1]))
    return None


def readers(ctx, check_sites, rule='permutation-sign-structure', min_sites=100, discipline_only=False):
    from . import contracts
    fns = _fns(ctx, 'solve_inplace')
    if not fns:
        raise AnalysisBroken('BKLDLT::solve_inplace is not instantiated')
    # every member that branches on the sign of an entry must be a known reader
    for f in ctx.F.concrete():
        if f.cls == CLS and f.cfg and f.name not in ('solve_inplace', 'compress_permutation'):
            for x in f.walk():
                if x['k'] in ('IfStmt', 'ConditionalOperator') and _sign_test(f, f.nodes[x['c'][0] if x['k'] == 'ConditionalOperator' else x['cond']]) is not None:
                    raise AnalysisBroken('%s branches on the sign of %s: a reader the block-structure rule does not know' % (f.qname, ARR))
    total = 0
    seen = set()
    scans = {}
    clean = []
    for fn in fns:
        if fn.mangled in seen:
            continue
        seen.add(fn.mangled)
        inst = fn.record.replace('Spectra::', '').split('<')[0] + '::solve_inplace'
        loops = scan_loops(fn)
        probs = []
        if len(loops) < 3:
            raise AnalysisBroken('%s: %d sign-directed scans found (3 confirmed by hand)' % (fn.qname, len(loops)))
        scan = []
        for lp, var, direction, pr in loops:
            probs += pr
            if var is None:
                continue
            if direction == -1:
                e = _backward_start(fn, lp, var)
                if e:
                    probs.append(e)
            scan.append((lp, var, direction))
        # the array is not written by the reader (it is a const member, but be explicit)
        el, wh = _perm_writes(fn)
        if el or wh:
            probs.append('solve_inplace writes %s' % ARR)
        ctx.check(not probs, rule, inst + '/scan-discipline', fn.qname,
                  '%d scans branch on the sign of %s[i] at the scan position, take exactly one extra step in the negative branch after the last use of i, '
                  'start at a block boundary (forward: 0; backward: one before the last block, chosen by the sign of the last entry)' % (len(loops), ARR)
                  if not probs else '; '.join(probs[:4]))
        if not probs:
            scans[fn.mangled] = scan
            clean.append(fn)
    if not clean or discipline_only:
        return 0
    # ---- index obligations with the positional facts of (G), once per sign of the last entry
    N = ('f', 'm_n')

    def hook_for(last_negative):
        def hook(f, d, cond, truth):
            scan = scans.get(f.mangled)
            if scan is None or f.cls != CLS:
                return
            st = _sign_test(f, cond)
            if st is None:
                return
            idx, neg_true = st
            neg = (neg_true == truth)
            L = ranges.linform(f, idx)
            if L == {N: 1, 1: -1}:
                if neg != last_negative:
                    d.bot = True          # the other case is analysed separately; the array is not written in between
                return
            if not neg:
                return
            for lp, var, direction in scan:
                if L == {('v', var): 1, 1: 0} and f.within(cond, lp['body']):
                    v = ('v', var)
                    if direction == 1:
                        # aligned on the first entry of a pair: the second one exists, and it is not the last entry if that is non-negative
                        d.add(v, N, -2 if last_negative else -3)           # i + 1 <= n - 1   /   i + 1 <= n - 2
                    else:
                        d.add('Z', v, -1)                                  # aligned on the second entry of a pair: i - 1 >= 0
        return hook
    f0 = clean[0]
    spec = contracts.Spec(CLS, ['0 <= m_n'], {ARR: ['m_n']}, {
        'solve_inplace': {'pre': ['1 <= m_n'], 'ptr': {f0.locals[f0.params[0]]['name']: ['m_n']}}})
    pk = contracts.Packed(CLS, 'm_n', ptr_cols={})
    ptr_locals = sorted(set(lv['name'] for f in clean for lv in f.locals.values() if zone.zone_is_ptr(lv['type'])))
    pk.unmodelled = {'solve_inplace': {nm: 'alias of the argument vector; its subscripts are sites of that vector' for nm in ptr_locals}}
    for case in (True, False):
        old = zone.COND_EXTRA
        zone.COND_EXTRA = hook_for(case)
        q = _Quiet(ctx)

        def sites(f, rec, ext_of):
            n1, p1 = check_sites(f, rec, ext_of)
            n2, p2, handled = list_sites(f, rec)
            # the generic checker cannot bound a stored value: those subscripts are decided by list_sites + the value invariant
            texts = set(f.s(f.nodes[h])[:50] for h in handled)
            p1 = [p_ for p_ in p1 if not any(p_.startswith(t_ + ':') for t_ in texts)]
            return n1 + n2, p1 + p2
        try:
            n = contracts.verify_packed(q, spec, pk, sites, rule + '/tmp')
        finally:
            zone.COND_EXTRA = old
        total += n
        for o in q.obl:
            ctx.check(o['ok'], rule, o['instance'] + ('/last-block-2x2' if case else '/last-block-1x1'), o['where'],
                      ('given (G) and the scan discipline: ' + o['detail']) if o['ok'] else o['detail'])
    if total < min_sites:
        raise AnalysisBroken('solve_inplace: only %d sites analysed' % total)
    return total


# ---------------------------------------------------------------------------------------------------------------------------
# the compressed permutation list: every stored pair (i, perm) has both components in [0, n)
# ---------------------------------------------------------------------------------------------------------------------------
LIST = 'm_permc'


def compressed_list(ctx, rule='permutation-sign-structure'):
    """solve_inplace swaps x[m_permc[j].first] and x[m_permc[j].second]: in bounds iff every stored pair lies in [0, n)^2 for the
    n the solve works with.  Value invariant of the array (V1): every entry v of m_perm satisfies -n <= v <= n - 1 -- the reset
    stores 0 .. n - 1, pivoting_1x1 stores r with k <= r <= n - 1 (its verified call precondition, rule
    packed-storage-index-contracts), the mark maps [0, n - 1] to [-n, -1] -- so the decoded value (v >= 0 ? v : -v - 1) is in
    [0, n - 1].  (V2) the list is written only by compute() (clear / reserve) and by compress_permutation, which appends
    (i, decode(m_perm[i])) for the loop position 0 <= i < n.  (V3) n is assigned only by compute(), which on every normal path
    clears the list first and rebuilds it last."""
    F = ctx.F
    recs = sorted(set(f.record for f in F.concrete() if f.cls == CLS and f.cfg))
    for rec in recs:
        ms = {}
        for g in F.methods(rec):
            if g.cfg:
                ms.setdefault(g.name, []).append(g)
        inst = rec.replace('Spectra::', '').split('<')[0]
        probs = []
        # writers of the list and of n
        for name, gs in sorted(ms.items()):
            for g in gs:
                if g.d.get('ctor') or g.d.get('dtor'):
                    continue
                for x in g.walk():
                    if x['k'] == 'CXXMemberCallExpr' and not x.get('cconst'):
                        o = g.call_object(x)
                        if o is not None and g.field_name(g.strip(o)) == LIST:
                            ok = (name == 'compute' and x.get('callee') in ('clear', 'reserve')) or (name == 'compress_permutation' and x.get('callee') == 'push_back')
                            if not ok:
                                probs.append('%s modifies the compressed list by %s()' % (name, x.get('callee')))
                    if x['k'] in ('BinaryOperator', 'CompoundAssignOperator') and x.get('op') in ('=', '+=', '-=') and sym(g, x['c'][0], inline=False) == ('F', 'm_n') and name != 'compute':
                        probs.append('%s assigns m_n: the stored permutation would refer to another dimension' % name)
                    if x['k'] in ('CXXOperatorCallExpr',) and x.get('op') == '=' and g.call_args(x) and g.field_name(g.strip(g.call_args(x)[0])) == LIST:
                        probs.append('%s assigns the compressed list as a whole' % name)
        cps = ms.get('compress_permutation', [])
        if not cps:
            raise AnalysisBroken('%s::compress_permutation not analysed' % inst)
        cp = cps[0]
        loops = [lp for lp in cp.walk() if lp['k'] == 'ForStmt']
        pushes = [x for x in cp.walk() if x['k'] == 'CXXMemberCallExpr' and x.get('callee') == 'push_back']
        if len(loops) != 1 or len(pushes) != 1 or not cp.within(pushes[0], loops[0]['body']):
            probs.append('compress_permutation is not one loop with one push_back')
        else:
            lp = loops[0]
            ini = cp.nodes[lp['init']]
            I = ('L', cp.locals[ini['decls'][0]['var']]['name']) if ini['k'] == 'DeclStmt' else None
            shape = I is not None and sym(cp, ini['decls'][0]['init'], inline=False) == ('lit', '0') and \
                _upper_bound(cp, lp['cond'], ini['decls'][0]['var']) == {('f', 'm_n'): 1, 1: -1} and \
                sym(cp, lp['inc'], inline=False) in (('u++', I), ('++u', I))
            if not shape:
                probs.append('compress_permutation does not scan i = 0 .. n - 1')
            else:
                E = ('[]', ('F', ARR), I)
                decode = ('?:', ('<=', ('lit', '0'), E), E, ('-', ('u-', E), ('lit', '1')))
                t = sym(cp, pushes[0])
                if t != ('push_back', ('F', LIST), ('call', 'make_pair', I, decode)):
                    probs.append('compress_permutation stores %s, not the pair (i, decoded %s[i])' % (show(t)[:80], ARR))
                # i is not written in the body
                for x in cp.walk(lp['body']):
                    if x['k'] in ('UnaryOperator', 'BinaryOperator', 'CompoundAssignOperator') and x.get('op') in ('++', '--', '=', '+=', '-=') and sym(cp, x['c'][0], inline=False) == I:
                        probs.append('compress_permutation changes its position inside the body')
        for comp in ms.get('compute', []):
            clears = [x for x in comp.walk() if x['k'] == 'CXXMemberCallExpr' and x.get('callee') == 'clear' and comp.call_object(x) is not None and comp.field_name(comp.strip(comp.call_object(x))) == LIST]
            builds = [x for x in comp.walk() if x['k'] == 'CXXMemberCallExpr' and x.get('callee') == 'compress_permutation']
            nset = [x for x in comp.walk() if x['k'] in ('BinaryOperator',) and x.get('op') == '=' and sym(comp, x['c'][0], inline=False) == ('F', 'm_n')]
            if len(clears) != 1 or len(builds) != 1 or len(nset) != 1:
                probs.append('compute(): %d clear / %d compress_permutation / %d assignments of m_n' % (len(clears), len(builds), len(nset)))
                continue
            if not paths.dominated_by(comp, comp.pos_of(builds[0]), lambda n_: n_['id'] == clears[0]['id']):
                probs.append('compute(): the list is rebuilt without being cleared first')
            if not paths.dominated_by(comp, comp.pos_of(builds[0]), lambda n_: n_['id'] == nset[0]['id']):
                probs.append('compute(): the list is rebuilt before m_n is set')
            hit = paths.search(comp, [comp.pos_of(clears[0])], stop=lambda n_: n_['id'] == builds[0]['id'], target=lambda n_: n_['k'] == 'ReturnStmt',
                               exit_is_target=lambda b: True, normal_only=True)
            if hit is not None:
                probs.append('compute() can return normally without rebuilding the compressed list')
            flag = [x for x in comp.walk() if x['k'] == 'BinaryOperator' and x.get('op') == '=' and sym(comp, x['c'][0], inline=False) == ('F', 'm_computed')]
            for x in flag:
                if not paths.dominated_by(comp, comp.pos_of(x), lambda n_: n_['id'] == builds[0]['id']):
                    probs.append('compute() sets m_computed before the compressed list is rebuilt')
        ctx.check(not probs, rule, '%s/compressed-list' % inst, rec,
                  'the compressed list holds pairs (i, decoded %s[i]) for 0 <= i < n only, rebuilt from scratch by every compute() after n is set; nothing else writes it or n' % ARR
                  if not probs else '; '.join(probs[:4]))


def list_sites(fn, rec):
    """x[m_permc[e].first | .second] in a reader: (number of sites, problems, set of node ids handled).  The element is in
    [0, n) by the value invariant; left to prove: 0 <= e < m_permc.size()."""
    n, probs, handled = 0, [], set()
    size_locals = {}
    for x in fn.walk():
        if x['k'] == 'DeclStmt':
            for d in x.get('decls', []):
                if 'var' in d and 'init' in d and sym(fn, d['init'], inline=False) == ('size', ('F', LIST)) and zone.const_local_stable(fn, d['var']):
                    size_locals[d['var']] = fn.locals[d['var']]['name']
    for x in fn.walk():
        if x['k'] != 'ArraySubscriptExpr':
            continue
        t = sym(fn, x['c'][1], inline=False)
        if not (isinstance(t, tuple) and t[0] == '.' and t[2] in ('first', 'second') and isinstance(t[1], tuple) and t[1][0] == '[]' and t[1][1] == ('F', LIST)):
            continue
        handled.add(x['id'])
        n += 1
        z = rec.get(fn.pos_of(x))
        if z is None:
            continue
        e = None
        for y in fn.walk(x['c'][1]):
            if y['k'] == 'CXXOperatorCallExpr' and y.get('op') == '[]':
                e = fn.call_args(y)[-1]
                break
        ok = e is not None and ranges.nonneg(fn, z, e) and any(ranges.at_most(fn, z, e, {('v', sv): 1, 1: 0}, slack=-1) for sv in size_locals)
        if not ok:
            probs.append('%s: cannot prove 0 <= %s < %s.size()' % (fn.s(x)[:40], fn.s(e) if e is not None else '?', LIST))
    return n, probs, handled


class _Quiet:
    """A context that records obligations instead of reporting them (the caller folds them into one obligation per case)."""
    def __init__(self, ctx):
        self._ctx = ctx
        self.F = ctx.F
        self.C = ctx.C
        self.E = ctx.E
        self.obl = []

    def check(self, ok, rule, instance, where, detail, **kw):
        self.obl.append({'ok': bool(ok), 'rule': rule, 'instance': instance, 'where': where, 'detail': detail})

    def ok(self, rule, instance, where, detail, **kw):
        self.check(True, rule, instance, where, detail)

    def fail(self, rule, instance, where, detail, **kw):
        self.check(False, rule, instance, where, detail)

    def __getattr__(self, k):
        return getattr(self._ctx, k)
