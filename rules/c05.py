"""C05 -- result accessors, counts, ordering and status are mutually consistent."""
from . import eigsbase

EXPLANATION = (
    'Static analysis of both Arnoldi/Lanczos solver bases (HermEigsBase, GenEigsBase) and of the factorization classes, '
    'on every CFG path of every analysed instantiation. Decides: the flag array is fresh when compute() sorts / sets the '
    'status / returns (must-pass-through); the count that decides status and return value is the result of that very test; '
    'return = min(nev, count), status = Successful iff count >= nev (evaluated on all orderings); only init / the test / the '
    'coherent permutation write the flags, only constructors and compute() the status; eigenvalues() and eigenvectors(nvec) '
    'select by the same flag over [0, nev) and size their result from the flag count, nvec clamped first; the final sort '
    'permutes values, vectors and flags together; every operator application inside the factorization is paired with a '
    'counter increment, nobody else applies the operator (one tabulated exception named by the property), the counter '
    'returned by num_operations() is the one passed down and zeroed by init(); restart() runs at most once per iteration '
    'of a loop bounded by maxit; constructors start as NotComputed with an empty flag array; the rule arguments reach '
    'their consumers unchanged. On every normal path the final-sort member re-arranges the result arrays (a skipping return is '
    'accepted only in the cached-order idiom, and then every writer of the values in the class hierarchy must update the order tag). '
    'Ordering by key is C18.')
ASSUMPTIONS = ['Eigen kernels and std::sort are correct', 'instantiations listed in drivers/ are representative of every OpType']


def run(ctx):
    for base in ('Spectra::HermEigsBase', 'Spectra::GenEigsBase'):
        eigsbase.flag_freshness(ctx, base)
        eigsbase.exit_expressions(ctx, base)
        eigsbase.flag_and_status_writers(ctx, base)
        eigsbase.accessor_agreement(ctx, base)
        eigsbase.coherent_permutation(ctx, base)
        eigsbase.final_sort_never_skipped(ctx, base)
        eigsbase.counter_identity(ctx, base)
        eigsbase.restart_bound(ctx, base)
        eigsbase.initial_state(ctx, base)
        eigsbase.init_restores_initial_state(ctx, base)
        eigsbase.rule_argument_flow(ctx, base)
        eigsbase.ritz_data_of_current_call(ctx, base)
    eigsbase.counter_pairing(ctx)
    eigsbase.operator_callers(ctx)
    ctx.require('flags-fresh-at-use', 8)
    ctx.require('op-application-counted', 5)
    ctx.require('operator-applied-only-by-factorization', 5)
    ctx.require('accessor-agreement', 8)
