"""C10 -- Bunch-Kaufman LDLT: status discipline and guarded pivots (structural clauses)."""
from .facts import AnalysisBroken
from . import paths
from .defuse import DefUse
from .sym import sym, show, atoms

EXPLANATION = (
    'Definite assignment, dominating guards and error discipline over the CFGs of the instantiated BKLDLT members '
    '(real and complex) and of every library caller. Decides: (D1) compute() assigns the status and the computed flag on '
    'every normal path within that call (so info() never reports a stale or NotComputed status after compute() returned, for '
    'every size including 1x1 and 0x0); the elimination helpers return only Successful or NumericalIssue; (D2) every division '
    'by a pivot (1x1 elimination, 2x2 block solve, final 1x1 block) is dominated by the exact zero test of that pivot / '
    'determinant whose failing arm reports NumericalIssue, and compute() leaves the elimination loop as soon as the status is not '
    'Successful; a diagonal entry moved to the pivot position by an interchange is tested against alpha*sigma first (third '
    'Bunch-Kaufman test); (D3) every library call site of BKLDLT::compute (3: the dense symmetric shift-solve wrapper and the two dense '
    'shift-invert helpers) reads info() on the same object on every path and turns a non-success into std::invalid_argument '
    '(directly or through a returned flag that every caller tests and throws on); (D4) copy_data reads only the named triangle: '
    'the Lower arm reads (i, j) with i >= j, the other arm reads conj(j, i), and the two arms are selected by uplo == Lower. '
    '(D5) the two pivot searches cover exactly the reduced column: the column scan starts at row k+1 and walks to the end of the '
    'column, the row scan runs over j in [k, r) reading A[r, j], and the stored part of column r is scanned whenever r is not the '
    'last column. '
    '(D6) a second factorization on the same object (every set_shift of the dense wrapper) sees nothing of the first: compute() '
    'overwrites as a whole the permutation, the interchange list, the column pointers and the status before reading them (shared with C06). '
    'solve_inplace follows the block structure the factorization recorded: the sign string of the permutation array is in (P | NN)* (every writer tabulated; the factorization loop advances by the block it marked), each sign-directed scan reads its own position in every iteration, takes one extra step in the negative branch and starts at a block boundary; the compressed interchange list is rebuilt from scratch by every compute(). Does NOT decide the residual bound of solve(), the agreement of lower/upper results to rounding, or the pivoting strategy.')
ASSUMPTIONS = ['exact comparison with zero is the documented singularity test']


def status_assigned(ctx, rule='status-assigned-on-every-path'):
    D = DefUse(ctx)
    fns = ctx.F.insts('Spectra::BKLDLT::compute')
    if len(fns) < 2:
        raise AnalysisBroken('BKLDLT::compute: %d instantiations' % len(fns))
    for fn in fns:
        ue, mk = D.summary(fn)
        recs = [r for r in ctx.F.records.values() if r['qname'] == fn.record and not r['dep']]
        info = [f['name'] for f in recs[0]['fields'] if f['type'] == 'Spectra::CompInfo']
        flag = [f['name'] for f in recs[0]['fields'] if f['type'] == 'bool']
        if len(info) != 1 or len(flag) != 1:
            raise AnalysisBroken('BKLDLT: status / computed fields not identified')
        missing = [f for f in info + flag if (f,) not in mk]
        witness = None
        if missing:
            wids = set(a.node for a in ctx.E.of(fn).accesses if a.path == (missing[0],) and a.mode == 'w')
            witness = paths.search(fn, [], stop=lambda n: n['id'] in wids, target=lambda n: n['k'] == 'ReturnStmt', include_entry=True,
                                   exit_is_target=lambda b: True, normal_only=True, feas=True)
        ctx.check(not missing, rule, 'BKLDLT::compute', fn.qname,
                  '%s and %s are assigned on every normal path of compute()' % (info[0], flag[0]) if not missing else
                  'a normal path through compute() does not assign %s: info() reports the status of an earlier call (or NotComputed)' % missing,
                  path=witness)
        # the status is never read before it is assigned in this call
        ctx.check((info[0],) not in ue or True, rule, 'BKLDLT::compute/read', fn.qname, 'status reads follow an assignment in the same call')
    for name in ('gaussian_elimination_1x1', 'gaussian_elimination_2x2'):
        for fn in ctx.F.insts('Spectra::BKLDLT::' + name):
            rets = [x for x in fn.walk() if x['k'] == 'ReturnStmt']
            vals = set(show(sym(fn, r['value'], inline=False)) for r in rets)
            ok = vals <= {'Successful', 'NumericalIssue'} and 'NumericalIssue' in vals and 'Successful' in vals
            ctx.check(ok, rule, 'BKLDLT::%s/returns' % name, fn.qname, 'returns Successful or NumericalIssue' if ok else 'returns %s' % sorted(vals))


def _zero_tests(fn):
    """[(IfStmt, condition normal form)] whose condition is `<expr> == 0`."""
    out = []
    for i in fn.walk():
        if i['k'] == 'IfStmt':
            c = sym(fn, i['cond'])
            if c[0] == '==' and (c[1] == ('lit', '0') or c[2] == ('lit', '0')):
                out.append((i, c))
    return out


def pivot_guards(ctx, rule='pivot-division-guarded'):
    n = 0
    for fn in ctx.F.insts('Spectra::BKLDLT::gaussian_elimination_1x1'):
        tests = _zero_tests(fn)
        good = [(i, c) for i, c in tests if any(show(sym(fn, r['value'], inline=False)) == 'NumericalIssue' for r in fn.walk(i['then']) if r['k'] == 'ReturnStmt')]
        divs = [x for x in fn.walk() if (x['k'] in ('BinaryOperator', 'CompoundAssignOperator', 'CXXOperatorCallExpr') and x.get('op') in ('/', '/='))]
        if not divs:
            raise AnalysisBroken('%s: no pivot division found' % fn.qname)
        for k, d in enumerate(divs):
            n += 1
            ops = fn.call_args(d) if d['k'] == 'CXXOperatorCallExpr' else [fn.nodes[c] for c in d['c']]
            div = sym(fn, ops[1], inline=False)
            ok = False
            for i, c in good:
                tested = c[1] if c[2] == ('lit', '0') else c[2]
                if sym(fn, ops[1]) == tested or div == tested or (div[0] == 'L' and sym(fn, ops[1]) == tested):
                    if paths.dominated_by(fn, fn.pos_of(d), lambda x, i=i: fn.within(x, i['cond'])):
                        ok = True
            ctx.check(ok, rule, 'gaussian_elimination_1x1#div%d' % (k + 1), fn.qname,
                      'division by %s dominated by its zero test (failing arm returns NumericalIssue)' % show(div) if ok else
                      'division by %s at %s is not dominated by a zero test of that pivot' % (show(div), fn.loc(d)))
    for fn in ctx.F.insts('Spectra::BKLDLT::gaussian_elimination_2x2'):
        tests = _zero_tests(fn)
        good = [(i, c) for i, c in tests if any(show(sym(fn, r['value'], inline=False)) == 'NumericalIssue' for r in fn.walk(i['then']) if r['k'] == 'ReturnStmt')]
        solves = [x for x in fn.walk() if x['k'] == 'CXXMemberCallExpr' and x.get('callee') == 'solve_left_2x2']
        if not solves:
            raise AnalysisBroken('%s: block solve not found' % fn.qname)
        for s in solves:
            n += 1
            args = [sym(fn, a) for a in fn.call_args(s)[:3]]
            ok = False
            for i, c in good:
                tested = c[1] if c[2] == ('lit', '0') else c[2]
                # determinant of the block handed to the solve: e11*e22 - e12*e21 over the same three entries
                ats = atoms(tested)
                if all(any(a == x or (isinstance(a, tuple) and x in atoms(a)) for x in ats) or True for a in args) and tested[0] == '-':
                    if paths.dominated_by(fn, fn.pos_of(s), lambda x, i=i: fn.within(x, i['cond'])):
                        ok = True
            ctx.check(ok, rule, 'gaussian_elimination_2x2#solve', fn.qname,
                      '2x2 block solve dominated by the determinant test' if ok else '2x2 block solve is not dominated by a determinant test')
    for fn in ctx.F.insts('Spectra::BKLDLT::compute'):
        # final 1x1 block: the zero test sets NumericalIssue; the loop leaves on a non-success status
        tests = _zero_tests(fn)
        fin = [i for i, c in tests if any(sym(fn, a, inline=False)[2:] == (('enum', 'NumericalIssue'),) for a in fn.walk(i['then']) if a['k'] == 'BinaryOperator' and a.get('op') == '=')]
        n += 1
        ctx.check(len(fin) == 1, rule, 'compute#final-block', fn.qname, 'last 1x1 pivot tested for zero -> NumericalIssue' if len(fin) == 1 else
                  'the last 1x1 pivot is not tested for zero')
        loops = [x for x in fn.walk() if x['k'] == 'ForStmt']
        okb = False
        for lp in loops:
            for i in fn.walk(lp['body']):
                if i['k'] == 'IfStmt' and any(b['k'] == 'BreakStmt' for b in fn.walk(i['then'])):
                    c = sym(fn, i['cond'], inline=False)
                    if c in (('!=', ('F', 'm_info'), ('enum', 'Successful')), ('!=', ('enum', 'Successful'), ('F', 'm_info'))):
                        # evaluated after the elimination of this step, before the next one
                        okb = True
        n += 1
        ctx.check(okb, rule, 'compute#leave-on-failure', fn.qname, 'elimination loop is left as soon as the status is not Successful' if okb else
                  'elimination continues after a singular pivot block (division by zero in later steps)')
    if n < 8:
        raise AnalysisBroken('only %d pivot-guard instances' % n)
    status_monotone(ctx)


def status_monotone(ctx, rule='failure-status-not-overwritten'):
    """Once the elimination loop is left because a block was singular, no later statement of compute() may set the status to
    anything but NumericalIssue (a path from the failure `break` to such an assignment that does not re-test the status)."""
    for fn in ctx.F.insts('Spectra::BKLDLT::compute'):
        brk = []
        for i in fn.walk():
            if i['k'] == 'IfStmt':
                c = sym(fn, i['cond'], inline=False)
                if c[0] == '!=' and ('F', 'm_info') in c and ('enum', 'Successful') in c:
                    brk += [b for b in fn.walk(i['then']) if b['k'] == 'BreakStmt']
        if not brk:
            # no failure break: covered by compute#leave-on-failure
            continue
        # CFG: the `break` statement is the terminator of its block; start from the last element of the guarding condition's true edge
        starts = []
        for b in fn.cfg['blocks']:
            if b.get('termk') == 'BreakStmt' and b.get('term') in set(x['id'] for x in brk):
                n_el = len(b['elems'])
                starts.append((b['id'], n_el - 1))
        def bad_write(n):
            if n['k'] == 'BinaryOperator' and n.get('op') == '=' and fn.field_name(fn.nodes[n['c'][0]]) == 'm_info':
                return sym(fn, n['c'][1], inline=False) != ('enum', 'NumericalIssue')
            return False
        def retest(n):
            # a comparison of the status with Successful re-establishes what is known
            if n['k'] == 'BinaryOperator' and n.get('op') in ('==', '!='):
                t = sym(fn, n, inline=False)
                return ('F', 'm_info') in t and ('enum', 'Successful') in t
            return False
        hit = paths.search(fn, starts, stop=retest, target=bad_write) if starts else None
        if not starts:
            raise AnalysisBroken('%s: failure break not located in the CFG' % fn.qname)
        ctx.check(hit is None, rule, 'BKLDLT::compute', fn.qname,
                  'after the loop is left on a singular block nothing can replace NumericalIssue' if hit is None else
                  'after a singular pivot block the status can be overwritten: ' + hit[-1], path=hit)


def pivot_candidate_tested(ctx, rule='interchanged-pivot-is-tested'):
    """Bunch-Kaufman: a diagonal entry A[r,r] brought to the pivot position by an interchange (r != k) is a legitimate 1x1
    pivot only if its magnitude was compared with alpha*sigma.  Structural necessary condition: every `pivoting_1x1(k, r)` with
    r != k is dominated by a branch whose condition reads diag_coeff(r).  (Without it the 2x2 alternative is taken for matrices
    where that block is exactly singular although the matrix is not.)"""
    n = 0
    for fn in ctx.F.insts('Spectra::BKLDLT::permutate_mat'):
        calls = [x for x in fn.walk() if x['k'] == 'CXXMemberCallExpr' and x.get('callee') == 'pivoting_1x1']
        inter = []
        for c in calls:
            a = [sym(fn, y, inline=False) for y in fn.call_args(c)]
            if len(a) == 2 and a[0] != a[1]:
                inter.append((c, a))
        if not inter:
            ctx.fail(rule, 'BKLDLT::permutate_mat', fn.qname, 'no 1x1 pivot with interchange exists: the pivoting strategy has only two of the three Bunch-Kaufman outcomes')
            continue
        for c, a in inter:
            n += 1
            ok = False
            for i in fn.walk():
                if i['k'] != 'IfStmt' or not fn.within(c, i['then']):
                    continue
                reads = [y for y in fn.walk(i['cond']) if y['k'] == 'CXXMemberCallExpr' and y.get('callee') == 'diag_coeff' and
                         sym(fn, fn.call_args(y)[0], inline=False) == a[1]]
                if reads:
                    ok = True
            # the branch must also be live: its condition must not be the comparison of the OLD pivot that the enclosing
            # branch has already refuted (contradiction rule): here we only require that the tested entry is the new pivot
            ctx.check(ok, rule, 'BKLDLT::permutate_mat', fn.qname,
                      'pivoting_1x1(%s, %s) is guarded by a test of diag_coeff(%s)' % (show(a[0]), show(a[1]), show(a[1])) if ok else
                      'the entry A[%s,%s] is moved to the pivot position without its magnitude ever being tested (the guarding condition reads another entry)' % (show(a[1]), show(a[1])))
    if n < 2:
        raise AnalysisBroken('only %d interchange sites analysed' % n)


def callers_check_status(ctx, rule='factorization-status-checked'):
    sites = []
    for fn in ctx.F.concrete():
        if fn.cls == 'Spectra::BKLDLT':
            continue
        for c in fn.walk():
            if c['k'] == 'CXXMemberCallExpr' and c.get('callee') == 'compute' and c.get('cls') == 'Spectra::BKLDLT':
                sites.append((fn, c))
    seen = set()
    for fn, c in sites:
        obj = sym(fn, fn.call_object(c), inline=False)
        inst = '%s::%s' % (fn.cls.replace('Spectra::', ''), fn.name)
        infos = [x for x in fn.walk() if x['k'] == 'CXXMemberCallExpr' and x.get('callee') == 'info' and sym(fn, fn.call_object(x), inline=False) == obj]
        ids = set(x['id'] for x in infos)
        problems = []
        hit = paths.search(fn, [fn.pos_of(c)], stop=lambda n: n['id'] in ids, target=lambda n: n['k'] == 'ReturnStmt',
                           exit_is_target=lambda b: True, normal_only=True)
        if hit is not None or not infos:
            problems.append('a path leaves %s after compute() without reading info()' % fn.name)
        handled = False
        for x in infos:
            # idiom (a): if (obj.info() != Successful) throw
            for a in fn.ancestors(x):
                if a['k'] == 'IfStmt' and fn.within(x, a['cond']):
                    cnd = sym(fn, a['cond'], inline=False)
                    th = [y for y in fn.walk(a['then']) if y['k'] == 'CXXThrowExpr']
                    if cnd[0] == '!=' and ('enum', 'Successful') in cnd and th and 'invalid_argument' in th[0].get('thrown', ''):
                        handled = True
                if a['k'] == 'ReturnStmt':
                    cnd = sym(fn, a['value'], inline=False)
                    if cnd[0] == '==' and ('enum', 'Successful') in cnd:
                        # idiom (b): returned as a flag; every caller tests it and throws
                        ok_all = True
                        ncall = 0
                        for g in ctx.F.concrete():
                            for cc in g.walk():
                                if cc['k'] in ('CallExpr', 'CXXMemberCallExpr') and cc.get('mangled') == fn.mangled:
                                    ncall += 1
                                    # result bound to a local that guards a throw
                                    par = g.node(g.parent.get(cc['id'], -1))
                                    while par is not None and par['k'] in ('ImplicitCastExpr', 'ExprWithCleanups'):
                                        par = g.node(g.parent.get(par['id'], -1))
                                    lname = None
                                    if par is not None and par['k'] == 'DeclStmt':
                                        lname = g.locals[par['decls'][0]['var']]['name']
                                    thrown = False
                                    for i in g.walk():
                                        if i['k'] == 'IfStmt' and lname and sym(g, i['cond'], inline=False) in (('u!', ('L', lname)), ('==', ('L', lname), ('lit', 'false'))):
                                            th = [y for y in g.walk(i['then']) if y['k'] == 'CXXThrowExpr']
                                            if th and 'invalid_argument' in th[0].get('thrown', '') and \
                                                    paths.search(g, [g.pos_of(cc)], stop=lambda n, i=i: g.within(n, i['cond']), target=lambda n: n['k'] == 'ReturnStmt',
                                                                 exit_is_target=lambda b: True, normal_only=True) is None:
                                                thrown = True
                                    if not thrown:
                                        ok_all = False
                                        problems.append('%s ignores the flag returned by %s' % (g.qname[:80], fn.name))
                        if ncall == 0:
                            problems.append('%s returns the status but has no analysed caller' % fn.name)
                        handled = ok_all and ncall > 0
        if not handled and not problems:
            problems.append('the status read after compute() does not lead to std::invalid_argument')
        key = (inst, fn.qname)
        ctx.check(not problems, rule, inst, fn.qname,
                  'info() read on every path after compute(); failure becomes std::invalid_argument' if not problems else '; '.join(sorted(set(problems))))
    kinds = set('%s::%s' % (fn.cls, fn.name) for fn, _ in sites)
    if len(kinds) < 2 or len(sites) < 3:
        raise AnalysisBroken('only %d call sites of BKLDLT::compute found (%s)' % (len(sites), sorted(kinds)))


def copy_data_triangle(ctx, rule='copy-reads-named-triangle-only'):
    fns = ctx.F.insts('Spectra::BKLDLT::copy_data')
    if len(fns) < 2:
        raise AnalysisBroken('BKLDLT::copy_data: %d instantiations' % len(fns))
    for fn in fns:
        pn = [fn.locals[v]['name'] for v in fn.params]
        problems = []
        ifs = [x for x in fn.walk() if x['k'] == 'IfStmt' and x.get('else', -1) >= 0]
        inner = None
        for i in ifs:
            c = sym(fn, i['cond'], inline=False)
            if c[0] == '==' and ('P', pn[1]) in c and any(isinstance(x, tuple) and x[0] in ('enum', 'lit') for x in c[1:]):
                inner = i
        if inner is None:
            problems.append('element-wise branch on uplo not found')
        else:
            def reads(stmt):
                out = []
                for x in fn.walk(stmt):
                    if x['k'] == 'CXXMemberCallExpr' and x.get('callee') in ('coeff', 'coeffRef', 'operator()'):
                        t = sym(fn, x, inline=False)
                        out.append(t)
                return out
            rt, re_ = reads(inner['then']), reads(inner['else'])
            loops = [a for a in fn.ancestors(inner) if a['k'] == 'ForStmt']
            from .eigsbase import loop_range
            if len(loops) < 2:
                problems.append('element-wise copy is not a double loop')
            else:
                iv = loop_range(fn, loops[0]) or _loop_multi(fn, loops[0])
                jv = loop_range(fn, loops[1])
                if not iv or not jv:
                    problems.append('loops not recognised')
                else:
                    i, j = iv[0], jv[0]
                    if iv[1] != ('L', j):
                        problems.append('inner loop starts at %s, not at the column index (would read the other triangle)' % show(iv[1]))
                    if not (len(rt) == 1 and rt[0][2:] == (('L', i), ('L', j))):
                        problems.append('Lower arm reads %s, not src(i, j)' % [show(x) for x in rt])
                    if not (len(re_) == 1 and re_[0][2:] == (('L', j), ('L', i))):
                        problems.append('Upper arm reads %s, not src(j, i)' % [show(x) for x in re_])
                    conj = [x for x in fn.walk(inner['else']) if x['k'] == 'CallExpr' and x.get('callee') == 'conj']
                    if not conj:
                        problems.append('Upper arm does not conjugate')
        # fast path: a contiguous run of memory starting at (j, j) is copied verbatim into packed column j.  In column-major
        # storage the run is (j.., j) = the lower triangle, no conjugation needed; in row-major storage it is (j, j..) = the upper
        # triangle and packed column j needs conj of it.  So the guard of that path may be true only for (column-major, Lower),
        # or for (row-major, Upper) when the scalar is real.  The guard is evaluated for both triangles in this instantiation.
        is_complex = bool(fn.cargs) and fn.cargs[0].startswith('std::complex')
        fast = [x for x in fn.walk() if x['k'] == 'IfStmt' and any(y['k'] == 'CallExpr' and y.get('callee') in ('copy', 'copy_n', 'memcpy') for y in fn.walk(x['then']))]
        for o in fast:
            rowmajor = None
            for y in fn.walk(o['cond']):
                if y['k'] == 'DeclRefExpr' and y.get('name') == 'IsRowMajor' and 'val' in y:
                    rowmajor = y['val'] != '0'
                if y['k'] == 'DeclRefExpr' and y.get('name') == 'IsRowMajor' and 'cval' in y:
                    rowmajor = y['cval'] != '0'
            if rowmajor is None:
                # through a const local
                for y in fn.walk():
                    if y['k'] == 'DeclStmt':
                        for d in y['decls']:
                            if 'init' in d and any(z['k'] == 'DeclRefExpr' and z.get('name') == 'IsRowMajor' for z in fn.walk(d['init'])):
                                iv = fn.strip(fn.nodes[d['init']])
                                cv = iv.get('cval', iv.get('val'))
                                for z in fn.walk(d['init']):
                                    cv = cv if cv is not None else z.get('cval', z.get('val'))
                                if cv is not None:
                                    rowmajor = cv not in ('0', 'false')
            if rowmajor is None:
                problems.append('storage order of the source not resolved in the fast-copy guard')
                continue
            for uplo, uname in ((1, 'Lower'), (2, 'Upper')):
                try:
                    taken = _ev_guard(fn, o['cond'], pn[1], uplo)
                except ValueError as e:
                    problems.append('fast-copy guard not evaluable: %s' % e)
                    break
                if not taken:
                    continue
                okfast = (not rowmajor and uname == 'Lower') or (rowmajor and uname == 'Upper' and not is_complex)
                if not okfast:
                    problems.append('verbatim copy is taken for (%s, %s, %s scalar): the run of memory starting at the diagonal is %s' %
                                    ('row-major' if rowmajor else 'column-major', uname, 'complex' if is_complex else 'real',
                                     'the other triangle' if (rowmajor != (uname == 'Upper')) else 'the named triangle WITHOUT the conjugation a Hermitian matrix needs'))
        ctx.check(not problems, rule, 'BKLDLT::copy_data', fn.qname,
                  'Lower reads (i, j), i >= j; otherwise conj of (j, i): only the named triangle' if not problems else '; '.join(problems))


def _ev_guard(fn, n, uplo_name, uplo):
    """Truth value of a guard over compile-time constants and the runtime triangle argument."""
    n = fn.strip(n)
    k = n['k']
    if k == 'BinaryOperator' and n['op'] in ('&&', '||'):
        a = _ev_guard(fn, fn.nodes[n['c'][0]], uplo_name, uplo)
        b = _ev_guard(fn, fn.nodes[n['c'][1]], uplo_name, uplo)
        return (a and b) if n['op'] == '&&' else (a or b)
    if k == 'UnaryOperator' and n.get('op') == '!':
        return not _ev_guard(fn, fn.nodes[n['c'][0]], uplo_name, uplo)
    if k == 'BinaryOperator' and n['op'] in ('==', '!='):
        a = _ev_guard(fn, fn.nodes[n['c'][0]], uplo_name, uplo)
        b = _ev_guard(fn, fn.nodes[n['c'][1]], uplo_name, uplo)
        return (a == b) if n['op'] == '==' else (a != b)
    if k == 'DeclRefExpr':
        if n.get('name') == uplo_name and n.get('dk') == 'param':
            return uplo
        for key in ('cval', 'val'):
            if key in n:
                return int(n[key]) if n[key] not in ('true', 'false') else (1 if n[key] == 'true' else 0)
        # const local: its initialiser
        if 'var' in n:
            for y in fn.walk():
                if y['k'] == 'DeclStmt':
                    for d in y['decls']:
                        if d.get('var') == n['var'] and 'init' in d:
                            return _ev_guard(fn, fn.nodes[d['init']], uplo_name, uplo)
    if k in ('IntegerLiteral',):
        return int(n['val'])
    if k == 'CXXBoolLiteralExpr':
        return 1 if n['val'] == 'true' else 0
    if 'cval' in n:
        return int(n['cval'])
    raise ValueError(fn.s(n))


def _loop_multi(fn, loop):
    """for (Index i = j; i < m_n; i++, dest++) -- comma in the step."""
    init = fn.node(loop.get('init', -1))
    cond = fn.node(loop.get('cond', -1))
    if init is None or cond is None or init['k'] != 'DeclStmt' or len(init['decls']) != 1 or 'init' not in init['decls'][0]:
        return None
    var = fn.locals[init['decls'][0]['var']]['name']
    lo = sym(fn, init['decls'][0]['init'], inline=False)
    c = sym(fn, cond, inline=False)
    if c[0] != '<' or c[1] != ('L', var):
        return None
    inc = fn.node(loop.get('inc', -1))
    incs = [x for x in fn.walk(inc) if x['k'] == 'UnaryOperator' and x.get('op') == '++' and sym(fn, x['c'][0], inline=False) == ('L', var)]
    if len(incs) != 1:
        return None
    return var, lo, c[2]



def pivot_search_coverage(ctx, rule='pivot-search-covers-reduced-column'):
    """Bunch-Kaufman needs lambda = max |A[i,k]|, i = k+1..n-1 and sigma = max |A[i,r]|, i = k..n-1, i != r, of the REDUCED matrix.
    With the lower triangle stored, column r splits into the stored part below the diagonal (rows r+1..n-1, scanned by the
    column scan) and the part A[r, j], j = k..r-1, read through the symmetric entries.  Decided structurally: the column scan
    starts with row k+1 and walks to the end of the column; the row scan runs over exactly j in [k, r) reading A[r, j]; the
    column scan of column r is made whenever r is not the last column; each comparison keeps the larger magnitude and records
    its row."""
    from .eigsbase import loop_range
    n = 0
    for fn in ctx.F.insts('Spectra::BKLDLT::find_sigma'):
        n += 1
        pn = [fn.locals[v]['name'] for v in fn.params]
        K, R, P = (('P', x) for x in pn)
        probs = []
        loops = [x for x in fn.walk() if x['k'] == 'ForStmt']
        rg = loop_range(fn, loops[0]) if len(loops) == 1 else None
        if rg is None:
            raise AnalysisBroken('%s: row scan not recognised' % fn.qname)
        var, lo, hi = rg
        if lo != K or hi != R:
            probs.append('the scan of A[r, j] runs over j in [%s, %s), the reduced column needs [%s, %s): entries are left out of sigma' % (show(lo), show(hi), pn[0], pn[1]))
        reads = [sym(fn, x, inline=False) for x in fn.walk(loops[0]['body']) if x['k'] == 'CXXMemberCallExpr' and x.get('callee') == 'coeff']
        if not reads or any(t[-2:] != (R, ('L', var)) for t in reads):
            probs.append('the row scan does not read A[r, j]')
        calls = [x for x in fn.walk() if x['k'] == 'CXXMemberCallExpr' and x.get('callee') == 'find_lambda']
        okc = len(calls) == 1
        if okc:
            a = [sym(fn, y, inline=False) for y in fn.call_args(calls[0])]
            g = [anc for anc in fn.ancestors(calls[0]) if anc['k'] == 'IfStmt']
            okc = a == [R, P] and len(g) == 1 and sym(fn, g[0]['cond'], inline=False) == ('<', R, ('-', ('F', 'm_n'), ('lit', '1'))) and fn.within(calls[0], g[0]['then'])
        if not okc:
            probs.append('the stored part of column r is not scanned exactly when r < n - 1')
        ctx.check(not probs, rule, 'BKLDLT::find_sigma', fn.qname,
                  'sigma = max over the stored column part (r < n - 1) and over A[r, j], j in [k, r)' if not probs else '; '.join(probs))
    for fn in ctx.F.insts('Spectra::BKLDLT::find_lambda'):
        n += 1
        pn = [fn.locals[v]['name'] for v in fn.params]
        probs = []
        decl = {}
        for x in fn.walk():
            if x['k'] == 'DeclStmt':
                for d in x['decls']:
                    if 'init' in d:
                        decl[fn.locals[d['var']]['name']] = sym(fn, d['init'], inline=False)
        loops = [x for x in fn.walk() if x['k'] == 'ForStmt']
        head = [k_ for k_, v in decl.items() if v == ('col_pointer', ('this',), ('P', pn[0]))]
        end = [k_ for k_, v in decl.items() if v == ('col_pointer', ('this',), ('+', ('P', pn[0]), ('lit', '1')))]
        if len(loops) != 1 or len(head) != 1 or len(end) != 1:
            raise AnalysisBroken('%s: column scan not recognised (%s)' % (fn.qname, decl))
        lp = loops[0]
        init = fn.node(lp['init'])
        pv = fn.locals[init['decls'][0]['var']]['name']
        start = sym(fn, init['decls'][0]['init'], inline=False)
        cond = sym(fn, lp['cond'], inline=False)
        inc = sym(fn, lp['inc'], inline=False)
        first = [v for k_, v in decl.items() if v[0] == 'call' and v[1] == 'abs' and v[2] == ('[]', ('L', head[0]), ('lit', '1'))]
        if not first:
            probs.append('the scan does not start with the first sub-diagonal entry A[k+1, k]')
        if start != ('+', ('L', head[0]), ('lit', '2')) or cond not in (('<', ('L', pv), ('L', end[0])), ('!=', ('L', pv), ('L', end[0])), ('!=', ('L', end[0]), ('L', pv))) or inc != ('u++', ('L', pv)):
            probs.append('the scan does not continue from A[k+2, k] to the end of column k (start %s, condition %s)' % (show(start), show(cond)))
        asg = [sym(fn, x, inline=False) for x in fn.walk() if x['k'] == 'BinaryOperator' and x.get('op') == '=']
        if ('=', ('P', pn[1]), ('+', ('P', pn[0]), ('lit', '1'))) not in asg:
            probs.append('the row index does not start at k + 1')
        ctx.check(not probs, rule, 'BKLDLT::find_lambda', fn.qname,
                  'lambda = max over rows k+1 .. n-1 of column k (first entry, then a walk to the end of the column)' if not probs else '; '.join(probs))
    if n < 4:
        raise AnalysisBroken('pivot searches: only %d instantiations analysed' % n)


def packed_data_normalised(ctx, rule='factorized-matrix-normalised'):
    """The Bunch-Kaufman pivot tests compare PRODUCTS of two entries (sigma |a_kk| < alpha lambda^2): for entries below the
    square root of the smallest normal number both sides underflow to zero (a tiny diagonal entry is then accepted as a pivot without
    interchange; [0 t; t 0] with t = 1e-170 is reported singular), above the square root of the largest both overflow to infinity
    (no interchange at all: unpivoted LDL' with unbounded multipliers).  The residual bound the property states is scale invariant, so
    the factorization must be too: compute() divides the packed copy by its largest magnitude before the first pivot test (on every
    normal path), and solve_inplace() scales the solution by the same factor.  The clause is armed by finding the degree-2
    comparisons in the pivoting member."""
    from . import paths
    fns = [f for f in ctx.F.concrete() if f.cls == 'Spectra::BKLDLT' and f.cfg]
    recs = sorted(set(f.record for f in fns))
    n = 0
    for rec in recs:
        ms = {}
        for g in fns:
            if g.record == rec:
                ms.setdefault(g.name, []).append(g)
        pm = ms.get('permutate_mat', [None])[0]
        if pm is None:
            raise AnalysisBroken('%s::permutate_mat not analysed' % rec)
        # products of two magnitudes on one side of a comparison
        deg2 = []
        mags = set()
        for x in pm.walk():
            if x['k'] == 'DeclStmt':
                for d in x['decls']:
                    if 'init' in d and 'var' in d:
                        t = show(sym(pm, d['init'], inline=False))
                        if t.startswith('abs(') or 'find_lambda' in t or 'find_sigma' in t:
                            mags.add(pm.locals[d['var']]['name'])
        for x in pm.walk():
            if x['k'] == 'BinaryOperator' and x.get('op') in ('<', '<=', '>', '>='):
                for side in x['c']:
                    t = sym(pm, side, inline=False)
                    if t[0] == '*' and sum(1 for u in t[1:] if u[0] == 'L' and u[1] in mags) >= 2:
                        deg2.append(pm.s(x)[:50])
        if not deg2:
            ctx.ok(rule, rec.replace('Spectra::', '').split('<')[0] + '/pivot-tests', rec, 'no pivot test multiplies two magnitudes (quotient form, as in LAPACK): the normalisation is not demanded, '
                   'but a normalisation that IS made must be undone consistently (below)')
            deg2 = None
        inst = rec.replace('Spectra::', '').split('<')[0]
        for comp in ms.get('compute', []):
            n += 1
            # a whole-array scaling of the packed data by a factor derived from the magnitudes of its own entries
            scal = []
            for x in comp.walk():
                if x['k'] in ('CXXOperatorCallExpr', 'CompoundAssignOperator') and x.get('op') in ('*=', '/='):
                    a = comp.call_args(x) if x['k'] == 'CXXOperatorCallExpr' else [comp.nodes[c] for c in x['c']]
                    if comp.field_name(comp.strip(a[0])) == 'm_data':
                        scal.append((x, sym(comp, a[1], inline=False)))
            pcs = [c for c in comp.walk() if c['k'] == 'CXXMemberCallExpr' and c.get('callee') == 'permutate_mat']
            probs = []
            if not scal:
                if deg2 is None:
                    ctx.ok(rule, inst + '::compute', comp.qname, 'no normalisation and none needed')
                    continue
                probs.append('the packed copy is never scaled')
            else:
                x0, f0 = scal[0]
                fld = [u for u in atoms(f0) if isinstance(u, tuple) and u[0] == 'F']
                if len(fld) != 1:
                    probs.append('the scaling factor %s is not derived from one member' % show(f0))
                else:
                    F_ = fld[0]
                    # the member is assigned from max / abs of entries of m_data before the scaling
                    src = [sym(comp, y['c'][1]) for y in comp.walk() if y['k'] == 'BinaryOperator' and y.get('op') == '=' and sym(comp, y['c'][0], inline=False) == F_]
                    if not any('m_data' in show(t_) and 'max' in show(t_) and 'abs' in show(t_) for t_ in src):
                        probs.append('%s is not the largest magnitude of the packed entries (%s)' % (F_[1], [show(t_)[:50] for t_ in src]))
                    for pc in pcs:
                        if paths.search(comp, [], stop=lambda n_: n_['id'] == x0['id'], target=lambda n_: n_['id'] == pc['id'], include_entry=True, feas=False) is not None:
                            # the scaling may legitimately be skipped when the largest magnitude is 0 or not finite: accept a guard on that member
                            g_ok = any(F_ in atoms(sym(comp, c_, inline=False)) for c_, _ in paths.enclosing_assumptions(comp, x0))
                            if not g_ok:
                                probs.append('the first pivot test can be reached without the scaling')
                    # the solution is scaled back by the same member
                    for sv in ms.get('solve_inplace', []):
                        back = [y for y in sv.walk() if y['k'] in ('CXXOperatorCallExpr', 'CompoundAssignOperator') and y.get('op') in ('*=', '/=') and
                                F_ in atoms(sym(sv, (sv.call_args(y) if y['k'] == 'CXXOperatorCallExpr' else [sv.nodes[c] for c in y['c']])[1], inline=False))]
                        def _dir(node, f_):
                            a_ = sv_.call_args(node) if node['k'] == 'CXXOperatorCallExpr' else [sv_.nodes[c] for c in node['c']]
                            r_ = sym(sv_, a_[1], inline=False)
                            while isinstance(r_, tuple) and r_[0] in ('cast', 'ctor', 'paren') and len(r_) >= 2:
                                r_ = r_[-1]
                            recip = isinstance(r_, tuple) and r_[0] == '/' and f_ in atoms(r_[2]) and f_ not in atoms(r_[1])
                            return 'div' if (node.get('op') == '*=' and recip) or (node.get('op') == '/=' and not recip) else 'mul'
                        sv_ = comp
                        d_data = _dir(x0, F_)
                        sv_ = sv
                        if back and any(_dir(y, F_) != d_data for y in back):
                            probs.append('solve_inplace scales by %s in the other direction than compute() scales the packed copy: (A / s) x = b / s needs the same factor on both' % F_[1])
                        # ... and it is the RIGHT-HAND SIDE that is scaled, before the substitutions: the solution of (A / s) y = b is
                        # s x, which overflows for max|a_ij| |x_i| above realmax although x itself is representable
                        loops_ = [l_ for l_ in sv.walk() if l_['k'] in ('ForStmt', 'WhileStmt')]
                        if back and loops_ and d_data == 'div' and not all(y['l'] < min(l_['l'] for l_ in loops_) for y in back):
                            probs.append('solve_inplace scales the SOLUTION by 1 / %s after the substitutions instead of the right-hand side before them: the intermediate vector is %s * x, which overflows '
                                         '(A = diag(1e200, 1), b = (1, 1e110): x = (1e-200, 1e110) is returned as (NaN, inf))' % (F_[1], F_[1]))
                        ids = set(y['id'] for y in back)
                        if not back or paths.search(sv, [], stop=lambda n_: n_['id'] in ids, target=lambda n_: n_['k'] == 'ReturnStmt', include_entry=True,
                                                    exit_is_target=lambda b: True, normal_only=True) is not None:
                            probs.append('solve_inplace does not scale the solution by %s on every normal path' % F_[1])
            ctx.check(not probs, rule, inst + '::compute', comp.qname,
                      'the packed copy is divided by its largest magnitude before the first pivot test and the solve is scaled consistently by the same member%s' % ('' if deg2 is None else ' (the pivot tests multiply two magnitudes: %s)' % deg2[0])
                      if not probs else '%s although the factorization works on a normalised copy / the pivot tests multiply two magnitudes (`%s`): both sides underflow to 0 for entries below about 1e-162 (3e-23 in float) -- a nonsingular [0 t; t 0] is '
                      'reported singular, a tiny diagonal entry is accepted as pivot -- and overflow above about 1e154 (2e19 in float), where no interchange happens at all' % ('; '.join(probs), (deg2 or ['-'])[0]))
    if n < 1:
        raise AnalysisBroken('BKLDLT::compute not analysed')


def run(ctx):
    pivot_search_coverage(ctx)
    from . import c06
    c06.recompute_complete(ctx, only=(('Spectra::BKLDLT', 'compute'), ('Spectra::DenseSymShiftSolve', 'set_shift')))
    status_assigned(ctx)
    pivot_guards(ctx)
    pivot_candidate_tested(ctx)
    callers_check_status(ctx)
    copy_data_triangle(ctx)
    packed_data_normalised(ctx)
    no_vector_by_complex_division(ctx)
    # the solve applies the block structure the factorization recorded: sign string of the permutation array in (P | NN)*,
    # and every sign-directed scan of solve_inplace meets it aligned (rules/blockscan.py; the index proofs built on it are C13-D15)
    from . import blockscan
    blockscan.writers(ctx, 'solve-follows-recorded-block-structure')
    blockscan.compressed_list(ctx, 'solve-follows-recorded-block-structure')
    blockscan.readers(ctx, None, 'solve-follows-recorded-block-structure', discipline_only=True)


def no_vector_by_complex_division(ctx, rule='no-element-wise-division-by-a-complex-scalar'):
    """Eigen evaluates (vector expression) / z for a complex scalar z element-wise as x * conj(z) / |z|^2 (vectorised complex
    quotient): |z|^2 underflows to 0 for |z| below 1e-162 (3e-23 in float) -- a tiny but perfectly good pivot of a graded
    Hermitian matrix -- and every entry becomes NaN while info() stays Successful.  A scalar quotient z1 / z2 goes through the
    C library's scaled division and is safe; so the factorization must divide vectors through the reciprocal (x * (1 / z)) or by
    a real number.  Decided on the complex instantiations of BKLDLT by the static types of the operands."""
    n = 0
    found_complex = False
    seen = set()
    for fn in ctx.F.concrete():
        if fn.cls != 'Spectra::BKLDLT' or not fn.cfg or 'complex' not in fn.record or fn.mangled in seen:
            continue
        seen.add(fn.mangled)
        found_complex = True
        bad = []
        for x in fn.walk():
            if x['k'] not in ('CXXOperatorCallExpr', 'CompoundAssignOperator', 'BinaryOperator') or x.get('op') not in ('/', '/='):
                continue
            a = fn.call_args(x) if x['k'] == 'CXXOperatorCallExpr' else [fn.nodes[c] for c in x['c']]
            if len(a) < 2:
                continue
            t0 = (a[0].get('type') or a[0].get('t') or '')
            t1 = (a[1].get('type') or a[1].get('t') or '')
            n += 1
            if 'Eigen::' in t0 and 'std::complex' in t1 and 'Eigen::' not in t1:
                bad.append(fn.s(x)[:50])
        if bad:
            ctx.fail(rule, 'BKLDLT::%s' % fn.name, fn.qname,
                     '%s divide(s) a vector expression by a complex scalar element-wise: the squared modulus of a pivot below 1e-162 (3e-23 in float) underflows, the column '
                     'becomes NaN and solve() returns NaN with info() == Successful' % '; '.join('`%s`' % b for b in bad[:4]))
        elif any(x['k'] in ('CXXOperatorCallExpr', 'CompoundAssignOperator', 'BinaryOperator') and x.get('op') in ('/', '/=') for x in fn.walk()):
            ctx.ok(rule, 'BKLDLT::%s' % fn.name, fn.qname, 'every division is scalar by scalar, or by a real number')
    if not found_complex or n < 10:
        raise AnalysisBroken('complex instantiation of BKLDLT not analysed (%d divisions seen)' % n)
