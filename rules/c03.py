"""C03 -- generalized symmetric solvers: pencil eigenpairs, B-orthonormal vectors (structural clauses)."""
from .facts import AnalysisBroken
from . import factorization as fz, c04, c11, paths, eigsbase
from .sym import sym, show

EXPLANATION = (
    'Table agreement, who-may-call, abstract evaluation and ownership rules over the instantiated generalized solvers (all five '
    'modes, dense and sparse pairings). Decides: (D1) mode table: each mode derives from the solver base with the documented '
    '(operator adaptor, inner-product operator) pair -- Cholesky: (L^-1 A L^-T, identity) and BOTH eigenvector accessors solve '
    'with L^T for every returned column; regular inverse: (B^-1 A, B); shift-invert / buckling / Cayley: the mode\'s adaptor with '
    'the user\'s B (K in buckling mode) as inner product; the Cholesky / regular-inverse adaptors compose the documented solves '
    'in the documented order; (D2) every inner product and norm inside the factorization goes through the adaptor, which applies '
    'B exactly once to the right argument (shared with C07); (D3) the spectral map of each shift adaptor equals the documented one '
    'and the solver\'s back-transformation inverts it (shared with C04: eigenvalues are reported in the user\'s pencil); the '
    'matrix A - sigma*B handed to the factorization is assembled from the triangles the user named (shared with C11); (D4) an '
    'operator passed as rvalue is moved into a container member declared before the reference member that is bound to the '
    'container\'s element and before the factorization member that is built from that reference (no dangling operator). '
    '(D5) the stored matrix of a wrapper with a triangle option is consumed only by triangle views, triangle-aware factorizations, '
    'size queries or element access (shared with C11). '
    'Every reader of the stored Ritz values / estimates / vectors in compute() is preceded on every path from entry by the member that rebuilds them from H under the selection rule of this call (a compute() that follows another compute() never works on the re-ordered, possibly back-transformed values the earlier call left). Does NOT decide residual sizes, B-orthonormality level, or the effect of conditioning.')
ASSUMPTIONS = c04.ASSUMPTIONS + ['DenseCholesky / SparseCholesky solve with the factor of the matrix they were given (C11)']

MODE_TABLE = {
    # mode: (adaptor template, inner-product operator: 'identity' | 'B')
    'Cholesky': ('Spectra::SymGEigsCholeskyOp', 'identity'),
    'RegularInverse': ('Spectra::SymGEigsRegInvOp', 'B'),
    'ShiftInvert': ('Spectra::SymGEigsShiftInvertOp', 'B'),
    'Buckling': ('Spectra::SymGEigsBucklingOp', 'B'),
    'Cayley': ('Spectra::SymGEigsCayleyOp', 'B'),
}


def mode_table(ctx, rule='mode-uses-documented-operator-pair'):
    modes = {x['val']: x['name'] for x in ctx.F.enums['Spectra::GEigsMode']['enumerators']}
    seen = set()
    for tmpl in ('Spectra::SymGEigsSolver', 'Spectra::SymGEigsShiftSolver'):
        for rec in ctx.F.records_of(tmpl, dep=False):
            if len(rec['targs']) < 3:
                continue
            mode = modes.get(rec['targs'][2])
            if mode is None:
                continue
            seen.add(mode)
            want_ad, want_ip = MODE_TABLE[mode]
            problems = []
            if len(rec['bases']) != 1 or rec['bases'][0]['tmpl'] != 'Spectra::HermEigsBase':
                problems.append('does not derive from the Hermitian solver base')
            else:
                bt = rec['bases'][0]['type']
                from .c11 import split_targs
                _, bargs = split_targs(bt)
                if len(bargs) != 2:
                    problems.append('base has %d template arguments' % len(bargs))
                else:
                    if not bargs[0].startswith(want_ad + '<'):
                        problems.append('iterates with %s, not with %s' % (bargs[0].split('<')[0], want_ad))
                    bop_user = rec['targs'][1]
                    if want_ip == 'identity' and bargs[1] != 'Spectra::IdentityBOp':
                        problems.append('inner product is %s, expected the identity (similarity-transformed problem)' % bargs[1][:50])
                    if want_ip == 'B' and bargs[1] != bop_user:
                        problems.append('inner product operator is %s, not the user\'s B operator %s' % (bargs[1][:50], bop_user[:50]))
            ctx.check(not problems, rule, '%s<%s>' % (tmpl.replace('Spectra::', ''), mode), rec['qname'],
                      '(%s, %s inner product)' % (want_ad.replace('Spectra::', ''), want_ip) if not problems else '; '.join(problems))
    if seen != set(MODE_TABLE):
        raise AnalysisBroken('generalized modes instantiated: %s (all five expected)' % sorted(seen))


def cholesky_vectors(ctx, rule='cholesky-eigenvectors-back-substituted'):
    n = 0
    for fn in ctx.F.concrete():
        if fn.cls != 'Spectra::SymGEigsSolver' or fn.name != 'eigenvectors':
            continue
        n += 1
        if len(fn.params) == 1:
            problems = []
            from .eigsbase import loop_range
            loops = [x for x in fn.walk() if x['k'] == 'ForStmt']
            solves = [x for x in fn.walk() if x['k'] == 'CXXMemberCallExpr' and x.get('callee') == 'upper_triangular_solve']
            if len(solves) != 1 or len(loops) != 1 or not fn.within(solves[0], loops[0]['body']):
                problems.append('no L^T solve per column')
            else:
                rg = loop_range(fn, loops[0])
                res = [sym(fn, r['value'], inline=False) for r in fn.walk() if r['k'] == 'ReturnStmt']
                d = {fn.locals[dd['var']]['name']: sym(fn, dd['init'], inline=False) for x in fn.walk() if x['k'] == 'DeclStmt' for dd in x['decls'] if 'init' in dd}
                if not rg or rg[1] != ('lit', '0'):
                    problems.append('column loop does not start at 0')
                else:
                    hi = rg[2]
                    hi_def = d.get(hi[1]) if hi[0] == 'L' else None
                    if not (hi_def and hi_def[0] == 'cols' and hi_def[1] == res[0]):
                        problems.append('loop does not cover every returned column')
                    a = [sym(fn, y, inline=False) for y in fn.call_args(solves[0])]
                    # input: column i of the result; output copied back into column i
                    if not (show(a[0]).replace(' ', '') in ('&%s(0,%s)' % (show(res[0]), rg[0]), 'u&(%s(0,%s))' % (show(res[0]), rg[0])) or (a[0][0] == 'u&' and a[0][1][0] == '()' and a[0][1][1] == res[0] and a[0][1][3] == ('L', rg[0]))):
                        problems.append('solve input is %s, not column i of the result' % show(a[0]))
                    back = [sym(fn, y, inline=False) for y in fn.walk(loops[0]['body']) if y['k'] in ('CXXOperatorCallExpr',) and y.get('op') == '=']
                    if not any(b[1] == ('col', res[0], ('L', rg[0])) for b in back):
                        problems.append('solved column is not stored back')
                bc = [x for x in fn.walk() if x['k'] == 'CXXMemberCallExpr' and x.get('callee') == 'eigenvectors' and x.get('cls') == 'Spectra::HermEigsBase']
                if len(bc) != 1:
                    problems.append('does not start from the base eigenvectors')
            ctx.check(not problems, rule, 'SymGEigsSolver<Cholesky>::eigenvectors(nvec)', fn.qname,
                      'every returned column is L^-T times the column of the transformed problem' if not problems else '; '.join(problems))
        else:
            rets = [sym(fn, r['value'], inline=False) for r in fn.walk() if r['k'] == 'ReturnStmt']
            calls = [x for x in fn.walk() if x['k'] == 'CXXMemberCallExpr' and x.get('callee') == 'eigenvectors']
            ok = len(calls) == 1 and calls[0].get('cls') == 'Spectra::SymGEigsSolver' and len(fn.call_args(calls[0])) == 1
            ctx.check(ok, rule, 'SymGEigsSolver<Cholesky>::eigenvectors()', fn.qname,
                      'forwards to the back-substituting overload' if ok else 'returns the vectors of the transformed problem (not back-substituted): %s' % [show(r) for r in rets])
    if n < 4:
        raise AnalysisBroken('only %d Cholesky eigenvector accessors analysed' % n)
    # adaptors: Cholesky = L^-1 A L^-T, regular inverse = B^-1 A (order of the calls on the buffers)
    for fn in ctx.F.concrete():
        if fn.name != 'perform_op' or fn.cls not in ('Spectra::SymGEigsCholeskyOp', 'Spectra::SymGEigsRegInvOp'):
            continue
        calls = [(sym(fn, fn.call_object(x), inline=False), x.get('callee'), [sym(fn, y, inline=False) for y in fn.call_args(x)]) for x in fn.walk()
                 if x['k'] == 'CXXMemberCallExpr' and x.get('org') == 'S']
        pn = [fn.locals[v]['name'] for v in fn.params]
        X, Y, Cc = ('P', pn[0]), ('P', pn[1]), ('data', ('F', 'm_cache'))
        if fn.cls == 'Spectra::SymGEigsCholeskyOp':
            want = [(('F', 'm_Bop'), 'upper_triangular_solve', [X, Y]), (('F', 'm_op'), 'perform_op', [Y, Cc]), (('F', 'm_Bop'), 'lower_triangular_solve', [Cc, Y])]
            desc = 'y = L^-1 A L^-T x'
        else:
            want = [(('F', 'm_op'), 'perform_op', [X, Cc]), (('F', 'm_Bop'), 'solve', [Cc, Y])]
            desc = 'y = B^-1 A x'
        ok = calls == want
        ctx.check(ok, rule, fn.cls.replace('Spectra::', '') + '::perform_op', fn.qname, desc if ok else
                  'composition is %s' % [(show(o), c, [show(a) for a in aa]) for o, c, aa in calls])


def rvalue_operator_lifetime(ctx, rule='moved-operator-outlives-its-references'):
    n = 0
    for fn in ctx.F.concrete():
        if fn.cls != 'Spectra::HermEigsBase' or not fn.d.get('ctor'):
            continue
        p0 = fn.locals[fn.params[0]]
        if not p0['type'].endswith('&&'):
            continue
        n += 1
        rec = [r for r in ctx.F.records.values() if r['qname'] == fn.record and not r['dep']][0]
        order = [f['name'] for f in rec['fields']]
        inits = {i['member']: i['expr'] for i in fn.inits}
        problems = []
        cont = [f['name'] for f in rec['fields'] if f['type'].startswith('std::vector<')]
        refs = [f['name'] for f in rec['fields'] if f.get('ref') and f['type'].startswith('const ') and 'ArnoldiOp' not in f['type']]
        facs = [f['name'] for f in rec['fields'] if f['type'].startswith('Spectra::Lanczos<') or f['type'].startswith('Spectra::Arnoldi<')]
        if len(cont) != 1 or len(refs) != 1 or len(facs) != 1:
            raise AnalysisBroken('%s: container / reference / factorization members not identified' % fn.record)
        c, r, f = cont[0], refs[0], facs[0]
        if not (order.index(c) < order.index(r) < order.index(f)):
            problems.append('declaration order is %s: the reference or the factorization is initialised before the container' % [x for x in order if x in (c, r, f)])
        pname = p0['name']

        def mentions_param(e):
            return any(m[0] == 'param' and m[1] == pname for m in fn.mentions(e))

        def mentions_field(e, fld):
            return any(m[0] == 'field' and m[1] == fld for m in fn.mentions(e))
        if c not in inits or not mentions_param(inits[c]):
            problems.append('the rvalue operator is not moved into %s' % c)
        if r not in inits or not mentions_field(inits[r], c) or mentions_param(inits[r]):
            problems.append('%s is not bound to the element of %s (binding to the expiring argument dangles)' % (r, c))
        if f not in inits or mentions_param(inits[f]) or not mentions_field(inits[f], r):
            problems.append('%s is built from the constructor argument instead of the member %s' % (f, r))
        for other, e in inits.items():
            if other not in (c,) and mentions_param(e):
                problems.append('%s is initialised from the moved-from argument' % other)
        ctx.check(not problems, rule, 'HermEigsBase::ctor(OpType&&)', fn.qname,
                  'argument moved into %s; %s bound to its element; %s built from %s; declared in that order' % (c, r, f, r) if not problems else '; '.join(sorted(set(problems))))
    if n < 5:
        raise AnalysisBroken('only %d rvalue-operator constructors analysed' % n)


def run(ctx):
    mode_table(ctx)
    cholesky_vectors(ctx)
    fz.no_direct_reduction(ctx)
    fz.adaptor_agreement(ctx)
    maps = c04.spectral_maps(ctx)
    c04.back_transforms(ctx, maps)
    c11.shift_invert_typestate(ctx)
    c11.stored_matrix_consumers(ctx)
    rvalue_operator_lifetime(ctx)
    eigsbase.ritz_data_of_current_call(ctx, 'Spectra::HermEigsBase')
    # every solver constructed on an operation object re-factorizes it (set_shift): the factorization used by this solver is a
    # function of (A, B, sigma) alone -- nothing of an earlier shift on the same object survives
    from . import c06
    c06.recompute_complete(ctx, only=(('Spectra::BKLDLT', 'compute'), ('Spectra::SymShiftInvert', 'set_shift')))
