"""C08 -- shifted QR helpers: agreement of every rotation consumer with the rotation generator (structural clauses only)."""
from .facts import AnalysisBroken
from .sym import sym, show
from .poly import Poly, from_term, Unsupported

EXPLANATION = (
    'Sibling agreement over the instantiated UpperHessenbergQR / TridiagQR members, convention-free. The GENERATOR is '
    'UpperHessenbergQR::compute(): it calls the rotation routine on (R[i,i], R[i+1,i]), stores two of its outputs in the two '
    'rotation arrays and replaces rows (i, i+1) of R by a 2x2 combination P of the old rows; P, as a matrix over the symbols '
    '(c, s) = (4th, 5th output of the rotation routine), is READ from that code, not assumed. Decided: (D1) P P\' = I as '
    'polynomials modulo c^2 + s^2 = 1, and the annihilated pair is overwritten by (r, 0); (D2) in the sign domain, on all nine '
    'sign combinations of (x, y), the rotation routine returns r >= 0 and (c, s) such that row 2 of P applied to (x, y) '
    'cancels and row 1 has no negative term -- necessary for P [x; y] = [r; 0], i.e. for R being upper triangular and '
    'Q R = H - s I; the magnitude helper is called with the larger magnitude first and its a/r and b/r outputs are bound to the '
    'outputs matching x and y; (D3) every consumer reads c / s from the array the generator stored them in, at index i, and '
    'has the side (rows / columns), traversal order and 2x2 pattern that its name demands GIVEN P: Q\'Y = rows, ascending, P; '
    'Q Y = rows, descending, P\'; Y Q = columns, ascending, right-multiplication by P\'; Y Q\' = columns, descending, '
    'right-multiplication by P; R Q (matrix_QtHQ) as Y Q, started from R, shift added to the diagonal afterwards; compute() '
    'subtracts the shift from the diagonal before rotating; (D4) TridiagQR::compute() binds the same arrays to the same outputs '
    '(pointer walk advanced exactly once per iteration) and its band updates of R[i..i+1, i+1..i+2] are, as polynomials, the '
    'entries of P applied to those rows; (D5) TridiagQR::matrix_QtHQ(): its closed formulas for the entries of the 3x3 block, '
    'expanded as polynomials over (c, s, x, y, z, w), are identical to the entries of (P (+) 1) T_i (P (+) 1)\' for the '
    'symmetric tridiagonal block T_i, and the look-ahead update of the sub-diagonal is row 1 of P_{i+1} on (y\', o\'). A consistent '
    'change of convention (sign of s, transposed G, swapped arrays) leaves every obligation discharged; an inconsistent one breaks '
    'Q\'HQ / the apply methods and is reported. Double-shift class: (D6) each branch of apply_PX (matrix and vector) and apply_XP, '
    'executed symbolically for every (reflector size, block size) case, maps each entry x_k to x_k - 2 u_k (u . x) as a '
    'polynomial and is the identity for a size-1 reflector; (D7) the vector handed to the first reflector of a block equals, as '
    'polynomials in the block entries, the first column of X^2 - s X + t I for Hessenberg X, in both block-size branches; (D8) the '
    'sign rho is -sign(x1) (+1 at 0) so x1 - rho |x| never cancels, u = (x1 - rho |x|, x2, x3), and on all 27 orderings of the three '
    'magnitudes the scaling helper receives the largest entry first; (D9) in update_block every application of reflector k is '
    'dominated by compute_reflector(.., k), left blocks start at row k and right blocks at column k, row 0; apply_QtY / apply_YQ '
    'apply the reflectors in ascending order at offset = index (Q = P0 P1 ...). (D10) row / column copies used inside the loops are '
    'refreshed on every path of an iteration; (D11) every square root in the helpers is taken of a scaled quantity (1 + ratios), '
    '(D12) matrix_QtHQ writes the whole output matrix on every normal path; (D13) compute_reflector assigns all three stored entries '
    'on every path that records a size other than 1 (the vector applier reads the third entry unconditionally); '
    'never of a raw sum of squares (overflow / underflow of the squares for entries near the thresholds). NOT decided: orthogonality, Q R = H - s I and Q\'HQ to n*eps (rounding), the '
    'Taylor branches of the magnitude helpers, deflation thresholds and block splitting (index safety of the blocks is C13). '
    'Those clauses of the property remain undecided by this technique.'
    ' (D14) every magnitude helper that chooses between a closed form and a truncated series (the Givens helper; stable_norm3 and the '
    'three-component scaling of DoubleShiftQR): both branches are expanded as exact rational power series; the closed form is the documented '
    'function and the series branch is the beginning of its Maclaurin series with a remainder below eps/4 at the cutoff read from the code.')
ASSUMPTIONS = ['column-major storage of Eigen::Matrix (Rii[1] is the entry below Rii[0]; p + m_n is the same row of the next column)',
               'magnitude helper contract as documented: for a >= b > 0 returns r > 0, out4 = a / r > 0, out5 = b / r > 0']

C, S = Poly.atom('c'), Poly.atom('s')
COEF = {'c': C, '-c': -C, 's': S, '-s': -S}


def _name(p):
    for k, v in COEF.items():
        if v == p:
            return k
    return str(p)


def _T(M):
    return ((M[0][0], M[1][0]), (M[0][1], M[1][1]))


def _show(M):
    return '[%s %s; %s %s]' % (_name(M[0][0]), _name(M[0][1]), _name(M[1][0]), _name(M[1][1]))


class Plane:
    """The plane update performed by one member: outer loop over i, two assignments replacing slots i / i+1."""

    def __init__(self, fn, array_role=None):
        self.fn = fn
        self.problems = []
        self.M = None
        self.side = None
        self.direction = None
        self.array_role = array_role      # {'m_rot_cos': 'c' | 's', ...} or None for the generator
        self.stored = {}
        self._run()

    def _run(self):
        fn = self.fn
        outer = None
        for lp in fn.walk():
            if lp['k'] == 'ForStmt' and not any(a['k'] == 'ForStmt' for a in fn.ancestors(lp)):
                outer = lp            # the last top-level loop is not needed: every member has exactly one
                break
        if outer is None:
            self.problems.append('no loop over the rotations')
            return
        self.outer = outer
        init = fn.node(outer.get('init', -1))
        if init is None or init['k'] != 'DeclStmt' or len(init['decls']) != 1:
            self.problems.append('loop counter not recognised')
            return
        ivar = fn.locals[init['decls'][0]['var']]['name']
        lo = sym(fn, init['decls'][0]['init'], inline=False)
        inc = sym(fn, outer['inc'], inline=False)
        cond = sym(fn, outer['cond'], inline=False)
        I, I1 = ('L', ivar), ('+', ('L', ivar), ('lit', '1'))
        self.I, self.I1 = I, I1
        if inc == ('u++', I) and lo == ('lit', '0') and cond[0] == '<' and cond[1] == I:
            self.direction = 'asc'
        elif inc == ('u--', I) and cond == ('<=', ('lit', '0'), I) and lo == ('-', ('F', 'm_n'), ('lit', '2')):
            self.direction = 'desc'
        else:
            self.direction = '?'
        role = {}
        ptr_slot, copy_slot, sides = {}, {}, set()
        body = list(fn.walk(outer['body']))
        # generator: roles come from the positions in the rotation call
        for x in body:
            if x['k'] in ('CallExpr', 'CXXMemberCallExpr') and x.get('callee') == 'compute_rotation':
                a = [sym(fn, y, inline=False) for y in fn.call_args(x)]
                if len(a) == 5 and a[3][0] == 'L' and a[4][0] == 'L':
                    role[a[3][1]] = 'c'
                    role[a[4][1]] = 's'
                    self.rot_call = a
        for x in body:
            if x['k'] == 'DeclStmt':
                for d in x['decls']:
                    if 'init' not in d:
                        continue
                    t = sym(fn, d['init'], inline=False)
                    nm = fn.locals[d['var']]['name']
                    if t[0] == 'coeff' and len(t) == 3 and t[1][0] == 'F' and t[2] == I and self.array_role and t[1][1] in self.array_role:
                        role[nm] = self.array_role[t[1][1]]
            if x['k'] in ('BinaryOperator', 'CXXOperatorCallExpr') and x.get('op') == '=':
                t = sym(fn, x, inline=False)
                if t[1][0] == 'coeffRef' and len(t[1]) == 3 and t[1][1][0] == 'F' and t[1][2] == I and t[2][0] == 'L' and t[2][1] in role:
                    self.stored[t[1][1][1]] = role[t[2][1]]
        self.role = role
        if sorted(role.values()) != ['c', 's']:
            self.problems.append('the two rotation coefficients of step i were not identified (%s)' % (role or 'none read from the rotation arrays at index i'))
            return
        for x in body:
            if x['k'] in ('BinaryOperator', 'CXXOperatorCallExpr') and x.get('op') == '=':
                t = sym(fn, x, inline=False)
                lhs, rhs = t[1], t[2]
                if lhs[0] == 'L' and isinstance(rhs, tuple):
                    if rhs[0] == 'u&' and rhs[1][0] == 'coeffRef' and len(rhs[1]) == 4:
                        r_, c_ = rhs[1][2], rhs[1][3]
                        if r_ == ('lit', '0') and c_ in (I, I1):
                            ptr_slot[lhs[1]] = ('col', 'a' if c_ == I else 'b')
                        elif r_ == I and c_ == I:
                            ptr_slot[lhs[1]] = ('diag', 'a')
                    elif rhs[0] == '+' and len(rhs) == 3 and ('F', 'm_n') in rhs[1:] and any(o[0] == 'L' and o[1] in ptr_slot for o in rhs[1:]):
                        base = ptr_slot[[o for o in rhs[1:] if o[0] == 'L'][0][1]]
                        ptr_slot[lhs[1]] = ('col', 'b') if base == ('col', 'a') else ('rowwalk', 'a') if base[0] == 'diag' else ('?', '?')
                    elif rhs[0] in ('row', 'col') and len(rhs) == 3 and rhs[2] in (I, I1):
                        copy_slot[lhs[1]] = 'a' if rhs[2] == I else 'b'
                        sides.add(rhs[0])
                if lhs[0] == 'noalias' and lhs[1][0] == 'L' and isinstance(rhs, tuple) and rhs[0] in ('row', 'col') and len(rhs) == 3 and rhs[2] in (I, I1):
                    copy_slot[lhs[1][1]] = 'a' if rhs[2] == I else 'b'
                    sides.add(rhs[0])
            if x['k'] == 'DeclStmt':
                for d in x['decls']:
                    if 'init' in d:
                        s_ = self._slot(sym(fn, d['init'], inline=False), ptr_slot, copy_slot)
                        if s_ is not None:
                            copy_slot[fn.locals[d['var']]['name']] = s_[1]
                            if s_[0]:
                                sides.add(s_[0])
        self.ptr_slot = ptr_slot
        rows = {}
        nupd = 0
        for x in body:
            if x['k'] in ('BinaryOperator', 'CXXOperatorCallExpr') and x.get('op') == '=':
                t = sym(fn, x, inline=False)
                tgt = self._slot(t[1], ptr_slot, copy_slot)
                if tgt is None:
                    continue

                def leaf(u):
                    if u[0] == 'L' and u[1] in role:
                        return COEF[role[u[1]]]
                    sl = self._slot(u, ptr_slot, copy_slot)
                    if sl is not None:
                        if sl[0]:
                            sides.add(sl[0])
                        return Poly.atom(sl[1])
                    return None
                try:
                    p = from_term(t[2], leaf)
                except Unsupported:
                    continue
                # linear in (a, b) with coefficients in +-c, +-s ?
                ca = Poly({tuple(y for y in k if y != 'a'): v for k, v in p.t.items() if 'a' in k})
                cb = Poly({tuple(y for y in k if y != 'b'): v for k, v in p.t.items() if 'b' in k})
                if ca * Poly.atom('a') + cb * Poly.atom('b') != p or not ca.t or not cb.t:
                    continue
                nupd += 1
                rows[tgt[1]] = (ca, cb)
                if tgt[0]:
                    sides.add(tgt[0])
        if nupd != 2 or set(rows) != {'a', 'b'}:
            self.problems.append('the two plane-update assignments (slot i and slot i+1) were not recognised (%d found)' % nupd)
            return
        self.M = (rows['a'], rows['b'])
        self.side = 'col' if 'col' in sides else 'row'

    def _slot(self, t, ptr_slot, copy_slot):
        I, I1 = self.I, self.I1
        if not isinstance(t, tuple):
            return None
        if t[0] == 'L':
            return (None, copy_slot[t[1]]) if t[1] in copy_slot else None
        if t[0] in ('row', 'col') and len(t) == 3 and t[2] in (I, I1):
            return (t[0], 'a' if t[2] == I else 'b')
        if t[0] == '[]' and len(t) == 3:
            base, idx = t[1], t[2]
            if base[0] == 'L' and base[1] in ptr_slot:
                kind, sl = ptr_slot[base[1]]
                if kind == 'col':
                    return ('col', sl)
                if kind == 'rowwalk' and idx in (('lit', '0'), ('lit', '1')):
                    return ('row', 'a' if idx == ('lit', '0') else 'b')
                return None
            if base[0] == 'P' and idx in (I, I1):
                return ('row', 'a' if idx == I else 'b')
        return None


def _generator(ctx, rec):
    for fn in ctx.F.methods(rec['qname']):
        if fn.name == 'compute' and fn.cfg:
            return fn
    return None


def rotations(ctx):
    recs = ctx.F.records_of('Spectra::UpperHessenbergQR', dep=False)
    gens = {}
    for rec in recs:
        g = _generator(ctx, rec)
        if g is not None and rec['qname'] not in gens:
            gens[rec['qname']] = g
    if not gens:
        raise AnalysisBroken('UpperHessenbergQR::compute is not instantiated')
    n_cons = 0
    P_by_rec = {}
    for q, g in sorted(gens.items()):
        inst = 'UpperHessenbergQR::compute'
        pl = Plane(g)
        if not pl.problems:
            a = getattr(pl, 'rot_call', None)
            if a is None:
                pl.problems.append('no call of the rotation routine')
            elif sorted(pl.stored.items()) != [('m_rot_cos', pl.stored.get('m_rot_cos')), ('m_rot_sin', pl.stored.get('m_rot_sin'))] or sorted(pl.stored.values()) != ['c', 's']:
                pl.problems.append('the rotation arrays do not receive the two rotation outputs at index i (%s)' % pl.stored)
        if pl.problems:
            ctx.fail('generator-is-a-rotation', inst, g.qname, '; '.join(pl.problems))
            continue
        P = pl.M
        P_by_rec[q] = (P, pl.stored)
        fn = g
        probs = []
        one = Poly.const(1)
        n0 = (P[0][0] * P[0][0] + P[0][1] * P[0][1]).reduce('c', 's')
        n1 = (P[1][0] * P[1][0] + P[1][1] * P[1][1]).reduce('c', 's')
        dt = (P[0][0] * P[1][0] + P[0][1] * P[1][1]).reduce('c', 's')
        if n0 != one or n1 != one or dt.t:
            probs.append('P = %s is not orthogonal modulo c^2 + s^2 = 1' % _show(P))
        if pl.side != 'row' or pl.direction != 'asc':
            probs.append('the factorization must combine ROWS i, i+1 for ascending i (found %ss, %s)' % (pl.side, pl.direction))
        # the rotation is computed from (R[i,i], R[i+1,i]) and these are overwritten by (r, 0)
        a = pl.rot_call
        diag = [k for k, v in pl.ptr_slot.items() if v[0] == 'diag']
        defs = {}
        for x in fn.walk(pl.outer['body']):
            if x['k'] in ('BinaryOperator',) and x.get('op') == '=':
                t = sym(fn, x, inline=False)
                defs.setdefault(show(t[1]), []).append(t[2])
        def res(t):
            return defs.get(show(t), [t])[-1] if t[0] == 'L' else t
        if not diag or res(a[0]) != ('[]', ('L', diag[0]), ('lit', '0')) or res(a[1]) != ('[]', ('L', diag[0]), ('lit', '1')):
            probs.append('the rotation is not computed from (R[i,i], R[i+1,i]): arguments %s, %s' % (show(res(a[0])), show(res(a[1]))))
        else:
            w0 = defs.get(show(('[]', ('L', diag[0]), ('lit', '0'))), [])
            w1 = defs.get(show(('[]', ('L', diag[0]), ('lit', '1'))), [])
            # accepted: the known values (r, 0), or the rotation applied to the pair itself (equal to rounding)
            def row(k):
                def leaf(u):
                    if u[0] == 'L' and u[1] in pl.role:
                        return COEF[pl.role[u[1]]]
                    if res(u) == ('[]', ('L', diag[0]), ('lit', '0')) and u[0] == 'L':
                        return Poly.atom('a')
                    if res(u) == ('[]', ('L', diag[0]), ('lit', '1')) and u[0] == 'L':
                        return Poly.atom('b')
                    return None
                want = P[k][0] * Poly.atom('a') + P[k][1] * Poly.atom('b')

                def same(t):
                    try:
                        return from_term(t, leaf) == want
                    except Unsupported:
                        return False
                return same
            if a[2] not in w0 and not any(row(0)(t) for t in w0):
                probs.append('R[i,i] is not overwritten by the r output of the rotation routine (or row 1 of P on the pair)')
            if ('lit', '0') not in w1 and not any(row(1)(t) for t in w1):
                probs.append('R[i+1,i] is neither set to zero nor to row 2 of P on the pair')
        subs = [sym(fn, x, inline=False) for x in fn.walk() if x.get('op') == '-=']
        if not any(t[2] == ('F', 'm_shift') and 'diagonal' in show(t[1]) and 'm_mat_R' in show(t[1]) for t in subs):
            probs.append('the shift is not subtracted from the diagonal of the working copy before the rotations')
        ctx.check(not probs, 'generator-is-a-rotation', inst, g.qname,
                  'P = %s read from the code; orthogonal mod c^2+s^2=1; rows, ascending; (R[i,i], R[i+1,i]) -> (r, 0); shift subtracted first' % _show(P)
                  if not probs else '; '.join(probs))
        _signs(ctx, g, P)
    if not P_by_rec:
        return
    dflt = P_by_rec[sorted(P_by_rec)[0]]
    # consumers
    for rec in recs:
        P, arrays = P_by_rec.get(rec['qname'], dflt)
        PT = _T(P)
        want = {'apply_QtY': ('row', 'asc', P), 'apply_QY': ('row', 'desc', PT), 'apply_YQ': ('col', 'asc', P),
                'apply_YQt': ('col', 'desc', PT), 'matrix_QtHQ': ('col', 'asc', P)}
        for fn in ctx.F.methods(rec['qname']):
            if fn.name not in want or not fn.cfg:
                continue
            side_w, dir_w, M_w = want[fn.name]
            vec = any(fn.locals[v]['type'].startswith('Eigen::Matrix<') and ', 1, 0' in fn.locals[v]['type'] for v in fn.params)
            inst = 'UpperHessenbergQR::%s%s' % (fn.name, '(vector)' if vec and fn.name in ('apply_QY', 'apply_QtY') else '')
            n_cons += 1
            pl = Plane(fn, arrays)
            probs = list(pl.problems)
            if not probs:
                if pl.side != side_w:
                    probs.append('combines %ss, but this product acts on %ss' % (pl.side, side_w))
                if pl.direction != dir_w:
                    probs.append('applies the rotations for %s i, this product needs %s i' % ({'asc': 'ascending', 'desc': 'descending', '?': 'an unrecognised order of'}[pl.direction], 'ascending' if dir_w == 'asc' else 'descending'))
                if pl.M != M_w:
                    probs.append('2x2 pattern %s differs from %s demanded by the generator pattern P = %s' % (_show(pl.M), _show(M_w), _show(P)))
            if fn.name == 'matrix_QtHQ' and not probs:
                adds = [sym(fn, x, inline=False) for x in fn.walk() if x.get('op') == '+=']
                if not any(t[2] == ('F', 'm_shift') and 'diagonal' in show(t[1]) and 'dest' in show(t[1]) for t in adds):
                    probs.append('the shift is not added back to the diagonal of R Q')
                starts = [sym(fn, x, inline=False) for x in fn.walk() if x['k'] == 'CXXOperatorCallExpr' and x.get('op') == '=']
                if not any(t[2] == ('F', 'm_mat_R') and 'dest' in show(t[1]) for t in starts):
                    probs.append('R Q does not start from R')
            ctx.check(not probs, 'consumer-agrees-with-generator', inst, fn.qname,
                      '%ss, %s i, pattern %s' % (side_w, 'ascending' if dir_w == 'asc' else 'descending', _show(M_w)) if not probs else '; '.join(probs))
    if n_cons < 7:
        raise AnalysisBroken('only %d rotation consumers analysed (7 confirmed by hand)' % n_cons)
    tridiag(ctx, dflt)


# ------------------------------------------------------------------------------------------------ sign domain
def _signs(ctx, gen, P):
    fns = ctx.F.insts('Spectra::UpperHessenbergQR::compute_rotation')
    if not fns:
        raise AnalysisBroken('rotation routine not instantiated')
    for fn in fns[:1]:
        pn = [fn.locals[v]['name'] for v in fn.params]
        X, Y, R, Cn, Sn = pn
        problems = []
        ncase = 0
        for sx in (-1, 0, 1):
            for sy in (-1, 0, 1):
                res = _sign_run(fn, {X: sx, Y: sy}, (R, Cn, Sn))
                if res is None or not res:
                    raise AnalysisBroken('%s: body outside the sign domain' % fn.qname)
                for (r_, c_, s_) in res:
                    ncase += 1
                    if None in (r_, c_, s_):
                        problems.append('sign(x)=%d sign(y)=%d: a sign of (r, c, s) is not determined: %s' % (sx, sy, (r_, c_, s_)))
                        continue
                    val = {'c': c_, 's': s_}

                    def sg(p):          # sign of a coefficient +-c / +-s
                        (k, v), = p.t.items()
                        return val[k[0]] * (1 if v > 0 else -1)
                    row0 = (sg(P[0][0]) * sx, sg(P[0][1]) * sy)
                    row1 = (sg(P[1][0]) * sx, sg(P[1][1]) * sy)
                    if r_ < 0:
                        problems.append('sign(x)=%d sign(y)=%d: r is negative' % (sx, sy))
                    if row1[0] != -row1[1]:
                        problems.append('sign(x)=%d sign(y)=%d: second row of P [x; y] has terms of signs %s, it cannot vanish' % (sx, sy, row1))
                    if min(row0) < 0 or (max(row0) > 0) != (r_ > 0):
                        problems.append('sign(x)=%d sign(y)=%d: first row of P [x; y] has terms of signs %s but r has sign %d' % (sx, sy, row0, r_))
                    if sx == 0 and sy == 0 and (abs(c_) + abs(s_) != 1):
                        problems.append('x = y = 0: (c, s) is not a unit pair')
        # magnitude helper: larger first, outputs bound to matching inputs
        calls = [x for x in fn.walk() if x['k'] == 'CallExpr' and x.get('callee') == 'stable_scaling']
        if len(calls) < 2:
            raise AnalysisBroken('%s: magnitude helper calls not found' % fn.qname)
        origin = {}
        for x in fn.walk():
            if x['k'] == 'DeclStmt':
                for d in x['decls']:
                    if 'init' in d:
                        t = sym(fn, d['init'], inline=False)
                        if t == ('call', 'abs', ('P', X)):
                            origin[fn.locals[d['var']]['name']] = 'x'
                        if t == ('call', 'abs', ('P', Y)):
                            origin[fn.locals[d['var']]['name']] = 'y'
        for c in calls:
            a = [sym(fn, y, inline=False) for y in fn.call_args(c)]
            g = None
            for anc in fn.ancestors(c):
                if anc['k'] == 'IfStmt':
                    g = (anc, fn.within(c, anc['then']))
                    break
            cnd = sym(fn, g[0]['cond'], inline=False) if g else None
            if cnd is None or cnd[0] not in ('<', '<='):
                problems.append('magnitude helper called without a comparison of the two magnitudes')
                continue
            big, small = (cnd[2], cnd[1]) if g[1] else (cnd[1], cnd[2])
            if not g[1] and cnd[0] == '<':
                pass      # else-branch of  b < a  is  a <= b: first argument >= second, as the helper requires
            if (a[0], a[1]) != (big, small):
                problems.append('stable_scaling(%s, %s, ..) under `%s` (%s branch): the larger magnitude is not first' % (show(a[0]), show(a[1]), fn.s(g[0]['cond']), 'then' if g[1] else 'else'))
            bind = {}
            for arg, out in ((a[0], a[3]), (a[1], a[4])):
                o = origin.get(arg[1]) if arg[0] == 'L' else None
                bind[o] = out
            if bind.get('x') != ('P', Cn) or bind.get('y') != ('P', Sn):
                problems.append('stable_scaling(%s): the output |x|/r must go to %s and |y|/r to %s' % (', '.join(show(t) for t in a), Cn, Sn))
        ctx.check(not problems, 'rotation-annihilates', 'UpperHessenbergQR::compute_rotation', fn.qname,
                  '%d path/sign cases: r >= 0, row 2 of P [x; y] cancels, row 1 non-negative; magnitude helper: larger first, |x|/r -> c, |y|/r -> s' % ncase
                  if not problems else '; '.join(sorted(set(problems))[:4]))


# ------------------------------------------------------------------------------------------------ series branch of the magnitude helper
class _Series:
    """Truncated power series in t with exact rational coefficients."""
    D = 14

    def __init__(self, c):
        from fractions import Fraction
        self.c = [Fraction(x) for x in c][:self.D] + [Fraction(0)] * max(0, self.D - len(c))

    @staticmethod
    def const(v):
        return _Series([v])

    def __add__(self, o):
        return _Series([a + b for a, b in zip(self.c, o.c)])

    def __sub__(self, o):
        return _Series([a - b for a, b in zip(self.c, o.c)])

    def __mul__(self, o):
        out = [0] * self.D
        for i, a in enumerate(self.c):
            if a:
                for j, b in enumerate(o.c):
                    if i + j < self.D and b:
                        out[i + j] += a * b
        return _Series(out)

    def inv(self):
        if self.c[0] == 0:
            raise Unsupported('division by a series without constant term')
        out = [1 / self.c[0]] + [0] * (self.D - 1)
        for n in range(1, self.D):
            out[n] = -sum(self.c[k] * out[n - k] for k in range(1, n + 1)) / self.c[0]
        return _Series(out)

    def sqrt(self):
        from fractions import Fraction
        c0 = self.c[0]
        r = None
        for q in range(1, 65):
            if Fraction(q * q) == c0:
                r = Fraction(q)
        if r is None:
            raise Unsupported('square root of a series whose constant term is not a small perfect square')
        out = [r] + [0] * (self.D - 1)
        for n in range(1, self.D):
            out[n] = (self.c[n] - sum(out[i] * out[n - i] for i in range(1, n))) / (2 * r)
        return _Series(out)


def _series_eval(t, env):
    from fractions import Fraction
    if t[0] == 'lit':
        try:
            return _Series.const(Fraction(int(t[1])))
        except ValueError:
            return _Series.const(Fraction(float(t[1])))
    if t[0] in ('P', 'L'):
        if t in env:
            return env[t]
        raise Unsupported('free variable %s' % (t,))
    if t[0] in ('+', '*'):
        acc = _series_eval(t[1], env)
        for u in t[2:]:
            v = _series_eval(u, env)
            acc = acc + v if t[0] == '+' else acc * v
        return acc
    if t[0] == '-' and len(t) == 3:
        return _series_eval(t[1], env) - _series_eval(t[2], env)
    if t[0] == 'u-':
        return _Series.const(0) - _series_eval(t[1], env)
    if t[0] == '/':
        return _series_eval(t[1], env) * _series_eval(t[2], env).inv()
    if t[0] == 'call' and t[1] == 'sqrt' and len(t) == 3:
        return _series_eval(t[2], env).sqrt()
    raise Unsupported('term %s outside the series domain' % (t[:2],))


def _series_ternaries(ctx, rule):
    """The three-component helpers of DoubleShiftQR pick between a closed form and a series by `cond ? closed : series`, both arms
    in one variable u = x^2 + y^2 with the condition `cutoff <= |x| || cutoff <= |y|`: in the series arm 0 <= u < 2 cutoff^2."""
    n = 0
    seen = set()
    for fn in ctx.F.concrete():
        if not fn.cfg or not (fn.cls or '').startswith('Spectra::') or (fn.cls, fn.name, len(fn.params)) in seen:
            continue
        for x in fn.walk():
            if x['k'] != 'ConditionalOperator':
                continue
            cond = sym(fn, x['c'][0], inline=False)
            parts = list(cond[1:]) if cond[0] == '||' else [cond]
            if not all(isinstance(p_, tuple) and p_[0] in ('<=', '<') and len(p_) == 3 for p_ in parts):
                continue
            cuts = set(p_[1] for p_ in parts)
            if len(cuts) != 1 or list(cuts)[0][0] != 'L':
                continue
            cut = sym(fn, [d['init'] for y in fn.walk() if y['k'] == 'DeclStmt' for d in y['decls'] if 'var' in d and 'init' in d and ('L', fn.locals[d['var']]['name']) == list(cuts)[0]][0])
            K, e = None, None
            if cut[0] == '*' and len(cut) == 3:
                for u_, v_ in ((cut[1], cut[2]), (cut[2], cut[1])):
                    if u_[0] == 'lit' and v_[0] == 'call' and v_[1] == 'pow' and len(v_) == 4 and v_[3][0] == 'lit' and show(v_[2]).startswith('epsilon'):
                        K, e = float(u_[1]), float(v_[3][1])
            if K is None:
                continue
            seen.add((fn.cls, fn.name, len(fn.params)))
            inst = '%s::%s' % (fn.cls.replace('Spectra::', ''), fn.name)
            comps = [p_[2][2] if p_[2][0] == 'call' and p_[2][1] == 'abs' else p_[2] for p_ in parts]
            a_closed, a_series = sym(fn, x['c'][1], inline=False), sym(fn, x['c'][2], inline=False)
            from .sym import atoms
            vs = set(a for a in atoms(a_closed) | atoms(a_series) if isinstance(a, tuple) and a[0] in ('L', 'P'))
            problems = []
            if len(vs) != 1:
                raise AnalysisBroken('%s: the two arms of the cutoff expression are not functions of one variable: %s' % (fn.qname, sorted(map(show, vs))))
            U = list(vs)[0]
            # u = sum of the squares of the compared quantities (last definition before the expression)
            defs = []
            for y in fn.walk():
                if y['k'] == 'DeclStmt':
                    for d in y['decls']:
                        if 'var' in d and 'init' in d and ('L', fn.locals[d['var']]['name']) == U and y['l'] <= x['l']:
                            defs.append(sym(fn, d['init'], inline=False))
            want_terms = sorted(('*', c_, c_) for c_ in comps)
            if not defs or not (defs[-1][0] == '+' and sorted(defs[-1][1:]) == want_terms):
                problems.append('%s is not the sum of the squares of the quantities compared with the cutoff (%s)' % (U[1], ', '.join(show(c_) for c_ in comps)))
            try:
                sc = _series_eval(a_closed, {U: _Series([0, 1])})
                ss = _series_eval(a_series, {U: _Series([0, 1])})
            except Unsupported as ex:
                raise AnalysisBroken('%s: %s' % (fn.qname, ex))
            n += 1
            diff = [p_ - q_ for p_, q_ in zip(ss.c, sc.c)]
            k = next((i for i, d in enumerate(diff) if d != 0), None)
            if k is not None:
                for eps in (2.0 ** -23, 2.0 ** -52, 2.0 ** -63):
                    ub = len(parts) * (K * eps ** e) ** 2
                    err = abs(float(diff[k])) * ub ** k
                    if err > eps / 4:
                        problems.append('series arm differs from the closed arm at degree %d in %s (coefficient %s instead of %s): up to %.1e just below the cutoff, eps = %.1e' %
                                        (k, U[1], ss.c[k], sc.c[k], err, eps))
                        break
            ctx.check(not problems, rule, inst, fn.qname,
                      'series arm = beginning of the Maclaurin series of the closed arm `%s` in %s = sum of squares; remainder below eps/4 for 0 <= %s < %d cutoff^2' %
                      (show(a_closed)[:40], U[1], U[1], len(parts)) if not problems else '; '.join(problems[:3]))
    if n < 2:
        raise AnalysisBroken('only %d closed-form / series expressions found in the three-component helpers (2 confirmed by hand)' % n)


def series_branch(ctx, rule='series-branch-matches-closed-form'):
    """stable_scaling(a, b) computes r = sqrt(a^2 + b^2), c = a / r, s = b / r for a >= b > 0 in two ways: in closed form when
    t = b / a is at least a cutoff K * eps^e, and by a truncated series below it.  Both are functions of t (r is a times one), so the
    series branch is right only if its polynomial is the beginning of the Maclaurin series of what the closed-form branch computes:
    with the first differing coefficient d_k at degree k, |d_k| * cutoff^k must stay below eps / 4 for every scalar type.  Both
    branches are read from the code and expanded as exact rational power series (a = 1, 2, 3; b = a t); nothing is executed."""
    from fractions import Fraction
    fns = [f for f in ctx.F.concrete() if f.name == 'stable_scaling' and f.cfg and (f.cls or '').startswith('Spectra::') and len(f.params) == 5]
    if len(fns) < 1:
        raise AnalysisBroken('stable_scaling(a, b, r, c, s) is not instantiated')
    _series_ternaries(ctx, rule)
    seen = set()
    for fn in fns:
        key = fn.cls
        if key in seen:
            continue
        seen.add(key)
        inst = '%s::stable_scaling' % fn.cls.replace('Spectra::', '')
        pn = [fn.locals[v]['name'] for v in fn.params]
        if len(pn) != 5:
            raise AnalysisBroken('%s: %d parameters' % (fn.qname, len(pn)))
        A, B, R, Cn, Sn = (('P', x) for x in pn)
        ifs = [i for i in fn.walk() if i['k'] == 'IfStmt']
        if len(ifs) != 1 or ifs[0].get('else', -1) < 0:
            raise AnalysisBroken('%s: expected one two-armed branch on the ratio' % fn.qname)
        cond = sym(fn, ifs[0]['cond'])
        ratio = ('/', B, A)
        # cutoff = K * pow(eps, e), compared with b / a
        if cond[0] not in ('<=', '<') or ratio not in cond[1:]:
            raise AnalysisBroken('%s: branch condition %s is not a comparison of b / a with a cutoff' % (fn.qname, show(cond)))
        cut = [u for u in cond[1:] if u != ratio][0]
        closed_is_then = (cond[2] == ratio)           # cutoff <= t  ->  then-branch is the closed form
        K, e = None, None
        if cut[0] == '*' and len(cut) == 3:
            for u, v in ((cut[1], cut[2]), (cut[2], cut[1])):
                if u[0] == 'lit' and v[0] == 'call' and v[1] == 'pow' and len(v) == 4 and v[3][0] == 'lit' and show(v[2]).startswith('epsilon'):
                    K, e = float(u[1]), float(v[3][1])
        if K is None:
            raise AnalysisBroken('%s: cutoff %s is not K * pow(epsilon, e)' % (fn.qname, show(cut)))
        problems = []
        table = {}
        for alpha in (1, 2, 3):
            for which, branch in (('closed', ifs[0]['then'] if closed_is_then else ifs[0]['else']), ('series', ifs[0]['else'] if closed_is_then else ifs[0]['then'])):
                env = {A: _Series.const(alpha), B: _Series([0, alpha])}
                outs = {}
                for x in fn.walk(branch):
                    if x['k'] == 'BinaryOperator' and x.get('op') == '=':
                        lhs = sym(fn, x['c'][0], inline=False)
                        if lhs in (R, Cn, Sn):
                            try:
                                v = _series_eval(sym(fn, x['c'][1]), env)
                            except Unsupported as ex:
                                raise AnalysisBroken('%s: %s branch: %s' % (fn.qname, which, ex))
                            env[lhs] = v
                            outs[lhs] = v
                if set(outs) != {R, Cn, Sn}:
                    raise AnalysisBroken('%s: %s branch assigns %s' % (fn.qname, which, sorted(show(o) for o in outs)))
                table[(alpha, which)] = outs
        # the closed form is what the helper documents: c = 1/sqrt(1+t^2), s = t c, r = a sqrt(1+t^2)
        one_t2 = _Series([1, 0, 1])
        ref = {Cn: one_t2.sqrt().inv(), Sn: _Series([0, 1]) * one_t2.sqrt().inv()}
        for alpha in (1, 2, 3):
            cl = table[(alpha, 'closed')]
            want = dict(ref)
            want[R] = _Series.const(alpha) * one_t2.sqrt()
            for o in (R, Cn, Sn):
                if cl[o].c != want[o].c:
                    problems.append('closed-form branch: %s is not %s' % (o[1], {R: 'a sqrt(1 + t^2)', Cn: '1 / sqrt(1 + t^2)', Sn: 't / sqrt(1 + t^2)'}[o]))
            se = table[(alpha, 'series')]
            for o in (R, Cn, Sn):
                diff = [x - y for x, y in zip(se[o].c, cl[o].c)]
                k = next((i for i, d in enumerate(diff) if d != 0), None)
                if k is None:
                    continue
                scale = alpha if o == R else 1
                for eps in (2.0 ** -23, 2.0 ** -52, 2.0 ** -63):
                    cutoff = K * eps ** e
                    err = abs(float(diff[k])) * cutoff ** k / scale
                    if err > eps / 4:
                        problems.append('series branch: %s differs from the closed form at degree %d (coefficient %s instead of %s, a = %d): up to %.1e relative just below the cutoff %.1e, eps = %.1e' %
                                        (o[1], k, se[o].c[k], cl[o].c[k], alpha, err, cutoff, eps))
                        break
        ctx.check(not problems, rule, inst, fn.qname,
                  'closed form = (a sqrt(1+t^2), 1/sqrt(1+t^2), t/sqrt(1+t^2)); the series branch agrees with its Maclaurin series up to a remainder below eps/4 at the cutoff %g * eps^%g '
                  '(float, double, extended)' % (K, e) if not problems else '; '.join(sorted(set(problems))[:3]))


def _sign_run(fn, env0, outs):
    """Abstract interpretation of a loop-free body in the sign domain {-1, 0, 1, None = unknown}; returns the list of
    output sign tuples over all feasible paths, or None if a construct is outside the domain."""
    results = []

    def sgn_expr(n, env):
        n = fn.strip(n)
        k = n['k']
        if k in ('IntegerLiteral', 'FloatingLiteral'):
            v = float(n['val'])
            return (v > 0) - (v < 0)
        if k == 'DeclRefExpr' and 'var' in n:
            return env.get(n['name'])
        if k == 'UnaryOperator' and n.get('op') == '-':
            v = sgn_expr(fn.nodes[n['c'][0]], env)
            return None if v is None else -v
        if k == 'CallExpr' and n.get('callee') in ('abs', 'fabs'):
            v = sgn_expr(fn.call_args(n)[0], env)
            return None if v is None else abs(v)
        if k == 'BinaryOperator' and n.get('op') == '*':
            a, b = sgn_expr(fn.nodes[n['c'][0]], env), sgn_expr(fn.nodes[n['c'][1]], env)
            if a == 0 or b == 0:
                return 0
            return None if a is None or b is None else a * b
        if k == 'ConditionalOperator':
            c = cond_val(fn.nodes[n['c'][0]], env)
            if c is None:
                a, b = sgn_expr(fn.nodes[n['c'][1]], env), sgn_expr(fn.nodes[n['c'][2]], env)
                return a if a == b else None
            return sgn_expr(fn.nodes[n['c'][1 if c else 2]], env)
        if k in ('CXXFunctionalCastExpr', 'CXXConstructExpr', 'ImplicitCastExpr', 'ParenExpr', 'MaterializeTemporaryExpr') and n.get('c'):
            return sgn_expr(fn.nodes[n['c'][0]], env)
        return None

    def cond_val(n, env):
        n = fn.strip(n)
        if n['k'] == 'BinaryOperator' and n['op'] in ('>', '<', '==', '!=', '>=', '<='):
            a, b = sgn_expr(fn.nodes[n['c'][0]], env), sgn_expr(fn.nodes[n['c'][1]], env)
            if a is None or b is None:
                return None
            if b == 0 or a == 0 or a != b:
                return {'>': a > b, '<': a < b, '==': a == b, '!=': a != b, '>=': a >= b, '<=': a <= b}[n['op']]
            return None
        return None

    def block(b):
        if b is None or b < 0:
            return []
        n = fn.nodes[b]
        return fn.kids(n) if n['k'] == 'CompoundStmt' else [n]

    def run(stmts, env):
        env = dict(env)
        for i, st in enumerate(stmts):
            k = st['k']
            if k == 'DeclStmt':
                for d in st['decls']:
                    if 'init' in d and 'var' in d:
                        env[fn.locals[d['var']]['name']] = sgn_expr(fn.nodes[d['init']], env)
            elif k == 'BinaryOperator' and st.get('op') == '=':
                l = fn.strip(fn.nodes[st['c'][0]])
                if l['k'] != 'DeclRefExpr':
                    return False
                env[l['name']] = sgn_expr(fn.nodes[st['c'][1]], env)
            elif k == 'IfStmt':
                c = cond_val(fn.nodes[st['cond']], env)
                ok = True
                if c is None or c:
                    ok = run(block(st['then']) + stmts[i + 1:], env) and ok
                if c is None or not c:
                    ok = run(block(st.get('else', -1)) + stmts[i + 1:], env) and ok
                return ok
            elif k == 'ReturnStmt':
                results.append(tuple(env.get(o) for o in outs))
                return True
            elif k == 'CallExpr' and st.get('callee') == 'stable_scaling':
                for o in fn.call_args(st)[2:]:
                    o = fn.strip(o)
                    if o['k'] != 'DeclRefExpr':
                        return False
                    env[o['name']] = 1
            elif k in ('ExprWithCleanups',):
                return run([fn.nodes[st['c'][0]]] + stmts[i + 1:], env)
            elif k in ('NullStmt', 'UsingDecl') or (k == 'DeclStmt'):
                pass
            else:
                return False
        results.append(tuple(env.get(o) for o in outs))
        return True
    ok = run(fn.kids(fn.nodes[fn.body]), dict(env0))
    return results if ok else None


# ------------------------------------------------------------------------------------------------ tridiagonal class
def tridiag(ctx, gen):
    P, arrays = gen
    recs = ctx.F.records_of('Spectra::TridiagQR', dep=False)
    if not recs:
        raise AnalysisBroken('TridiagQR not instantiated')
    done = set()
    for rec in recs:
        for fn in ctx.F.methods(rec['qname']):
            if not fn.cfg or fn.qname in done:
                continue
            if fn.name == 'compute':
                done.add(fn.qname)
                _tridiag_compute(ctx, fn, P, arrays)
            if fn.name == 'matrix_QtHQ' and 'complex' not in fn.locals[fn.params[0]]['type']:
                done.add(fn.qname)
                _tridiag_qthq(ctx, fn, P, arrays)
    if len(done) < 2:
        raise AnalysisBroken('TridiagQR::compute / matrix_QtHQ not both analysed')


def _loop_over_rotations(fn, which):
    loops = [lp for lp in fn.walk() if lp['k'] == 'ForStmt' and not any(a['k'] == 'ForStmt' for a in fn.ancestors(lp))]
    for lp in loops:
        for x in fn.walk(lp['body']):
            if x.get('callee') == which or (x['k'] == 'MemberExpr' and x.get('member') == which):
                return lp
    return None


def _tridiag_compute(ctx, fn, P, arrays):
    rule, inst = 'band-updates-follow-generator', 'TridiagQR::compute'
    lp = _loop_over_rotations(fn, 'compute_rotation')
    if lp is None:
        raise AnalysisBroken('%s: rotation loop not found' % fn.qname)
    init = fn.node(lp['init'])
    ivar = fn.locals[init['decls'][0]['var']]['name']
    I, I1 = ('L', ivar), ('+', ('L', ivar), ('lit', '1'))
    probs = []
    if not (sym(fn, init['decls'][0]['init'], inline=False) == ('lit', '0') and sym(fn, lp['inc'], inline=False) == ('u++', I)):
        probs.append('rotations are not generated for ascending i from 0')
    # pointer walks: p = array.data() before the loop, p++ exactly once per iteration (top level of the body)
    walk = {}
    for x in fn.walk():
        if x['k'] == 'DeclStmt':
            for d in x['decls']:
                if 'init' in d:
                    t = sym(fn, d['init'], inline=False)
                    if t[0] == 'data' and t[1][0] == 'F':
                        walk[fn.locals[d['var']]['name']] = t[1][1]
    top = fn.kids(fn.nodes[lp['body']])
    for p_, arr in walk.items():
        incs = [x for x in fn.walk(lp['body']) if x['k'] == 'UnaryOperator' and x.get('op') in ('++',) and sym(fn, x, inline=False)[1] == ('L', p_)]
        top_incs = [x for x in top if fn.strip(x)['k'] == 'UnaryOperator' and sym(fn, x, inline=False) in (('u++', ('L', p_)), ('++u', ('L', p_)), ('pre++', ('L', p_)), ('post++', ('L', p_)))]
        if len(incs) != 1 or len(top_incs) != 1:
            probs.append('pointer %s into %s is not advanced exactly once per iteration' % (p_, arr))
        else:
            # every dereference precedes the increment
            pos = top.index(top_incs[0])
            for later in top[pos + 1:]:
                if ('*' + p_) in fn.s(later['id']).replace(' ', '').replace('(', ''):
                    probs.append('%s is dereferenced after it has been advanced' % p_)
    call = [x for x in fn.walk(lp['body']) if x['k'] in ('CallExpr', 'CXXMemberCallExpr') and x.get('callee') == 'compute_rotation']
    if len(call) != 1:
        raise AnalysisBroken('%s: rotation call not found' % fn.qname)
    a = [sym(fn, y, inline=False) for y in fn.call_args(call[0])]
    role = {}
    for pos, lab in ((3, 'c'), (4, 's')):
        t = a[pos]
        if t[0] == 'u*' and t[1][0] == 'L' and t[1][1] in walk:
            role[t[1][1]] = lab
            if arrays.get(walk[t[1][1]]) != lab:
                probs.append('output %d of the rotation routine goes to %s, but the inherited apply methods read it from %s' % (pos + 1, walk[t[1][1]], [k for k, v in arrays.items() if v == lab][0]))
        else:
            probs.append('output %d of the rotation routine is not stored through a walking pointer' % (pos + 1))
    if a[0] != ('coeff', ('F', 'm_R_diag'), I) or a[1] != ('coeff', ('F', 'm_T_subd'), I):
        probs.append('the rotation is not computed from (R[i,i], R[i+1,i]) = (m_R_diag[i], m_T_subd[i])')
    # band entries as atoms:  A = R[i,i+1], B = R[i+1,i+1], W = R[i+1,i+2]
    atoms = {('m_R_supd', I): 'A', ('m_R_diag', I1): 'B', ('m_R_supd', I1): 'W'}
    env = {}

    def leaf(u):
        if u[0] == 'u*' and u[1][0] == 'L' and u[1][1] in role:
            return COEF[role[u[1][1]]]
        if u[0] == 'L' and u[1] in env:
            return env[u[1]]
        if u[0] in ('coeff', 'coeffRef', '[]') and len(u) == 3 and u[1][0] == 'F' and (u[1][1], u[2]) in atoms:
            return Poly.atom(atoms[(u[1][1], u[2])])
        return None
    got = {}
    A, B, W = Poly.atom('A'), Poly.atom('B'), Poly.atom('W')
    cur = {'A': A, 'B': B, 'W': W}
    try:
        for x in fn.walk(lp['body']):
            if x['k'] == 'DeclStmt':
                for d in x['decls']:
                    if 'init' in d:
                        try:
                            env[fn.locals[d['var']]['name']] = from_term(sym(fn, d['init'], inline=False), leaf)
                        except Unsupported:
                            pass
            if x.get('op') in ('=', '*=') and x['k'] in ('BinaryOperator', 'CXXOperatorCallExpr', 'CompoundAssignOperator'):
                t = sym(fn, x, inline=False)
                l = t[1]
                if l[0] == 'coeffRef' and len(l) == 3 and l[1][0] == 'F':
                    key = (l[1][1], l[2])
                    try:
                        v = from_term(t[2], leaf)
                    except Unsupported:
                        continue
                    if t[0] == '*=':
                        v = Poly.atom(atoms[key]) * v if key in atoms else None
                    got.setdefault(key, []).append(v)
    except Unsupported as e:
        raise AnalysisBroken('%s: %s' % (fn.qname, e))
    want = {('m_R_supd', I): P[0][0] * A + P[0][1] * B,      # R[i, i+1]
            ('m_R_diag', I1): P[1][0] * A + P[1][1] * B,     # R[i+1, i+1]
            ('m_R_supd2', I): P[0][1] * W,                   # R[i, i+2]   (old R[i, i+2] = 0)
            ('m_R_supd', I1): P[1][1] * W}                   # R[i+1, i+2]
    names = {('m_R_supd', I): 'R[i,i+1]', ('m_R_diag', I1): 'R[i+1,i+1]', ('m_R_supd2', I): 'R[i,i+2]', ('m_R_supd', I1): 'R[i+1,i+2]'}
    for key, w in want.items():
        g = got.get(key, [])
        if len(g) != 1:
            probs.append('%s is not updated exactly once per rotation' % names[key])
        elif g[0] != w:
            probs.append('%s := %s, the generator pattern P = %s demands %s' % (names[key], g[0], _show(P), w))
    rr = got.get(('m_R_diag', I), [])
    # R[i,i] := r
    w_r = [sym(fn, x, inline=False) for x in fn.walk(lp['body']) if x.get('op') == '=' and x['k'] in ('BinaryOperator', 'CXXOperatorCallExpr')]
    if not any(t[1] == ('coeffRef', ('F', 'm_R_diag'), I) and t[2] == a[2] for t in w_r):
        probs.append('R[i,i] is not overwritten by the r output of the rotation routine')
    # the working diagonal is T - shift
    pre = [sym(fn, x, inline=False) for x in fn.walk() if x.get('op') == '=']
    if not any(show(t[1]).startswith('m_R_diag') and t[2] == ('-', ('F', 'm_T_diag'), ('F', 'm_shift')) for t in pre):
        probs.append('the working diagonal is not T_diag - shift')
    ctx.check(not probs, rule, inst, fn.qname,
              'arrays bound as in the Hessenberg generator; pointer walks advance once per step; R[i..i+1, i+1..i+2] updated by P = %s; R[i,i] := r; diagonal = T - shift' % _show(P)
              if not probs else '; '.join(probs))


def _tridiag_qthq(ctx, fn, P, arrays):
    rule, inst = 'two-sided-formulas-equal-PTP', 'TridiagQR::matrix_QtHQ'
    lp = _loop_over_rotations(fn, 'm_rot_cos')
    if lp is None:
        raise AnalysisBroken('%s: rotation loop not found' % fn.qname)
    init = fn.node(lp['init'])
    ivar = fn.locals[init['decls'][0]['var']]['name']
    I = ('L', ivar)
    I1 = ('+', I, ('lit', '1'))
    I2 = ('+', I, ('lit', '2'))
    probs = []
    if not (sym(fn, init['decls'][0]['init'], inline=False) == ('lit', '0') and sym(fn, lp['inc'], inline=False) == ('u++', I)):
        probs.append('rotations are not applied for ascending i from 0')
    x, y, z, w = (Poly.atom(n) for n in 'xyzw')
    c1 = {'c': Poly.atom('c1'), 's': Poly.atom('s1')}
    state = {(I, I): x, (I1, I): y, (I1, I1): z, (I2, I1): w}
    env = {}

    def leaf(u):
        if u[0] == 'L' and u[1] in env:
            return env[u[1]]
        if u[0] == 'coeff' and len(u) == 3 and u[1][0] == 'F':
            if u[1][1] in arrays and u[2] == I:
                return COEF[arrays[u[1][1]]]
            if u[1][1] in arrays and u[2] == I1:
                return c1[arrays[u[1][1]]]
            if u[1][1] == 'm_T_subd' and u[2] == I1:
                return w
        if u[0] in ('coeff', 'coeffRef') and len(u) == 4 and u[1] == ('P', 'dest') and (u[2], u[3]) in state:
            return state[(u[2], u[3])]
        return None
    writes = []
    for st in fn.walk(lp['body']):
        if st['k'] == 'DeclStmt':
            for d in st['decls']:
                if 'init' in d:
                    try:
                        env[fn.locals[d['var']]['name']] = from_term(sym(fn, d['init'], inline=False), leaf)
                    except Unsupported as e:
                        raise AnalysisBroken('%s: initialiser outside the polynomial domain: %s' % (fn.qname, e))
        if st.get('op') in ('=', '*=') and st['k'] in ('BinaryOperator', 'CXXOperatorCallExpr', 'CompoundAssignOperator'):
            t = sym(fn, st, inline=False)
            l = t[1]
            if l[0] == 'coeffRef' and len(l) == 4 and l[1] == ('P', 'dest'):
                try:
                    v = from_term(t[2], leaf)
                except Unsupported as e:
                    raise AnalysisBroken('%s: update outside the polynomial domain: %s' % (fn.qname, e))
                key = (l[2], l[3])
                if t[0] == '*=':
                    if key not in state:
                        raise AnalysisBroken('%s: scaled entry %s not modelled' % (fn.qname, show(l)))
                    v = state[key] * v
                writes.append((key, v))
                state[key] = v
    # expected: N = Pe T Pe' with Pe = P (+) 1
    Z, O = Poly(), Poly.const(1)
    Pe = [[P[0][0], P[0][1], Z], [P[1][0], P[1][1], Z], [Z, Z, O]]
    u = Poly.atom('u')
    T = [[x, y, Z], [y, z, w], [Z, w, u]]

    def mm(Am, Bm):
        return [[Am[r][0] * Bm[0][c_] + Am[r][1] * Bm[1][c_] + Am[r][2] * Bm[2][c_] for c_ in range(3)] for r in range(3)]
    PeT = [[Pe[c_][r] for c_ in range(3)] for r in range(3)]
    N = mm(mm(Pe, T), PeT)
    P1 = [[p.subst('c', c1['c']).subst('s', c1['s']) if False else _sub1(p, c1) for p in row] for row in P]
    ylook = P1[0][0] * N[1][0] + P1[0][1] * N[2][0]
    expect = [((I, I), [N[0][0]], "x' = (P T P')[0,0]"),
              ((I1, I1), [N[1][1]], "z' = (P T P')[1,1]"),
              ((I2, I1), [N[2][1]], "w' = (P T P')[2,1]"),
              ((I1, I), [N[1][0], ylook], "y' = (P T P')[1,0], then y'' = row 1 of P_{i+1} on (y', o')")]
    for key, seq, what in expect:
        g = [v for k, v in writes if k == key]
        if g != seq:
            probs.append('%s: code computes %s, expected %s' % (what, ' ; '.join(map(str, g)) or 'nothing', ' ; '.join(map(str, seq))))
    # the result is mirrored to the upper sub-diagonal and starts from the saved T
    alls = [sym(fn, st, inline=False) for st in fn.walk() if st.get('op') == '=']
    if not any(t[1] == ('diagonal', ('P', 'dest')) and t[2] == ('F', 'm_T_diag') for t in alls) or \
       not any(t[1] == ('diagonal', ('P', 'dest'), ('u-', ('lit', '1'))) and t[2] == ('F', 'm_T_subd') for t in alls):
        probs.append('dest does not start from the saved diagonal / sub-diagonal of T')
    if not any(t[1] == ('diagonal', ('P', 'dest'), ('lit', '1')) and t[2] == ('diagonal', ('P', 'dest'), ('u-', ('lit', '1'))) for t in alls):
        probs.append('the lower sub-diagonal is not mirrored to the upper one')
    ctx.check(not probs, rule, inst, fn.qname,
              "x', y', z', w', o' and the look-ahead y'' are, as polynomials over (c, s, x, y, z, w, c1, s1), the entries of (P(+)1) T_i (P(+)1)' with P = %s" % _show(P)
              if not probs else '; '.join(probs))


def _sub1(p, c1):
    return p.subst('c', Poly.atom('@c')).subst('s', c1['s']).subst('@c', c1['c'])



# ------------------------------------------------------------------------------------------------ double-shift class
def _ev_cond(t, env):
    """evaluate a sym condition / small integer term under env {name: int}; None if not evaluable"""
    if not isinstance(t, tuple):
        return None
    op = t[0]
    if op == 'lit':
        try:
            return int(float(t[1]))
        except ValueError:
            return {'true': 1, 'false': 0}.get(t[1])
    if op in ('L', 'P', 'F'):
        return env.get(t[1])
    if op == 'u!':
        v = _ev_cond(t[1], env)
        return None if v is None else int(not v)
    if op == 'u-' and len(t) == 2:
        v = _ev_cond(t[1], env)
        return None if v is None else -v
    if len(t) == 3:
        a, b = _ev_cond(t[1], env), _ev_cond(t[2], env)
        if op == '||':
            return 1 if (a == 1 or b == 1) else None if (a is None or b is None) else 0
        if op == '&&':
            return 0 if (a == 0 or b == 0) else None if (a is None or b is None) else 1
        if a is None or b is None:
            return None
        return {'==': int(a == b), '!=': int(a != b), '<': int(a < b), '<=': int(a <= b), '+': a + b, '-': a - b, '*': a * b}.get(op)
    return None


def _exec_reflector(fn, nr, dim):
    """Symbolic execution of one apply_* member for a reflector of nr entries and a block of `dim` rows (columns).
    Returns {slot k: Poly over x0..x2, u0..u2} for one generic column (row) of the block."""
    pn = [fn.locals[v]['name'] for v in fn.params]
    ienv = {}
    penv = {}
    slots = {}
    chain = {}

    def slot_of(t):
        if t[0] == '[]' and len(t) == 3:
            base, idx = t[1], t[2]
            if base[0] in ('L', 'P') and base[1] in chain and idx[0] == 'L':
                return chain[base[1]]
            if base[0] in ('L', 'P') and idx[0] == 'lit':
                return int(idx[1])
        return None

    def leaf(u):
        if u[0] == 'L' and u[1] in penv:
            return penv[u[1]]
        if u[0] == 'coeff' and len(u) == 4 and u[1] == ('F', 'm_ref_u') and u[2][0] == 'lit':
            return Poly.atom('u%s' % u[2][1])
        k = slot_of(u)
        if k is not None:
            return slots.get(k, Poly.atom('x%d' % k))
        if u[0] == '?:':
            c = _ev_cond(u[1], ienv)
            if c is None:
                raise Unsupported('condition %s' % show(u[1]))
            return from_term(u[2] if c else u[3], leaf)
        return None

    def run(st):
        k = st['k']
        if k == 'CompoundStmt':
            for c in fn.kids(st):
                if run(c) == 'ret':
                    return 'ret'
            return None
        if k == 'DeclStmt':
            for d in st['decls']:
                if 'init' not in d:
                    continue
                nm = fn.locals[d['var']]['name']
                t = sym(fn, d['init'], inline=False)
                if t == ('coeff', ('F', 'm_ref_nr'), ('P', pn[-1])):
                    ienv[nm] = nr
                elif t[0] in ('rows', 'cols'):
                    ienv[nm] = dim if ((t[0] == 'rows') == (fn.name == 'apply_PX')) else 7
                elif t[0] == 'data':
                    chain[nm] = 0
                elif t[0] == '+' and len(t) == 3 and any(o[0] == 'L' and o[1] in chain for o in t[1:]) and any(o == ('P', 'stride') for o in t[1:]):
                    chain[nm] = chain[[o for o in t[1:] if o[0] == 'L' and o[1] in chain][0][1]] + 1
                else:
                    v = _ev_cond(t, ienv)
                    if v is not None and t[0] in ('==', '!=', '<', '<=', '||', '&&', 'u!'):
                        ienv[nm] = v
                        continue
                    try:
                        penv[nm] = from_term(t, leaf)
                    except Unsupported:
                        pass
            return None
        if k == 'IfStmt':
            c = _ev_cond(sym(fn, st['cond'], inline=False), ienv)
            if c is None:
                raise Unsupported('branch condition %s' % fn.s(st['cond']))
            b = st['then'] if c else st.get('else', -1)
            return run(fn.nodes[b]) if b is not None and b >= 0 else None
        if k == 'ForStmt':
            return run(fn.nodes[st['body']])
        if k == 'ReturnStmt':
            return 'ret'
        if k in ('CompoundAssignOperator', 'BinaryOperator', 'CXXOperatorCallExpr') and st.get('op') in ('-=', '=', '+='):
            t = sym(fn, st, inline=False)
            kx = slot_of(t[1])
            if kx is None:
                raise Unsupported('assignment to %s' % show(t[1]))
            v = from_term(t[2], leaf)
            cur = slots.get(kx, Poly.atom('x%d' % kx))
            slots[kx] = cur - v if st['op'] == '-=' else cur + v if st['op'] == '+=' else v
            return None
        if k in ('NullStmt', 'UsingDecl'):
            return None
        if k == 'ExprWithCleanups':
            return run(fn.nodes[st['c'][0]])
        raise Unsupported('statement %s' % k)
    run(fn.nodes[fn.body])
    return slots


def double_shift(ctx):
    recs = ctx.F.records_of('Spectra::DoubleShiftQR', dep=False)
    if not recs:
        raise AnalysisBroken('DoubleShiftQR not instantiated')
    seen = set()
    napp = 0
    for rec in recs:
        for fn in ctx.F.methods(rec['qname']):
            if not fn.cfg or fn.mangled in seen:
                continue
            seen.add(fn.mangled)
            if fn.name in ('apply_PX', 'apply_XP'):
                vec = len(fn.params) == 2
                inst = 'DoubleShiftQR::%s%s' % (fn.name, '(vector)' if vec else '')
                probs = []
                ncase = 0
                for nr, dim in ((1, 3), (2, 2), (2, 3), (3, 3)):
                    if vec and dim == 2:
                        continue
                    try:
                        got = _exec_reflector(fn, nr, dim)
                    except Unsupported as e:
                        raise AnalysisBroken('%s: outside the polynomial domain: %s' % (fn.qname, e))
                    ncase += 1
                    m = 0 if nr == 1 else nr
                    dot = Poly()
                    for j in range(m):
                        dot = dot + Poly.atom('u%d' % j) * Poly.atom('x%d' % j)
                    for k_ in range(3):
                        xk = Poly.atom('x%d' % k_)
                        want = xk - Poly.const(2) * Poly.atom('u%d' % k_) * dot if k_ < m else xk
                        g = got.get(k_, xk)
                        if nr == 2 and dim == 3 or (vec and nr == 2):
                            # a two-entry reflector has u2 = 0 (set by the generator): compare modulo u2 = 0
                            g = g.subst('u2', Poly())
                        if g != want:
                            probs.append('nr=%d, %d %s: entry %d becomes %s, I - 2uu\' gives %s' % (nr, dim, 'rows' if fn.name == 'apply_PX' else 'columns', k_, g, want))
                napp += 1
                ctx.check(not probs, 'reflector-application-is-I-minus-2uut', inst, fn.qname,
                          '%d (reflector size, block size) cases: every entry equals x - 2 u (u.x) as a polynomial; nr = 1 is the identity' % ncase
                          if not probs else '; '.join(probs[:3]))
            if fn.name == 'update_block':
                _update_block(ctx, fn)
            if fn.name == 'compute_reflector' and len(fn.params) == 4:
                _compute_reflector(ctx, fn)
            if fn.name in ('apply_QtY', 'apply_YQ'):
                _ds_consumer(ctx, fn)
    if napp < 3:
        raise AnalysisBroken('only %d reflector applications analysed' % napp)


def _update_block(ctx, fn):
    inst = 'DoubleShiftQR::update_block'
    IL = ('P', fn.locals[fn.params[0]]['name'])
    env = {}

    def off(t):
        if t == IL:
            return 0
        if t[0] == '+' and len(t) == 3 and IL in t[1:]:
            o = [x for x in t[1:] if x != IL][0]
            if o[0] == 'lit':
                return int(o[1])
        return None

    def leaf(u):
        if u[0] == 'L' and u[1] in env:
            return env[u[1]]
        if u[0] == 'coeff' and len(u) == 4 and u[1] == ('F', 'm_mat_H'):
            a, b = off(u[2]), off(u[3])
            if a is not None and b is not None:
                return Poly.atom('x%d%d' % (a, b))
        if u == ('F', 'm_shift_s'):
            return Poly.atom('s')
        if u == ('F', 'm_shift_t'):
            return Poly.atom('t')
        return None
    for x in fn.walk():
        if x['k'] == 'DeclStmt':
            for d in x['decls']:
                if 'init' in d:
                    try:
                        env[fn.locals[d['var']]['name']] = from_term(sym(fn, d['init'], inline=False), leaf)
                    except Unsupported:
                        pass
    X = [[Poly.atom('x%d%d' % (a, b)) if a <= b + 1 else Poly() for b in range(3)] for a in range(3)]
    s_, t_ = Poly.atom('s'), Poly.atom('t')
    col = []
    for a in range(3):
        v = Poly()
        for k in range(3):
            v = v + X[a][k] * X[k][0]
        v = v - s_ * X[a][0] + (t_ if a == 0 else Poly())
        col.append(v)
    calls = [x for x in fn.walk() if x['k'] in ('CXXMemberCallExpr', 'CallExpr') and x.get('callee') == 'compute_reflector']
    probs = []
    first = []
    for c in calls:
        a = [sym(fn, y, inline=False) for y in fn.call_args(c)]
        if len(a) == 4 and a[3] == IL:
            first.append(a)
    if len(first) != 2:
        raise AnalysisBroken('%s: expected two first-reflector calls (block size 2 and >= 3), found %d' % (fn.qname, len(first)))
    for a in first:
        try:
            g = [from_term(y, leaf) for y in a[:3]]
        except Unsupported as e:
            raise AnalysisBroken('%s: %s' % (fn.qname, e))
        two = a[2] == ('lit', '0')
        want = col[:2] + [Poly()] if two else col
        for k in range(3):
            if g[k] != want[k]:
                probs.append('first reflector (%s block): entry %d of its defining vector is %s, (X^2 - s X + t I) e1 has %s' % ('2x2' if two else '>= 3x3', k, g[k], want[k]))
    ctx.check(not probs, 'first-reflector-from-shifted-square', inst, fn.qname,
              'the vector defining P_il equals, as polynomials in the block entries, the first column of X^2 - s X + t I for Hessenberg X (both block-size branches)'
              if not probs else '; '.join(probs))
    # every application of reflector k is dominated by the computation of reflector k
    from . import paths
    probs = []
    napply = 0
    for x in fn.walk():
        if x['k'] in ('CXXMemberCallExpr', 'CallExpr') and x.get('callee') in ('apply_PX', 'apply_XP'):
            a = [sym(fn, y, inline=False) for y in fn.call_args(x)]
            idx = a[-1]
            napply += 1
            pos = fn.pos_of(x)
            ok = pos is not None and paths.dominated_by(
                fn, pos, lambda n, idx=idx: n['k'] in ('CXXMemberCallExpr', 'CallExpr') and n.get('callee') == 'compute_reflector' and
                sym(fn, fn.call_args(n)[-1], inline=False) == idx)
            if not ok:
                probs.append('%s(.., %s) is not preceded on every path by compute_reflector(.., %s)' % (x['callee'], show(idx), show(idx)))
            # the block handed over starts at the reflector's row (column): left: block(k, ..), right: block(0, k, ..)
            b = a[0]
            if b[0] == 'block' and len(b) == 6:
                start = b[2] if x['callee'] == 'apply_PX' else b[3]
                if start != idx:
                    probs.append('%s: block starts at %s, reflector index is %s' % (x['callee'], show(start), show(idx)))
                if x['callee'] == 'apply_XP' and b[2] != ('lit', '0'):
                    probs.append('apply_XP block does not start at row 0')
            else:
                probs.append('%s argument is not a block of the working matrix' % x['callee'])
    if napply < 8:
        raise AnalysisBroken('%s: only %d reflector applications found' % (fn.qname, napply))
    ctx.check(not probs, 'reflector-defined-before-applied', inst, fn.qname,
              '%d applications: each dominated by compute_reflector with the same index; left blocks start at row k, right blocks at column k and row 0' % napply
              if not probs else '; '.join(probs[:3]))


def _compute_reflector(ctx, fn):
    inst = 'DoubleShiftQR::compute_reflector'
    pn = [fn.locals[v]['name'] for v in fn.params]
    decl = {}
    for x in fn.walk():
        if x['k'] == 'DeclStmt':
            for d in x['decls']:
                if 'init' in d:
                    decl[fn.locals[d['var']]['name']] = sym(fn, d['init'], inline=False)
    probs = []
    # sign choice: rho in {-1, +1}, rho * x1 <= 0 (x1 - rho |x| never cancels)
    rho = [k for k, v in decl.items() if k == 'rho']
    x1n = decl.get('x1_new')
    if not rho or x1n is None:
        raise AnalysisBroken('%s: sign choice not found' % fn.qname)
    for sx in (-1, 0, 1):
        r = _ev_cond(decl['rho'], {pn[0]: sx})
        if r is None:
            raise AnalysisBroken('%s: cannot evaluate the sign choice' % fn.qname)
        if abs(r) != 1 or r * sx > 0:
            probs.append('sign(x1) = %d gives rho = %d: x1 - rho |x| cancels (or rho is not a sign)' % (sx, r))

    def leaf(u):
        if u[0] in ('L', 'P'):
            return Poly.atom(u[1])
        return None
    try:
        if from_term(x1n, leaf) != Poly.atom(pn[0]) - Poly.atom('rho') * Poly.atom('x_norm'):
            probs.append('first entry of u is %s, not x1 - rho |x|' % show(x1n))
    except Unsupported:
        probs.append('first entry of u is %s, not x1 - rho |x|' % show(x1n))
    # u[k] and the magnitude compared for it
    uval = {}
    for x in fn.walk():
        if x['k'] == 'BinaryOperator' and x.get('op') == '=':
            t = sym(fn, x, inline=False)
            if t[1][0] == '[]' and t[1][1] == ('L', 'u') and t[1][2][0] == 'lit':
                uval[int(t[1][2][1])] = t[2]
    mag = {}
    for k, v in decl.items():
        if v[0] == 'call' and v[1] == 'abs' and len(v) == 3:
            for j, uv in uval.items():
                if v[2] == uv:
                    mag[k] = j
    if sorted(mag.values()) != [0, 1, 2] or sorted(uval) != [0, 1, 2]:
        raise AnalysisBroken('%s: magnitudes of the three entries of u not identified (%s)' % (fn.qname, mag))
    if uval[1] != ('P', pn[1]) or uval[2] != ('P', pn[2]):
        probs.append('entries 2, 3 of u are not x2, x3')
    # the if-chain choosing the scaling call: all 27 orderings of the three magnitudes
    calls = [x for x in fn.walk() if x['k'] == 'CallExpr' and x.get('callee') == 'stable_scaling']
    if len(calls) != 3:
        raise AnalysisBroken('%s: %d scaling calls' % (fn.qname, len(calls)))
    names = sorted(mag, key=lambda k: mag[k])
    import itertools
    nord = 0
    for vals in itertools.product((1, 2, 3), repeat=3):
        env = dict(zip(names, vals))
        taken = None
        for c in calls:
            ok = True
            for anc in fn.ancestors(c):
                if anc['k'] == 'IfStmt':
                    inthen = fn.within(c, anc['then'])
                    # the early-exit guard on (x2m, x3m) < near_0 does not contain the calls
                    v = _ev_cond(sym(fn, anc['cond'], inline=False), env)
                    if v is None:
                        raise AnalysisBroken('%s: cannot evaluate `%s`' % (fn.qname, fn.s(anc['cond'])))
                    if bool(v) != inthen:
                        ok = False
            if ok:
                if taken is not None:
                    raise AnalysisBroken('%s: two scaling calls on one path' % fn.qname)
                taken = c
        if taken is None:
            probs.append('magnitudes %s: no scaling call is reached' % (env,))
            continue
        nord += 1
        a = [sym(fn, y, inline=False) for y in fn.call_args(taken)]
        ks = [int(t[2][1]) if t[0] == '[]' and t[1] == ('L', 'u') and t[2][0] == 'lit' else None for t in a]
        if sorted(k for k in ks if k is not None) != [0, 1, 2]:
            probs.append('scaling call arguments are not a permutation of u[0], u[1], u[2]')
            continue
        if vals[ks[0]] != max(vals):
            probs.append('magnitudes (|u0|,|u1|,|u2|) ordered as %s: stable_scaling gets u[%d] first, which is not the largest' % (vals, ks[0]))
    ctx.check(not probs, 'reflector-sign-and-scaling-order', inst, fn.qname,
              'rho = -sign(x1) (+1 at 0) on the three sign cases, u = (x1 - rho|x|, x2, x3); on all %d orderings of the magnitudes the scaling helper receives the largest entry first' % nord
              if not probs else '; '.join(sorted(set(probs))[:3]))


def _ds_consumer(ctx, fn):
    inst = 'DoubleShiftQR::%s' % fn.name
    probs = []
    loops = [x for x in fn.walk() if x['k'] == 'ForStmt']
    if len(loops) != 1:
        raise AnalysisBroken('%s: expected one loop over the reflectors' % fn.qname)
    lp = loops[0]
    init = fn.node(lp['init'])
    ivar = fn.locals[init['decls'][0]['var']]['name']
    I = ('L', ivar)
    lo = sym(fn, init['decls'][0]['init'], inline=False)
    inc = sym(fn, lp['inc'], inline=False)
    incs = [inc] if inc[0] != ',' else list(inc[1:])
    if lo != ('lit', '0') or ('u++', I) not in incs:
        probs.append('reflectors are not applied for ascending index from 0 (Q = P0 P1 ...: Q\'y and Y Q both start with P0)')
    calls = [x for x in fn.walk() if x['k'] in ('CXXMemberCallExpr', 'CallExpr') and x.get('callee') in ('apply_PX', 'apply_XP')]
    want = 'apply_PX' if fn.name == 'apply_QtY' else 'apply_XP'
    if not calls or any(c['callee'] != want for c in calls):
        probs.append('%s must use %s' % (fn.name, want))
    for c in calls:
        a = [sym(fn, y, inline=False) for y in fn.call_args(c)]
        idx = a[-1]
        inloop = fn.within(c, lp['body'])
        if fn.name == 'apply_QtY':
            # pointer walk in lockstep with the index
            p = a[0]
            if not (p[0] == 'L' and ('u++', p) in incs):
                probs.append('the vector pointer is not advanced together with the reflector index')
            if idx != I:
                probs.append('reflector index %s is not the loop index' % show(idx))
        else:
            b = a[0]
            if b[0] != 'block' or len(b) != 6 or b[2] != ('lit', '0') or b[3] != idx:
                probs.append('block handed to apply_XP does not start at row 0 / the reflector\'s column: %s' % show(b))
            elif inloop and (idx != I or b[5] != ('lit', '3')):
                probs.append('in the loop the block must be 3 columns wide at column i')
            elif not inloop and b[5] != ('lit', '2'):
                probs.append('the last reflector acts on 2 columns')
    ctx.check(not probs, 'reflector-order-and-offsets', inst, fn.qname,
              'ascending reflector index from 0, %s at offset = index' % want if not probs else '; '.join(sorted(set(probs))))


def scaled_norms(ctx, rule='norm-computed-in-scaled-form'):
    """The property quantifies over entries near the overflow / underflow thresholds: a norm sqrt(x^2 + y^2 [+ z^2]) of raw
    entries overflows (or flushes to zero) although the norm itself is representable.  Every square root in the QR helpers must
    therefore be taken of a SCALED quantity, syntactically 1 + (sum of products of ratios); hypot / the scaled helpers are the
    accepted ways to obtain a norm."""
    n = 0
    seen = set()
    for fn in ctx.F.concrete():
        if fn.cls not in ('Spectra::UpperHessenbergQR', 'Spectra::TridiagQR', 'Spectra::DoubleShiftQR') or not fn.cfg or fn.mangled in seen:
            continue
        seen.add(fn.mangled)
        for x in fn.walk():
            if x['k'] == 'CallExpr' and x.get('callee') == 'sqrt':
                n += 1
                t = sym(fn, fn.call_args(x)[0])
                terms = _addends(t)
                has_one = any(a == ('lit', '1') for a in terms)
                squares = [a for a in terms if isinstance(a, tuple) and ((a[0] == '*' and len(a) == 3 and a[1] == a[2]) or (a[0] == 'call' and a[1] in ('abs2', 'norm')))]
                inst = '%s::%s' % (fn.cls.replace('Spectra::', ''), fn.name)
                if has_one:
                    ctx.ok(rule, inst, fn.qname, 'sqrt(%s): scaled form 1 + ...' % show(t))
                elif squares and len(squares) == len(terms):
                    ctx.fail(rule, inst, fn.qname, 'sqrt(%s): a sum of squares of unscaled entries overflows / underflows for entries beyond sqrt(max) / below sqrt(min) although the norm is representable; use hypot or the scaled helper' % show(t))
                else:
                    raise AnalysisBroken('%s: sqrt argument %s is neither a scaled form nor a plain sum of squares' % (fn.qname, show(t)))
    if n < 3:
        raise AnalysisBroken('only %d square roots found in the QR helpers (3 confirmed by hand)' % n)


def _addends(t):
    if isinstance(t, tuple) and t[0] == '+' and len(t) == 3:
        return _addends(t[1]) + _addends(t[2])
    return [t]


def output_fully_defined(ctx, rule='output-matrix-fully-overwritten'):
    """matrix_QtHQ(dest) OVERWRITES dest with Q'HQ: on every normal path the whole value of the output parameter is written
    (assignment, setZero / setIdentity of the resized object) before the member returns; writing only a band of a matrix that
    keeps its old content elsewhere returns something that is not Q'HQ."""
    from . import paths
    n = 0
    seen = set()
    for fn in ctx.F.concrete():
        if fn.cls not in ('Spectra::UpperHessenbergQR', 'Spectra::TridiagQR', 'Spectra::DoubleShiftQR') or fn.name != 'matrix_QtHQ' or not fn.cfg or fn.mangled in seen:
            continue
        seen.add(fn.mangled)
        n += 1
        pid = fn.params[0]
        fe = ctx.E.of(fn)
        whole = set()
        for a in fe.accesses:
            if a.path == ('%local', pid) and a.mode == 'w' and a.whole:
                nd = fn.nodes[a.node]
                if nd['k'] == 'CXXMemberCallExpr' and nd.get('callee') in ('resize', 'conservativeResize'):
                    continue
                whole.add(a.node)
        # a call handing dest to a sibling overload that overwrites it
        for x in fn.walk():
            if x['k'] == 'CXXMemberCallExpr' and x.get('callee') == 'matrix_QtHQ':
                whole.add(x['id'])
        hit = paths.search(fn, [], stop=lambda m: m['id'] in whole, target=lambda m: m['k'] == 'ReturnStmt',
                           include_entry=True, exit_is_target=lambda b: True, normal_only=True)
        inst = '%s::matrix_QtHQ' % fn.cls.replace('Spectra::', '')
        ctx.check(hit is None and bool(whole), rule, inst, fn.qname,
                  'every normal path writes the whole output (%d whole-object writes)' % len(whole) if hit is None and whole else
                  'a normal path returns without having written the whole output matrix: entries outside what this call writes keep the caller\'s old values')
    if n < 3:
        raise AnalysisBroken('only %d matrix_QtHQ members analysed' % n)


def reflector_storage_written(ctx, rule='reflector-entries-all-written'):
    """The appliers read the three stored entries of reflector `ind` (the vector form reads the third one unconditionally and
    relies on it being 0 for a two-row reflector).  On every path of compute_reflector that records a size other than 1, all
    three entries u[0], u[1], u[2] of column `ind` are assigned: an entry left from an earlier factorization (or never
    initialised) would enter Q'y."""
    from . import paths
    n = 0
    for fn in ctx.F.concrete():
        if fn.cls != 'Spectra::DoubleShiftQR' or fn.name != 'compute_reflector' or len(fn.params) != 4 or not fn.cfg:
            continue
        n += 1
        writes = {0: set(), 1: set(), 2: set()}
        size_one = set()
        for x in fn.walk():
            if x['k'] == 'BinaryOperator' and x.get('op') == '=':
                t = sym(fn, x, inline=False)
                if t[1][0] == '[]' and t[1][1] == ('L', 'u') and t[1][2][0] == 'lit' and int(t[1][2][1]) in writes:
                    writes[int(t[1][2][1])].add(x['id'])
                if t[1][0] == '[]' and t[1][1] == ('L', 'nr') and t[2] == ('lit', '1'):
                    size_one.add(x['id'])
        problems = []
        for k_ in (0, 1, 2):
            stop = writes[k_] | size_one
            hit = paths.search(fn, [], stop=lambda m: m['id'] in stop, target=lambda m: m['k'] == 'ReturnStmt',
                               include_entry=True, exit_is_target=lambda b: True, normal_only=True)
            if hit is not None or not writes[k_]:
                problems.append('a path that records a reflector of size 2 or 3 returns without assigning u[%d]' % k_)
        ctx.check(not problems, rule, 'DoubleShiftQR::compute_reflector', fn.qname,
                  'u[0], u[1], u[2] are assigned on every path that records a size other than 1' if not problems else '; '.join(problems))
    if n < 1:
        raise AnalysisBroken('compute_reflector not analysed')


def run(ctx):
    reflector_storage_written(ctx)
    rotations(ctx)
    double_shift(ctx)
    scaled_norms(ctx)
    output_fully_defined(ctx)
    series_branch(ctx)
    # each apply method acts on exactly the entries of its argument: the stride handed to the pointer kernels is the storage stride
    from . import c13
    c13.stride_arguments(ctx, 'apply-methods-walk-the-argument-storage')
    from . import stale
    stale.loop_buffers(ctx, scope=lambda fn: fn.cls in ('Spectra::UpperHessenbergQR', 'Spectra::TridiagQR', 'Spectra::DoubleShiftQR'), min_instances=4)
