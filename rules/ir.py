"""E3: effect scan over LLVM IR of the instantiation drivers (textual IR, no LLVM pass written).

Each driver is compiled with `clang++ -O0 -Xclang -disable-O0-optnone -S -emit-llvm` and cleaned with
`opt-14 -passes=function(sroa,instcombine,simplifycfg)` so that locals are SSA values and what remains as
load/store/call is a real memory effect.  From the text we build, per function: the instructions, the direct
callees, the globals referenced, and for every load / store / pointer argument the *root* of the address
(parameter i, own alloca, global g, or unknown).  Interprocedural summaries (may-read / may-write per parameter
and per global, `unknown` when an address escapes the analysis) are a fix point over the call graph.

This is an effect analysis: nothing is executed and no path is handed to a solver."""
import hashlib
import os
import re
import subprocess
from concurrent.futures import ThreadPoolExecutor

from . import build
from .facts import AnalysisBroken

IRFLAGS = ['-std=c++11', '-O0', '-Xclang', '-disable-O0-optnone', '-S', '-emit-llvm', '-I' + build.INCLUDE, '-I' + build.DRIVERS,
           '-isystem', '/usr/include/eigen3', '-Wno-everything', '-UNDEBUG']
OPT_PASSES = 'function(sroa,instcombine,simplifycfg)'


def _one(args):
    src, out = args
    raw = out + '.raw.ll'
    p = subprocess.run(['clang++'] + IRFLAGS + [src, '-o', raw], stdout=subprocess.PIPE, stderr=subprocess.PIPE, text=True)
    if p.returncode != 0:
        return src, False, p.stderr[-1500:]
    p = subprocess.run(['opt-14', '-passes=' + OPT_PASSES, '-S', raw, '-o', out + '.tmp'], stdout=subprocess.PIPE, stderr=subprocess.PIPE, text=True)
    if p.returncode != 0:
        return src, False, p.stderr[-1500:]
    os.remove(raw)
    os.replace(out + '.tmp', out)
    return src, True, ''


def build_ir(cache_dir, drivers, only=None):
    """Returns {driver basename: path of cleaned .ll}.  cache_dir is the fact cache of the current tree state."""
    d = os.path.join(cache_dir, 'ir')
    os.makedirs(d, exist_ok=True)
    jobs = []
    out = {}
    for s in drivers:
        b = os.path.basename(s)[:-4]
        if only and b not in only:
            continue
        o = os.path.join(d, b + '.ll')
        out[b] = o
        if not os.path.exists(o):
            jobs.append((s, o))
    if jobs:
        with ThreadPoolExecutor(max_workers=16) as ex:
            for src, ok, err in ex.map(_one, jobs):
                if not ok:
                    raise AnalysisBroken('IR generation failed for %s: %s' % (src, err))
    return out


# ---------------------------------------------------------------------------------------------------
_DEF = re.compile(r'^define\s+(.*?)@("[^"]+"|[\w.$]+)\((.*)\)\s*([^{]*)\{\s*$')
_DECL = re.compile(r'^declare\s+(.*?)@("[^"]+"|[\w.$]+)\(')
_GLOB = re.compile(r'^@("[^"]+"|[\w.$]+)\s*=\s*(.*)$')
_ATTR = re.compile(r'^attributes #(\d+) = \{(.*)\}\s*$')
_SYM = re.compile(r'@("[^"]+"|[\w.$]+)')
_VAL = re.compile(r'%("[^"]+"|[\w.]+)')


class IRFunc:
    __slots__ = ('name', 'params', 'attrs', 'body', 'linkage', 'callees', 'globals', 'pretty', 'module', 'sret')

    def __init__(self, name, params, attrs, linkage, module):
        self.name = name
        self.params = params      # list of SSA names ('%0', ...) in order
        self.attrs = attrs        # set of attribute words
        self.body = []            # instruction lines (stripped)
        self.linkage = linkage
        self.callees = set()
        self.globals = set()
        self.pretty = name
        self.module = module
        self.sret = None


class Module:
    def __init__(self, path):
        self.path = path
        self.funcs = {}
        self.decls = set()
        self.globals = {}         # name -> {'constant': bool, 'tls': bool, 'linkage': str, 'external': bool}
        self.aliases = {}         # alias name -> aliasee (constructor / destructor variants)
        self._parse()

    def _parse(self):
        groups = {}
        cur = None
        with open(self.path) as fh:
            lines = fh.readlines()
        for ln in lines:
            m = _ATTR.match(ln)
            if m:
                groups[m.group(1)] = set(re.findall(r'[A-Za-z_]+(?=[\s}]|$)', re.sub(r'"[^"]*"(="[^"]*")?', '', m.group(2))))
        for ln in lines:
            s = ln.rstrip('\n')
            if cur is None:
                m = _DEF.match(s)
                if m:
                    pre, name, params, post = m.groups()
                    name = name.strip('"')
                    attrs = set(re.findall(r'[a-z_]+', re.sub(r'"[^"]*"', '', post.split('!')[0])))
                    for g in re.findall(r'#(\d+)', post):
                        attrs |= groups.get(g, set())
                    # parameters: split on top-level commas, the SSA name is the last %token
                    ps = []
                    depth = 0
                    curp = ''
                    for ch in params:
                        if ch in '([{<':
                            depth += 1
                        elif ch in ')]}>':
                            depth -= 1
                        if ch == ',' and depth == 0:
                            ps.append(curp)
                            curp = ''
                        else:
                            curp += ch
                    if curp.strip():
                        ps.append(curp)
                    pn = []
                    sret = None
                    for pi, p in enumerate(ps):
                        v = _VAL.findall(p)
                        pn.append(('%' + v[-1].strip('"')) if v else None)
                        if 'sret(' in p:
                            sret = pi          # hidden return slot of a function returning an aggregate
                    cur = IRFunc(name, pn, attrs, pre.split()[0] if pre.split() else 'external', self)
                    cur.sret = sret
                    self.funcs[name] = cur
                    continue
                m = _DECL.match(s)
                if m:
                    self.decls.add(m.group(2).strip('"'))
                    continue
                m = _GLOB.match(s)
                if m:
                    rest = m.group(2)
                    words = rest.split()
                    if re.search(r'\balias\b', rest.split('(')[0]):
                        tgt = _SYM.findall(rest)
                        if tgt:
                            self.aliases[m.group(1).strip('"')] = tgt[-1].strip('"')
                        continue
                    kind = 'constant' if re.search(r'\bconstant\b', rest.split('{')[0].split('[')[0].split('c"')[0]) else ('global' if re.search(r'\bglobal\b', rest) else 'alias')
                    self.globals[m.group(1).strip('"')] = {'constant': kind == 'constant', 'tls': 'thread_local' in words,
                                                          'linkage': words[0] if words else '', 'external': 'external' in words[:2], 'kind': kind}
            else:
                if s == '}':
                    cur = None
                    continue
                t = s.strip()
                if not t or t.startswith(';'):
                    continue
                cur.body.append(t)
        for f in self.funcs.values():
            for t in f.body:
                for sym in _SYM.findall(t):
                    sym = sym.strip('"')
                    sym = self.aliases.get(sym, sym)
                    if sym in self.funcs or sym in self.decls:
                        f.callees.add(sym)
                    elif sym in self.globals:
                        f.globals.add(sym)


def demangle(names):
    names = list(names)
    if not names:
        return {}
    p = subprocess.run(['c++filt'], input='\n'.join(names) + '\n', stdout=subprocess.PIPE, text=True)
    out = p.stdout.split('\n')
    return {n: out[i] if i < len(out) else n for i, n in enumerate(names)}


# ---------------------------------------------------------------------------------------------------
# address roots and effects of one function
# ---------------------------------------------------------------------------------------------------
_ASSIGN = re.compile(r'^(%("[^"]+"|[\w.]+))\s*=\s*(.*)$')
PURE_OPS = {'add', 'sub', 'mul', 'udiv', 'sdiv', 'urem', 'srem', 'shl', 'lshr', 'ashr', 'and', 'or', 'xor', 'icmp', 'fcmp', 'select',
            'zext', 'sext', 'trunc', 'fadd', 'fsub', 'fmul', 'fdiv', 'frem', 'fneg', 'sitofp', 'uitofp', 'fptosi', 'fptoui', 'fpext',
            'fptrunc', 'phi', 'ret', 'br', 'switch', 'unreachable', 'bitcast', 'getelementptr', 'extractvalue', 'insertvalue',
            'freeze', 'extractelement', 'insertelement', 'shufflevector'}
LABEL = re.compile(r'^[\w.$"-]+:')


class FnEffect:
    """reads / writes: sets of roots ('arg', i) | ('global', name) | ('unknown',) ; calls: [(callee, [root-set per pointer arg])]"""

    def __init__(self, f):
        self.f = f
        self.reads = set()
        self.writes = set()
        self.calls = []
        self.other = []        # opcodes outside PURE_OPS / load / store / call / alloca
        self.escapes = []      # ptrtoint etc.
        self._scan()

    def _scan(self):
        f = self.f
        root = {}
        for i, p in enumerate(f.params):
            if p:
                root[p] = {('arg', i)}

        def roots_of(tok):
            tok = tok.strip()
            if tok.startswith('@'):
                return {('global', tok[1:].strip('"'))}
            if tok in root:
                return root[tok]
            if tok in ('null', 'undef', 'poison'):
                return set()
            return {('unknown',)}

        def ptr_operand(text):
            """roots of the pointer an address expression denotes (handles constant-expression GEP / bitcast)."""
            m = re.search(r'(%("[^"]+"|[\w.]+)|@("[^"]+"|[\w.$]+))', text)
            if not m:
                return {('unknown',)}
            return roots_of(m.group(1))

        # two passes so that phis referring to later values still get roots
        for _ in range(2):
            for t in f.body:
                if LABEL.match(t):
                    continue
                m = _ASSIGN.match(t)
                if not m:
                    continue
                dst, rhs = m.group(1), m.group(3)
                op = rhs.split()[0]
                if op == 'alloca':
                    root[dst] = {('alloca', dst)}
                elif op in ('getelementptr', 'bitcast', 'addrspacecast'):
                    # first pointer operand
                    body = rhs[len(op):]
                    body = body.replace('inbounds', '')
                    ops = re.findall(r'(%(?:"[^"]+"|[\w.]+)|@(?:"[^"]+"|[\w.$]+))', body)
                    # skip type names like %"class.X"* : they are followed by '*' or ',' in a type position; the
                    # operand is the token that follows a '*' type -- take the first token preceded by '* '
                    mm = re.search(r'\*\s+(%(?:"[^"]+"|[\w.]+)|@(?:"[^"]+"|[\w.$]+))', body)
                    if mm:
                        root[dst] = set(roots_of(mm.group(1)))
                    elif ops:
                        root[dst] = set(roots_of(ops[-1]))
                elif op in ('select', 'phi'):
                    rs = set()
                    if 'i1' in rhs or op == 'phi':
                        for tok in re.findall(r'(%(?:"[^"]+"|[\w.]+)|@(?:"[^"]+"|[\w.$]+)|null|undef)', rhs):
                            if tok.startswith('%"class') or tok.startswith('%"struct') or tok.startswith('%class') or tok.startswith('%struct') or tok.startswith('%union'):
                                continue
                            if re.match(r'^%[\w.]+$', tok) and tok not in root and op == 'phi' and not tok[1:].isdigit() and tok not in f.params:
                                # block label in a phi
                                if ('[' in rhs):
                                    pass
                            rs |= roots_of(tok) if (tok in root or tok.startswith('@') or tok in ('null', 'undef')) else set()
                    if '*' in rhs.split(',')[0] or op == 'phi' and '*' in rhs.split('[')[0]:
                        root[dst] = rs if rs else {('unknown',)}
                elif op in ('load', 'call', 'invoke', 'inttoptr', 'extractvalue', 'landingpad'):
                    if dst not in root:
                        root[dst] = {('unknown',)}
        for t in f.body:
            if LABEL.match(t):
                continue
            m = _ASSIGN.match(t)
            rhs = m.group(3) if m else t
            op = rhs.split()[0]
            if op in ('tail', 'musttail', 'notail'):
                op = rhs.split()[1]
                rhs = rhs.split(None, 1)[1]
            if op == 'load':
                mm = re.search(r',\s*[^,]*?\*\s+(.*?)(,|$)', rhs)
                self.reads |= ptr_operand(mm.group(1)) if mm else {('unknown',)}
            elif op == 'store':
                mm = re.search(r',\s*[^,]*?\*\s+(.*?)(,|$)', rhs)
                self.writes |= ptr_operand(mm.group(1)) if mm else {('unknown',)}
                # storing a pointer value lets it escape into memory
                vm = re.match(r'store\s+(?:volatile\s+)?([^,]*\*)\s+(%(?:"[^"]+"|[\w.]+)|@(?:"[^"]+"|[\w.$]+))\s*,', rhs)
                if vm:
                    self.escapes.append(('store-ptr', vm.group(2)))
            elif op in ('call', 'invoke'):
                cm = re.search(r'@("[^"]+"|[\w.$]+)\(', rhs)
                callee = cm.group(1).strip('"') if cm else None
                argtext = rhs[rhs.index('(', cm.start() if cm else 0) + 1:] if '(' in rhs else ''
                args = []
                depth = 0
                cur = ''
                for ch in argtext:
                    if ch in '([{<':
                        depth += 1
                    elif ch in ')]}>':
                        if depth == 0:
                            break
                        depth -= 1
                    if ch == ',' and depth == 0:
                        args.append(cur)
                        cur = ''
                    else:
                        cur += ch
                if cur.strip():
                    args.append(cur)
                ar = []
                for a in args:
                    a = a.strip()
                    if '*' in a.split('%')[0].split('@')[0] or re.search(r'\*\s', a):
                        ar.append(ptr_operand(re.sub(r'^.*?\*\s*(noundef|nonnull|align \d+|dereferenceable\(\d+\)|nocapture|readonly|writeonly|sret\([^)]*\)|byval\([^)]*\)|noalias|\s)*', '', a, count=1) or a))
                    else:
                        ar.append(None)
                self.calls.append((callee, ar))
            elif op in ('alloca',):
                pass
            elif op in ('ptrtoint', 'inttoptr', 'va_arg', 'atomicrmw', 'cmpxchg', 'fence'):
                self.escapes.append((op, t[:80]))
            elif op in ('landingpad', 'resume', 'cleanupret', 'catchswitch', 'catchpad', 'cleanuppad', 'catchret'):
                pass
            elif op not in PURE_OPS:
                self.other.append(op)

    def is_pure_arith(self):
        """No memory access, no call, no address arithmetic escaping: the result depends on the arguments only."""
        return not self.reads and not self.writes and not self.calls and not self.escapes and not self.other


def summaries(mods):
    """Fix point: for every defined function the set of roots it may read / write through itself or callees.
    Roots of a callee's ('arg', i) are mapped to the caller's roots of that argument; unknown callees that take
    pointers make those roots read+written; a global referenced anywhere is recorded."""
    funcs = {}
    for m in mods:
        for n, f in m.funcs.items():
            funcs.setdefault(n, f)
    eff = {n: FnEffect(f) for n, f in funcs.items()}
    rd = {n: set(r for r in e.reads if r[0] != 'alloca') for n, e in eff.items()}
    wr = {n: set(r for r in e.writes if r[0] != 'alloca') for n, e in eff.items()}
    changed = True
    it = 0
    while changed and it < 50:
        changed = False
        it += 1
        for n, e in eff.items():
            for callee, args in e.calls:
                if callee in funcs:
                    for (src, dst) in ((rd[callee], rd[n]), (wr[callee], wr[n])):
                        for r in src:
                            if r[0] == 'arg':
                                rs = args[r[1]] if r[1] < len(args) and args[r[1]] is not None else {('unknown',)}
                                new = set(x for x in rs if x[0] != 'alloca')
                            else:
                                new = {r}
                            if not new <= dst:
                                dst |= new
                                changed = True
                else:
                    nm = callee or '<indirect>'
                    if nm.startswith('llvm.') and not nm.startswith('llvm.mem'):
                        continue
                    for a in args:
                        if a is None:
                            continue
                        new = set(x for x in a if x[0] != 'alloca')
                        if nm.startswith('llvm.mem'):
                            pass
                        for dst in (rd[n], wr[n]):
                            if not new <= dst:
                                dst |= new
                                changed = True
    return funcs, eff, rd, wr


def is_spectra(mangled):
    """A function (or function-local entity) whose own name is in namespace Spectra -- decided on the mangled name,
    because a demangled template function starts with its return type."""
    return re.match(r'^_ZZ?N[KO]?7Spectra', mangled) is not None


CONSTANT_PREFIXES = ('_ZTV', '_ZTI', '_ZTS', '_ZTT', '.str', '__PRETTY_FUNCTION__', '__func__', 'llvm.', '__dso_handle', 'switch.table')


def mutable_global(name, info):
    if info.get('constant'):
        return False
    if name.startswith(CONSTANT_PREFIXES):
        return False
    return True


class Program:
    """All driver modules linked by name (linkonce_odr definitions are identical across modules)."""

    def __init__(self, paths):
        self.mods = [Module(p) for p in paths]
        self.funcs = {}
        self.globals = {}
        self.decls = set()
        for m in self.mods:
            for n, f in m.funcs.items():
                self.funcs.setdefault(n, f)
            for g, i in m.globals.items():
                if g not in self.globals or (self.globals[g].get('external') and not i.get('external')):
                    self.globals[g] = i
            self.decls |= m.decls
        self.decls -= set(self.funcs)
        self.pretty = demangle(list(self.funcs) + sorted(self.decls) + list(self.globals))

    def reachable(self, roots):
        seen = set()
        stack = list(roots)
        while stack:
            n = stack.pop()
            if n in seen:
                continue
            seen.add(n)
            f = self.funcs.get(n)
            if f is not None:
                stack.extend(f.callees)
        return seen
