"""DEF: definite (re)assignment.  Forward must-analysis of killed fields through a function's CFG, with
interprocedural summaries:
    MK(f) = access paths overwritten as a whole on every normal path of f           (under-approximated)
    UE(f) = access paths f may read before having overwritten them itself           (over-approximated)
Paths are tuples of field names relative to `this` (sub-objects held by value are followed).  A read is
anything that is not a whole-object write; a kill is `x = ..`, `x.noalias() = ..`, `x.swap(..)`, `x.setZero()` ...
on the whole object, or handing `x.data()` to the output parameter of an operator application (contract: an
operator overwrites all of y_out)."""
from .facts import AnalysisBroken

TOP = None   # "everything killed" (unreached code)


def _meet(a, b):
    if a is TOP:
        return b
    if b is TOP:
        return a
    return a & b


def covered(path, killed):
    if killed is TOP:
        return True
    for i in range(1, len(path) + 1):
        if path[:i] in killed:
            return True
    return False


class DefUse:
    def __init__(self, ctx):
        self.F = ctx.F
        self.E = ctx.E
        self._sum = {}

    # ------------------------------------------------------------------
    def _events(self, fn):
        """position (block, index) -> ordered list of (kind, path, extra) for the element at that position."""
        fe = self.E.of(fn)
        ev = {}
        for a in fe.accesses:
            if a.path and a.path[0] == '%local':
                continue
            pos = fn.pos_of(a.node)
            if pos is None:
                continue
            ev.setdefault(pos, []).append(a)
        return ev

    def _output_buffer_kills(self, fn):
        """call node id -> paths killed because `<path>.data()` is the output argument of an operator application."""
        out = {}
        fe = self.E.of(fn)
        for n in fn.walk():
            if n['k'] == 'CXXMemberCallExpr' and n.get('callee') == 'perform_op':
                args = fn.call_args(n)
                if len(args) == 2:
                    a = fn.strip(args[1])
                    if a is not None and a['k'] == 'CXXMemberCallExpr' and a.get('callee') == 'data':
                        o = fn.call_object(a)
                        p = fe._expr_path(o) if o is not None else None
                        if p is not None and p and p[0] != '%local':
                            # only when the object itself (not a sub-view) is handed over
                            oo = fn.strip(o)
                            if oo['k'] == 'MemberExpr' and oo.get('mk') == 'field':
                                out.setdefault(n['id'], []).append(p)
        return out

    def summary(self, fn, _stack=frozenset()):
        key = fn.mangled or id(fn)
        if key in self._sum:
            return self._sum[key]
        if key in _stack or not fn.cfg:
            return (set(self.E.may_read(fn)), set())
        _stack = _stack | {key}
        ev = self._events(fn)
        obk = self._output_buffer_kills(fn)
        blocks = fn.cfg['blocks']
        ids = [b['id'] for b in blocks]
        entry, exit_ = fn.cfg['entry'], fn.cfg['exit']
        preds = fn.preds()
        IN = {i: TOP for i in ids}
        IN[entry] = frozenset()
        OUT = {i: TOP for i in ids}
        ue = set()

        def transfer(bid, state, collect):
            if state is TOP:
                return TOP
            st = set(state)
            for i, e in enumerate(fn.blocks[bid]['elems']):
                accs = ev.get((bid, i), [])
                # reads first, then calls, then writes (an element is one expression node)
                outbuf = obk.get(e, ()) if isinstance(e, int) else ()
                for a in accs:
                    if a.mode == 'r':
                        if a.path in outbuf:
                            continue      # the buffer is handed over as the operator's output: not a read
                        if collect and not covered(a.path, st):
                            ue.add(a.path)
                for a in accs:
                    if a.mode == 'call':
                        call = fn.nodes[a.via]
                        targets = self.E._callee_targets(call)
                        if not targets:
                            continue
                        mk_all = None
                        for t in targets:
                            cu, cm = self.summary(t, _stack)
                            if collect:
                                for p in cu:
                                    q = a.path + p
                                    if not covered(q, st):
                                        ue.add(q)
                            mk_all = set(cm) if mk_all is None else (mk_all & cm)
                        for p in (mk_all or ()):
                            st.add(a.path + p)
                for a in accs:
                    if a.mode == 'w' and a.whole:
                        st.add(a.path)
                if isinstance(e, int) and e in obk:
                    for p in obk[e]:
                        st.add(p)
            return frozenset(st)

        changed = True
        rounds = 0
        while changed and rounds < 100:
            changed = False
            rounds += 1
            for b in ids:
                if b != entry:
                    acc = TOP
                    for p in preds[b]:
                        acc = _meet(acc, OUT[p])
                    IN[b] = acc
                o = transfer(b, IN[b], False)
                if o != OUT[b]:
                    OUT[b] = o
                    changed = True
        for b in ids:
            transfer(b, IN[b], True)
        # must-kill at normal exits: predecessors of the exit block that do not end in a throw
        mk = TOP
        for p in preds[exit_]:
            if fn.block_ends_in_throw(p) or fn.blocks[p].get('noreturn'):
                continue
            mk = _meet(mk, OUT[p])
        if mk is TOP:
            mk = frozenset()
        res = (ue, set(mk))
        self._sum[key] = res
        return res
