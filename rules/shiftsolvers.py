"""Rules about the solver classes that iterate on a transformed spectrum (shift-and-invert, buckling, Cayley):
the override of the final sort back-transforms the first nev Ritz values and then runs the base sort on every path."""
from .facts import AnalysisBroken
from . import paths
from .sym import sym, show
from .eigsbase import short, loop_range, split_index, SOLVER_TMPLS


def overrides_of_final_sort(ctx, base_tq):
    out = []
    for fn in ctx.F.concrete():
        if fn.name == 'sort_ritzpair' and fn.d.get('overrides') and fn.cls != base_tq:
            base = [ctx.F.by_mangled.get(m) for m in fn.d['overrides']]
            base = [b for b in base if b is not None]
            if base and base[0].cls == base_tq:
                out.append((fn, base[0]))
    return out


def backtransform_before_sort(ctx, base_tq, floor, rule='backtransform-then-base-sort'):
    ovs = overrides_of_final_sort(ctx, base_tq)
    if len(ovs) < floor:
        raise AnalysisBroken('%d overrides of %s::sort_ritzpair analysed, fewer than the %d confirmed by hand' % (len(ovs), base_tq, floor))
    for fn, base in ovs:
        inst = '%s::sort_ritzpair' % short(fn.cls)
        problems = []
        base_calls = [n for n in fn.walk() if n['k'] == 'CXXMemberCallExpr' and n.get('mangled') == base.mangled]
        ids = set(n['id'] for n in base_calls)
        if not base_calls:
            problems.append('does not call the base sort')
        else:
            hit = paths.search(fn, [], stop=lambda n: n['id'] in ids, target=lambda n: n['k'] == 'ReturnStmt',
                               include_entry=True, exit_is_target=lambda b: True, normal_only=True)
            if hit is not None:
                problems.append('a normal path leaves the override without running the base sort: ' + ' -> '.join(hit[-3:]))
            # the rule argument is forwarded unchanged
            pr = [fn.locals[v]['name'] for v in fn.params]
            for c in base_calls:
                a = fn.call_args(c)
                if len(a) != 1 or sym(fn, a[0], inline=False) != ('P', pr[0]):
                    problems.append('base sort receives %s, not the caller\'s rule' % (fn.s(a[0]) if a else '?'))
        # value field = the one the base's eigenvalues() reads besides the flags: take it from the base permuter's writes
        fe = ctx.E.of(fn)
        bw = set(p[0] for p in ctx.E.may_write(base) if p)
        writes = [a for a in fe.accesses if a.mode == 'w' and a.path and a.path[0] in bw and a.path[0] != '%local']
        val_fields = sorted(set(a.path[0] for a in writes))
        if len(val_fields) != 1:
            problems.append('override writes %s (expected exactly the Ritz values)' % val_fields)
        else:
            vf = val_fields[0]
            wids = set(a.node for a in writes)
            # nothing is written after the base sort
            starts = [fn.pos_of(c) for c in base_calls]
            hit = paths.search(fn, [s for s in starts if s], stop=lambda n: False, target=lambda n: n['id'] in wids)
            if hit is not None:
                problems.append('Ritz values are modified after the base sort: ' + hit[-1])
            # the writes cover entries [0, nev)
            nev = None
            covered = False
            for a in writes:
                n = fn.nodes[a.node]
                if n['k'] not in ('BinaryOperator', 'CXXOperatorCallExpr') or n.get('op') != '=':
                    continue
                t = sym(fn, n, inline=False)
                lhs = t[1]
                if lhs[0] == 'head' and lhs[1] == ('F', vf) and lhs[2][0] == 'F':
                    covered = True
                    nev = lhs[2][1]
                    # right-hand side reads the same prefix only
                    from .sym import contains
                    if contains(t[2], lambda x: isinstance(x, tuple) and x[0] in ('tail', 'segment')):
                        problems.append('back-transformation reads outside the first nev values')
                elif lhs[0] == '[]' and lhs[1] == ('F', vf):
                    loops = [x for x in fn.ancestors(n) if x['k'] == 'ForStmt']
                    rg = loop_range(fn, loops[-1]) if loops else None
                    if rg and rg[1] == ('lit', '0') and rg[2][0] == 'F' and lhs[2] == ('L', rg[0]):
                        covered = True
                        nev = rg[2][1]
            if not covered:
                problems.append('no write covers the first nev Ritz values (head(nev) = ... or a loop over [0, nev))')
            else:
                # nev is the base's requested-count field (the one bounding the base permutation)
                from .eigsbase import indexed_copies
                rgs = set()
                for n2, dst, src, loop in indexed_copies(base):
                    r = loop_range(base, loop)
                    if r:
                        rgs.add(r[2])
                if ('F', nev) not in rgs:
                    problems.append('back-transformation covers [0, %s) but the base sort permutes %s' % (nev, sorted(show(r) for r in rgs)))
        ctx.check(not problems, rule, inst, fn.qname,
                  'first nev Ritz values rewritten, then base sort on every normal path, nothing written afterwards'
                  if not problems else '; '.join(problems))


def shifted_classes_override(ctx, base_tq, rule='shifted-solver-overrides-sort'):
    """A solver class that installs a shift on its operator must override the final sort."""
    n = 0
    recs = set(f.record for f in ctx.F.concrete() if f.cls in SOLVER_TMPLS and f.cls != base_tq)
    for rec in sorted(recs):
        ms = ctx.F.methods(rec)
        if not ms:
            continue
        # does it derive from this base?
        rr = [r for r in ctx.F.records.values() if r['qname'] == rec and not r['dep']]
        if not rr or not any(b['tmpl'] == base_tq for b in rr[0]['bases']):
            continue
        installs = any(c['k'] == 'CXXMemberCallExpr' and c.get('callee') == 'set_shift' for f in ms for c in f.walk())
        if not installs:
            continue
        n += 1
        has = any(f.name == 'sort_ritzpair' and f.d.get('overrides') for f in ms)
        ctx.check(has, rule, short(ms[0].cls), rec,
                  'installs a shift and overrides the final sort' if has else
                  'installs a shift on the operator but reports eigenvalues without transforming them back')
    return n


def _vanishes(fn, t, raw, depth=0):
    """True when the expression is DEFINITELY zero once every variable in `raw` is zero (structural: a sum vanishes when both
    terms do, a product when one factor does, a quotient with its numerator, sqrt/abs/conj with their argument)."""
    if depth > 12 or not isinstance(t, tuple):
        return False
    if t[0] == 'L':
        if t[1] in raw:
            return True
        inits = [d['init'] for x in fn.walk() if x['k'] == 'DeclStmt' for d in x['decls'] if 'init' in d and fn.locals[d['var']]['name'] == t[1]]
        return len(inits) == 1 and _vanishes(fn, sym(fn, inits[0], inline=False), raw, depth + 1)
    if t[0] == '*':
        return any(_vanishes(fn, u, raw, depth + 1) for u in t[1:])
    if t[0] == '/':
        return _vanishes(fn, t[1], raw, depth + 1)
    if t[0] in ('+', '-') and len(t) == 3:
        return all(_vanishes(fn, u, raw, depth + 1) for u in t[1:])
    if t[0] in ('neg', 'u-', 'cast') and len(t) == 2:
        return _vanishes(fn, t[1], raw, depth + 1)
    if t[0] == 'call' and t[1] in ('sqrt', 'abs', 'conj', 'real', 'imag', 'norm') and len(t) == 3:
        return _vanishes(fn, t[2], raw, depth + 1)
    if t[0] == 'ctor' and len(t) >= 3:
        return all(_vanishes(fn, u, raw, depth + 1) for u in t[2:])
    if t[0] == '?:':
        return _vanishes(fn, t[2], raw, depth + 1) and _vanishes(fn, t[3], raw, depth + 1)
    return False


def _mentions(fn, t, raw, depth=0):
    if depth > 12 or not isinstance(t, tuple):
        return False
    if t[0] == 'L':
        if t[1] in raw:
            return True
        inits = [d['init'] for x in fn.walk() if x['k'] == 'DeclStmt' for d in x['decls'] if 'init' in d and fn.locals[d['var']]['name'] == t[1]]
        return len(inits) == 1 and _mentions(fn, sym(fn, inits[0], inline=False), raw, depth + 1)
    return any(_mentions(fn, u, raw, depth + 1) for u in t[1:])


def complex_shift_backtransform_defined_at_zero(ctx, rule='back-transformation-defined-for-a-zero-ritz-value'):
    """GenEigsComplexShiftSolver iterates with Re((A - sigma I)^-1), whose eigenvalues are nu = (lambda - sigmar) / |lambda - sigma|^2
    for real lambda: nu is EXACTLY zero for a real eigenvalue equal to Re sigma -- the identity with sigmar = 1, the zero matrix
    with sigmar = 0, c I, any diagonal entry equal to sigmar, symmetric zero-diagonal matrices from unit start vectors: all named
    by the quantifiers of C13 and C02, and A - sigma I is far from singular.  (The real-shift operators are nonsingular: no
    converged Ritz value is zero there.)  Every division in the back-transformation whose divisor vanishes with the raw Ritz
    value must therefore sit on the non-zero side of an exact test of that value; 0.5 / nu = inf, inf - inf = NaN otherwise."""
    fns = ctx.F.insts('Spectra::GenEigsComplexShiftSolver::sort_ritzpair')
    if not fns:
        raise AnalysisBroken('GenEigsComplexShiftSolver::sort_ritzpair not instantiated')
    ndiv = 0
    for fn in fns[:2]:
        raw = set(fn.locals[d['var']]['name'] for x in fn.walk() if x['k'] == 'DeclStmt' for d in x['decls']
                  if 'init' in d and sym(fn, d['init'], inline=False)[:2] == ('[]', ('F', 'm_ritz_val')))
        if not raw:
            raise AnalysisBroken('%s: no local holds a raw Ritz value' % fn.qname)
        problems, seen = [], 0
        for x in fn.walk():
            if not (x['k'] in ('CXXOperatorCallExpr', 'BinaryOperator') and x.get('op') == '/'):
                continue
            ops = fn.call_args(x) if x['k'] == 'CXXOperatorCallExpr' else [fn.nodes[c] for c in x['c']]
            den = sym(fn, ops[1], inline=False)
            if not _mentions(fn, den, raw):
                continue
            seen += 1
            if not _vanishes(fn, den, raw):
                continue
            guarded = False
            for a in fn.ancestors(x):
                if a['k'] == 'ConditionalOperator':
                    c = sym(fn, fn.nodes[a['c'][0]], inline=False)
                    side = 1 if fn.within(x, a['c'][1]) else 2 if fn.within(x, a['c'][2]) else 0
                elif a['k'] == 'IfStmt':
                    c = sym(fn, a['cond'], inline=False)
                    side = 1 if fn.within(x, a['then']) else 2 if a.get('else', -1) not in (None, -1) and fn.within(x, a['else']) else 0
                else:
                    continue
                if c[0] in ('==', '!=') and any(u == ('lit', '0') or (u[0] == 'ctor' and u[-1] == ('lit', '0')) for u in c[1:]) and any(u[0] == 'L' and u[1] in raw for u in c[1:]):
                    if (c[0] == '==' and side == 2) or (c[0] == '!=' and side == 1):
                        guarded = True
            if not guarded:
                problems.append('`%s` divides by %s, which is zero for a Ritz value that is exactly zero' % (fn.s(x)[:44], show(den)))
        ndiv += seen
        ctx.check(not problems, rule, 'GenEigsComplexShiftSolver::sort_ritzpair', fn.qname,
                  '%d division(s) involve the raw Ritz value %s; those whose divisor vanishes with it are taken only on the non-zero side of an exact test' % (seen, sorted(raw)) if not problems else
                  '; '.join(problems) + ': a real eigenvalue equal to Re(sigma) (identity with sigmar = 1, zero matrix with sigmar = 0) gives inf - inf = NaN eigenvalues with info() == Successful')
    if ndiv < 2:
        raise AnalysisBroken('only %d division(s) by the Ritz value found in the complex-shift back-transformation' % ndiv)


def complex_shift_double_root_avoided(ctx, rule='back-transformation-conditioned-at-the-double-root'):
    """lambda = sigmar + (1 +- sqrt(1 - 4 sigmai^2 nu^2)) / (2 nu): where the discriminant vanishes -- an eigenvalue at distance
    |Im sigma| from Re sigma, which the quantifier of C02 names -- d lambda / d nu is unbounded and the square root returns
    only half of the digits of nu: the eigenvalue comes back with an error of sqrt(eps) |sigmai| (4e-8 for O(1) matrices,
    whatever the tolerance), and the residual of the returned pair with it.  The member already computes inv(A - r I) v for a real
    probe shift r to choose between the roots; v^H v / v^H inv(A - r I) v = lambda - r gives the eigenvalue without a square
    root.  Structural condition: the value stored as the Ritz value is, under a test that the discriminant is small, assigned
    from an expression that involves the probe products and neither the discriminant nor the roots."""
    fns = ctx.F.insts('Spectra::GenEigsComplexShiftSolver::sort_ritzpair')
    if not fns:
        raise AnalysisBroken('GenEigsComplexShiftSolver::sort_ritzpair not instantiated')
    for fn in fns[:2]:
        raw = set(fn.locals[d['var']]['name'] for x in fn.walk() if x['k'] == 'DeclStmt' for d in x['decls']
                  if 'init' in d and sym(fn, d['init'], inline=False)[:2] == ('[]', ('F', 'm_ritz_val')))
        decls = {fn.locals[d['var']]['name']: sym(fn, d['init'], inline=False) for x in fn.walk() if x['k'] == 'DeclStmt' for d in x['decls'] if 'init' in d}
        disc = [nm for nm, t in decls.items() if 'sqrt(' in show(t) and _mentions(fn, t, raw) and 'sigmai' in show(t)]
        if not disc:
            raise AnalysisBroken('%s: discriminant of the back-transformation not found' % fn.qname)
        dep_on_disc = set(disc)
        changed = True
        while changed:
            changed = False
            for nm, t in decls.items():
                if nm not in dep_on_disc and any(('L', d_) in _atoms(t) for d_ in dep_on_disc):
                    dep_on_disc.add(nm)
                    changed = True
        # the variable stored into the Ritz value
        stores = [sym(fn, x, inline=False) for x in fn.walk() if x['k'] in ('CXXOperatorCallExpr', 'BinaryOperator') and x.get('op') == '=' and
                  sym(fn, x, inline=False)[1][:2] == ('[]', ('F', 'm_ritz_val'))]
        held = set(t[2][1] for t in stores if t[2][0] == 'L')
        # accumulators fed by the probe products
        probe = set()
        for x in fn.walk():
            if x['k'] in ('CompoundAssignOperator', 'CXXOperatorCallExpr') and x.get('op') == '+=':
                t = sym(fn, x, inline=False)
                if t[1][0] == 'L' and 'OPv' in show(t[2]):
                    probe.add(t[1][1])
        ok, why = False, 'no assignment of the stored eigenvalue avoids the square root'
        for x in fn.walk():
            if x['k'] not in ('CXXOperatorCallExpr', 'BinaryOperator') or x.get('op') != '=':
                continue
            t = sym(fn, x, inline=False)
            if t[1][0] != 'L' or t[1][1] not in held:
                continue
            at = _atoms(t[2])
            if any(('L', d_) in at for d_ in dep_on_disc) or not any(('L', p_) in at for p_ in probe):
                continue
            conds = [show(sym(fn, i['cond'], inline=False)) for i in fn.ancestors(x) if i['k'] == 'IfStmt' and fn.within(x, i['then'])]
            if any(('abs(%s)' % d_) in c and '<' in c for c in conds for d_ in disc):
                ok, why = True, '`%s` under `%s`' % (fn.s(x)[:50], conds[0][:80])
        ctx.check(ok, rule, 'GenEigsComplexShiftSolver::sort_ritzpair', fn.qname,
                  'near the double root the eigenvalue is taken from the probe solve: %s' % why if ok else
                  'the eigenvalue is always returned as a root (1 +- %s) / (2 nu) of the quadratic: where the discriminant vanishes (an eigenvalue at distance |Im sigma| from Re sigma) '
                  'half of the digits are lost, the pair comes back with an error of sqrt(eps) |sigmai| whatever the tolerance; %s' % (disc[0], why))


def _atoms(t):
    out = set()
    if isinstance(t, tuple):
        if t[0] in ('L', 'F', 'P'):
            out.add(t)
        else:
            for u in t[1:]:
                out |= _atoms(u)
    return out


def buckling_backtransform_pole(ctx, rule='back-transformation-finite-at-its-pole'):
    """Buckling mode iterates with inv(K - sigma K_G) K, whose eigenvalues are nu = lambda / (lambda - sigma); the pencil
    K x = lambda K_G x has an INFINITE eigenvalue for every null vector of K_G, and there the operator is the identity: nu = 1 is
    an exact eigenvalue that converges at once.  K_G is only required to be symmetric, so zero and rank-deficient K_G (named by
    the quantifier of C13) are in the domain, and lambda = sigma nu / (nu - 1) divides by zero: `inf` (or 4.5e15 for nu = 1 + eps)
    is returned with info() == Successful.  Every division by (nu - 1) in the buckling back-transformation must sit on the
    nu != 1 side of a test; the Cayley sibling has the same pole but requires a positive-definite B, for which nu = 1 is reached by
    rounding only."""
    n = 0
    seen = set()
    for fn in ctx.F.concrete():
        if not (fn.cls or '').startswith('Spectra::SymGEigsShiftSolver') or fn.name != 'sort_ritzpair' or not fn.cfg or 'GEigsMode::Buckling' not in fn.record or fn.record in seen:
            continue
        seen.add(fn.record)
        for x in fn.walk():
            if not (x['k'] in ('CXXOperatorCallExpr', 'BinaryOperator') and x.get('op') == '/'):
                continue
            t = sym(fn, x, inline=False)
            den = t[2]
            if not (isinstance(den, tuple) and den[0] == '-' and den[2] == ('lit', '1') and 'm_ritz_val' in show(den[1])):
                continue
            n += 1
            guarded = any(i['k'] in ('IfStmt', 'ConditionalOperator') and 'm_ritz_val' in show(sym(fn, i['cond'] if i['k'] == 'IfStmt' else fn.nodes[i['c'][0]], inline=False)) and
                          '1' in show(sym(fn, i['cond'] if i['k'] == 'IfStmt' else fn.nodes[i['c'][0]], inline=False)) for i in fn.ancestors(x)) or 'select(' in show(t)
            ctx.check(guarded, rule, 'SymGEigsShiftSolver<Buckling>::sort_ritzpair', fn.qname,
                      'the division by (nu - 1) is guarded' if guarded else
                      '`%s` divides by (nu - 1) with no test: for a singular K_G (zero, rank deficient) nu = 1 is an exact eigenvalue of the operator and `inf` is returned as a converged '
                      'eigenvalue with info() == Successful' % show(t)[:70])
    if n < 1:
        raise AnalysisBroken('no division by (nu - 1) found in the buckling back-transformation')
