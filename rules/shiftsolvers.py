"""Rules about the solver classes that iterate on a transformed spectrum (shift-and-invert, buckling, Cayley):
the override of the final sort back-transforms the first nev Ritz values and then runs the base sort on every path."""
from .facts import AnalysisBroken
from . import paths
from .sym import sym, show
from .eigsbase import short, loop_range, split_index, SOLVER_TMPLS


def overrides_of_final_sort(ctx, base_tq):
    out = []
    for fn in ctx.F.concrete():
        if fn.name == 'sort_ritzpair' and fn.d.get('overrides') and fn.cls != base_tq:
            base = [ctx.F.by_mangled.get(m) for m in fn.d['overrides']]
            base = [b for b in base if b is not None]
            if base and base[0].cls == base_tq:
                out.append((fn, base[0]))
    return out


def backtransform_before_sort(ctx, base_tq, floor, rule='backtransform-then-base-sort'):
    ovs = overrides_of_final_sort(ctx, base_tq)
    if len(ovs) < floor:
        raise AnalysisBroken('%d overrides of %s::sort_ritzpair analysed, fewer than the %d confirmed by hand' % (len(ovs), base_tq, floor))
    for fn, base in ovs:
        inst = '%s::sort_ritzpair' % short(fn.cls)
        problems = []
        base_calls = [n for n in fn.walk() if n['k'] == 'CXXMemberCallExpr' and n.get('mangled') == base.mangled]
        ids = set(n['id'] for n in base_calls)
        if not base_calls:
            problems.append('does not call the base sort')
        else:
            hit = paths.search(fn, [], stop=lambda n: n['id'] in ids, target=lambda n: n['k'] == 'ReturnStmt',
                               include_entry=True, exit_is_target=lambda b: True, normal_only=True)
            if hit is not None:
                problems.append('a normal path leaves the override without running the base sort: ' + ' -> '.join(hit[-3:]))
            # the rule argument is forwarded unchanged
            pr = [fn.locals[v]['name'] for v in fn.params]
            for c in base_calls:
                a = fn.call_args(c)
                if len(a) != 1 or sym(fn, a[0], inline=False) != ('P', pr[0]):
                    problems.append('base sort receives %s, not the caller\'s rule' % (fn.s(a[0]) if a else '?'))
        # value field = the one the base's eigenvalues() reads besides the flags: take it from the base permuter's writes
        fe = ctx.E.of(fn)
        bw = set(p[0] for p in ctx.E.may_write(base) if p)
        writes = [a for a in fe.accesses if a.mode == 'w' and a.path and a.path[0] in bw and a.path[0] != '%local']
        val_fields = sorted(set(a.path[0] for a in writes))
        if len(val_fields) != 1:
            problems.append('override writes %s (expected exactly the Ritz values)' % val_fields)
        else:
            vf = val_fields[0]
            wids = set(a.node for a in writes)
            # nothing is written after the base sort
            starts = [fn.pos_of(c) for c in base_calls]
            hit = paths.search(fn, [s for s in starts if s], stop=lambda n: False, target=lambda n: n['id'] in wids)
            if hit is not None:
                problems.append('Ritz values are modified after the base sort: ' + hit[-1])
            # the writes cover entries [0, nev)
            nev = None
            covered = False
            for a in writes:
                n = fn.nodes[a.node]
                if n['k'] not in ('BinaryOperator', 'CXXOperatorCallExpr') or n.get('op') != '=':
                    continue
                t = sym(fn, n, inline=False)
                lhs = t[1]
                if lhs[0] == 'head' and lhs[1] == ('F', vf) and lhs[2][0] == 'F':
                    covered = True
                    nev = lhs[2][1]
                    # right-hand side reads the same prefix only
                    from .sym import contains
                    if contains(t[2], lambda x: isinstance(x, tuple) and x[0] in ('tail', 'segment')):
                        problems.append('back-transformation reads outside the first nev values')
                elif lhs[0] == '[]' and lhs[1] == ('F', vf):
                    loops = [x for x in fn.ancestors(n) if x['k'] == 'ForStmt']
                    rg = loop_range(fn, loops[-1]) if loops else None
                    if rg and rg[1] == ('lit', '0') and rg[2][0] == 'F' and lhs[2] == ('L', rg[0]):
                        covered = True
                        nev = rg[2][1]
            if not covered:
                problems.append('no write covers the first nev Ritz values (head(nev) = ... or a loop over [0, nev))')
            else:
                # nev is the base's requested-count field (the one bounding the base permutation)
                from .eigsbase import indexed_copies
                rgs = set()
                for n2, dst, src, loop in indexed_copies(base):
                    r = loop_range(base, loop)
                    if r:
                        rgs.add(r[2])
                if ('F', nev) not in rgs:
                    problems.append('back-transformation covers [0, %s) but the base sort permutes %s' % (nev, sorted(show(r) for r in rgs)))
        ctx.check(not problems, rule, inst, fn.qname,
                  'first nev Ritz values rewritten, then base sort on every normal path, nothing written afterwards'
                  if not problems else '; '.join(problems))


def shifted_classes_override(ctx, base_tq, rule='shifted-solver-overrides-sort'):
    """A solver class that installs a shift on its operator must override the final sort."""
    n = 0
    recs = set(f.record for f in ctx.F.concrete() if f.cls in SOLVER_TMPLS and f.cls != base_tq)
    for rec in sorted(recs):
        ms = ctx.F.methods(rec)
        if not ms:
            continue
        # does it derive from this base?
        rr = [r for r in ctx.F.records.values() if r['qname'] == rec and not r['dep']]
        if not rr or not any(b['tmpl'] == base_tq for b in rr[0]['bases']):
            continue
        installs = any(c['k'] == 'CXXMemberCallExpr' and c.get('callee') == 'set_shift' for f in ms for c in f.walk())
        if not installs:
            continue
        n += 1
        has = any(f.name == 'sort_ritzpair' and f.d.get('overrides') for f in ms)
        ctx.check(has, rule, short(ms[0].cls), rec,
                  'installs a shift and overrides the final sort' if has else
                  'installs a shift on the operator but reports eigenvalues without transforming them back')
    return n
