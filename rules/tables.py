"""Frozen tables used by the rules -- one line of reason per entry (DESIGN section 7)."""

# C20-D3: wrappers the property allows several solvers / threads to share read-only
SHAREABLE_WRAPPERS = {
    'Spectra::DenseGenMatProd': 'y = A x on a const Ref',
    'Spectra::DenseSymMatProd': 'y = A x (selfadjoint view) on a const Ref',
    'Spectra::DenseHermMatProd': 'y = A x (selfadjoint view) on a const Ref',
    'Spectra::SparseGenMatProd': 'y = A x on a const Ref',
    'Spectra::SparseSymMatProd': 'y = A x (selfadjoint view) on a const Ref',
    'Spectra::SparseHermMatProd': 'y = A x (selfadjoint view) on a const Ref',
}

# C20-D4: every `mutable` field of the library, classified.  A mutable field anywhere else is a violation.
MUTABLE_FIELDS = {
    ('Spectra::ArnoldiOp', 'm_cache'): 'per-solver adaptor (held by value inside one factorization object)',
    ('Spectra::SymGEigsCholeskyOp', 'm_cache'): 'per-solver adaptor built by the solver constructor, moved into the solver',
    ('Spectra::SymGEigsRegInvOp', 'm_cache'): 'per-solver adaptor built by the solver constructor',
    ('Spectra::SymGEigsShiftInvertOp', 'm_cache'): 'per-solver adaptor built by the solver constructor',
    ('Spectra::SymGEigsBucklingOp', 'm_cache'): 'per-solver adaptor built by the solver constructor',
    ('Spectra::SymGEigsCayleyOp', 'm_cache'): 'per-solver adaptor built by the solver constructor',
    ('Spectra::SVDTallMatOp', 'm_cache'): 'operator owned (unique_ptr) by exactly one PartialSVDSolver',
    ('Spectra::SVDWideMatOp', 'm_cache'): 'operator owned (unique_ptr) by exactly one PartialSVDSolver',
    ('Spectra::DenseGenComplexShiftSolve', 'm_x_cache'): 'shift-solve wrapper: stateful by design (set_shift), documented as one per solver',
    ('Spectra::SparseGenComplexShiftSolve', 'm_x_cache'): 'shift-solve wrapper: stateful by design (set_shift), one per solver',
    ('Spectra::SparseRegularInverse', 'm_info'): 'status of the last conjugate-gradient solve; wrapper is not in the shareable set',
}

# C20-D2c / C14: libc / libstdc++ entry points with hidden global state
NON_REENTRANT = {'rand', 'srand', 'random', 'srandom', 'drand48', 'lrand48', 'strtok', 'localtime', 'gmtime', 'asctime', 'ctime',
                 'setlocale', 'getenv', 'putenv', 'setenv', 'time', 'clock', 'tmpnam', 'strerror', 'signal', 'atexit',
                 'std::rand', 'std::srand', 'std::time', 'std::clock', 'std::getenv', 'std::setlocale', 'std::localtime',
                 'std::random_device::random_device', 'std::chrono::system_clock::now', 'std::chrono::steady_clock::now',
                 'std::chrono::_V2::system_clock::now', 'std::chrono::_V2::steady_clock::now'}

# C14-D1: functions allowed to be noexcept (none today besides destructors, which are implicitly noexcept)
NOEXCEPT_ALLOWED = {}

# owners accepted for a new-expression (C12-D5 / C14-D2): the pointer goes straight into one of these
OWNING_SINKS = {('std::unique_ptr', 'reset'), ('std::unique_ptr', 'unique_ptr'), ('std::shared_ptr', 'reset'),
                ('std::shared_ptr', 'shared_ptr'), ('std::__uniq_ptr_impl', 'reset')}

# C20-D2b: mutable globals of Eigen / libstdc++ that are reachable from library code, each with the reason it is benign
REACHABLE_GLOBAL_ALLOW = {
    '_ZZN5Eigen8internal20manage_caching_sizesENS_6ActionEPlS2_S2_E12m_cacheSizes': "Eigen's cache-size record: function-local static, written once under C++11 thread-safe initialisation, read-only afterwards (nobody in the library calls setCpuCacheSizes)",
    '_ZGVZN5Eigen8internal20manage_caching_sizesENS_6ActionEPlS2_S2_E12m_cacheSizes': 'guard variable of the above (thread-safe static initialisation)',
    '_ZStL8__ioinit': 'libstdc++ iostream initialiser object of the translation unit; never touched after start-up',
    '_ZN5EigenL4lastE': "Eigen's symbolic placeholder `last` (internal linkage, never written)",
    '_ZN5EigenL6lastp1E': "Eigen's symbolic placeholder `lastp1` (never written)",
    '_ZN5EigenL3allE': "Eigen's symbolic placeholder `all` (never written)",
}
# external symbols a Spectra function may reference directly (everything else is reported)
EXTERNAL_ALLOW_PREFIX = ('__cxa_allocate_exception', '__cxa_free_exception', '__cxa_throw', '_ZNSt16invalid_argument', '_ZNSt11logic_error',
                         '_ZNSt13runtime_error', '_ZNSt12out_of_range', '_ZNSt12length_error', '_ZdlPv', '_Znwm', '_ZdaPv', '_Znam', 'sqrt', 'sqrtf', 'sqrtl', 'pow', 'powf', 'powl',
                         'exp2', 'llvm.', '_ZNSt7__cxx1112basic_string', '__assert_fail', 'fabs', 'hypot', 'log', 'exp', 'cos', 'sin', 'atan2',
                         '__gxx_personality_v0', '_ZSt', '_ZNSt', '_ZNKSt', '__clang_call_terminate', 'memcpy', 'memset', 'memmove', 'abs', 'ldexp', 'frexp',
                         'cabs', 'csqrt', '__muldc3', '__divdc3', '__mulsc3', '__divsc3', '__mulxc3', '__divxc3', 'fmax', 'fmin', 'floor', 'ceil')
