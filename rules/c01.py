"""C01 -- symmetric / Hermitian solvers return only genuine, orthonormal eigenpairs (structural clauses)."""
from . import eigsbase, shiftsolvers

EXPLANATION = (
    'Static analysis of the instantiated HermEigsBase family (clang AST + CFG, all paths, all analysed instantiations). '
    'Decides: (D1) on every path of compute() the convergence flags are re-evaluated after the last change of the Ritz '
    'data before anything consumes them (must-pass-through over the CFG with interprocedural may-write summaries); '
    '(D2) the final sort and retrieve_ritzpair move values, estimates, vectors and flags with one index vector that orders '
    'exactly those values; (D3) shift solvers back-transform the first nev values and then call the base sort on every '
    'path; (D5) the convergence test is |est|*||f|| < tol*max(eps^(2/3),|theta|) over the first nev entries, as a normal '
    'form of the assignment. (D6) the cached residual norm used by the convergence test tracks the residual vector, the sub-diagonal entry is zero exactly on '
    'breakdown paths, and the factorization is resumed at its own dimension on every init() / compute() history '
    '(pairing rule shared with C07). Every reader of the stored Ritz values / estimates / vectors in compute() is preceded on every path from entry by the member that rebuilds them from H under the selection rule of this call (a compute() that follows another compute() never works on the re-ordered, possibly back-transformed values the earlier call left). Does NOT decide residual sizes, orthonormality or any floating-point magnitude.')
ASSUMPTIONS = ['Eigen kernels and std::sort are correct', 'instantiations listed in drivers/ are representative of every OpType']

BASE = 'Spectra::HermEigsBase'


def run(ctx):
    from . import factorization as fz
    fz.beta_tracks_residual(ctx)
    fz.resumed_at_own_dimension(ctx, BASE)
    fz.subdiagonal_on_breakdown(ctx)
    fz.residual_checked_against_basis(ctx)
    fz.thresholds_homogeneous(ctx)
    fz.noise_test_reference_global(ctx)
    fz.norm_divisions_guarded(ctx)
    fz.projection_coefficient_orientation(ctx)
    eigsbase.flag_freshness(ctx, BASE)
    eigsbase.ritz_data_of_current_call(ctx, BASE)
    eigsbase.coherent_permutation(ctx, BASE)
    eigsbase.coherent_retrieve(ctx, BASE)
    eigsbase.convergence_test_shape(ctx, BASE)
    eigsbase.accessor_agreement(ctx, BASE)
    shiftsolvers.backtransform_before_sort(ctx, BASE, 4)
    shiftsolvers.shifted_classes_override(ctx, BASE)
    ctx.require('flags-fresh-at-use', 5)
    ctx.require('coherent-permutation', 5)
