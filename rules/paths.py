"""Path queries over the element-level CFG (must-pass-through, dominance of events)."""
from collections import deque


def elem_list(fn, bid):
    return fn.blocks[bid]['elems']


def iter_positions(fn):
    for b in fn.cfg['blocks']:
        for i, e in enumerate(b['elems']):
            yield b['id'], i, e


def node_at(fn, bid, i):
    if i < 0 or i >= len(fn.blocks[bid]['elems']):
        return None
    e = fn.blocks[bid]['elems'][i]
    return fn.nodes[e] if isinstance(e, int) else None


# ---------------------------------------------------------------------------------------------------
# FEAS: the two path-feasibility facts of DESIGN section 3 (no solver)
#   (i)  a relation between two integer locals / parameters / literals keeps its truth value until one operand is written
#   (ii) a local assigned an integer literal keeps that value until its next write
# A path is discarded only when it contradicts one of these.
# ---------------------------------------------------------------------------------------------------
BRANCH_TERMS = {'IfStmt', 'ForStmt', 'WhileStmt', 'DoStmt', 'ConditionalOperator', 'BinaryOperator'}
_ORD = {'<': frozenset('<'), '<=': frozenset('<='), '==': frozenset('='), '!=': frozenset('<>'), '>': frozenset('>'),
        '>=': frozenset('>=')}
_FLIP = {'<': '>', '>': '<', '=': '='}


def _operand(fn, n):
    n = fn.strip(n)
    if n is None:
        return None
    if n['k'] == 'IntegerLiteral':
        return ('c', int(n['val']))
    if n['k'] == 'DeclRefExpr' and 'var' in n and not fn.locals[n['var']].get('ref'):
        t = fn.locals[n['var']]['type']
        if t in ('long', 'int', 'const long', 'const int', 'unsigned long', 'bool', 'const bool', 'unsigned int', 'short'):
            return ('v', n['var'])
    return None


def _relation(fn, cond):
    """(a, b, allowed orderings of a vs b) for a comparison of two simple operands, else None."""
    n = fn.strip(cond)
    if n is None:
        return None
    if n['k'] == 'UnaryOperator' and n.get('op') == '!':
        r = _relation(fn, fn.nodes[n['c'][0]])
        if r is None:
            return None
        return (r[0], r[1], frozenset('<=>') - r[2])
    if n['k'] != 'BinaryOperator' or n.get('op') not in _ORD:
        return None
    a = _operand(fn, fn.nodes[n['c'][0]])
    b = _operand(fn, fn.nodes[n['c'][1]])
    if a is None or b is None:
        return None
    return (a, b, _ORD[n['op']])


def _canon(a, b, allowed):
    if repr(b) < repr(a):
        return b, a, frozenset(_FLIP[x] for x in allowed)
    return a, b, allowed


class _Facts:
    """Path facts: a zone (difference-bound matrix, rules/zone.py) over the integer locals, parameters and integer fields.
    Covers the two FEAS facts of DESIGN section 3 (a relation keeps its truth value until an operand is written; a local
    assigned a literal keeps it) and their arithmetic closure (x != m-1 and x < m  =>  x+1 < m)."""
    __slots__ = ('d',)

    def __init__(self, d=None):
        from .zone import DBM
        self.d = d if d is not None else DBM()

    def key(self):
        return self.d.key()

    def assume(self, fn, cond, truth):
        from . import zone
        d2 = self.d.copy()
        zone.assume(fn, d2, cond, truth)
        if d2.is_bot():
            return None
        if d2.key() == self.d.key():
            return self
        return _Facts(d2)

    def step(self, fn, n):
        from . import zone
        k = n['k']
        if k not in ('BinaryOperator', 'CompoundAssignOperator', 'UnaryOperator', 'DeclStmt', 'CallExpr', 'CXXMemberCallExpr',
                     'CXXOperatorCallExpr', 'CXXConstructExpr', 'CXXTemporaryObjectExpr'):
            return self
        if k == 'BinaryOperator' and n.get('op') != '=':
            return self
        if k == 'UnaryOperator' and n.get('op') not in ('++', '--'):
            return self
        d2 = self.d.copy()
        zone.step(fn, d2, n)
        return _Facts(d2)


def search(fn, starts, stop, target, include_entry=False, exit_is_target=None, normal_only=False, feas=False, assume=None):
    """assume: [(condition node, truth)] known to hold at the start positions (only with feas)."""
    if feas:
        return _search_feas(fn, starts, stop, target, include_entry, exit_is_target, normal_only, assume)
    return _search(fn, starts, stop, target, include_entry, exit_is_target, normal_only)


def _search_feas(fn, starts, stop, target, include_entry, exit_is_target, normal_only, assume=None):
    """As _search, but the state carries the FEAS facts and contradictory branches are not taken."""
    q = deque()
    seen = set()
    parent = {}
    exit_id = fn.cfg['exit']

    def push(pos, facts, frm):
        key = (pos, facts.key())
        if key in seen:
            return
        seen.add(key)
        parent[key] = frm
        q.append((pos, facts))

    def after(bid, i, facts):
        """[(position, facts)] following element i of block bid."""
        n = len(fn.blocks[bid]['elems'])
        if i + 1 < n:
            return [((bid, i + 1), facts)]
        out = []
        stack = [(bid, facts)]
        visited = set()
        while stack:
            b, f = stack.pop()
            blk = fn.blocks[b]
            cond = blk.get('termcond', -1)
            branching = blk.get('termk') in BRANCH_TERMS and cond is not None and cond >= 0 and len(blk['succs']) == 2
            for idx, s in enumerate(blk['succs']):
                if not isinstance(s, int):
                    continue
                f2 = f
                if branching:
                    f2 = f.assume(fn, fn.nodes[cond], idx == 0)
                    if f2 is None:
                        continue
                if (s, f2.key()) in visited:
                    continue
                visited.add((s, f2.key()))
                if fn.blocks[s]['elems']:
                    out.append(((s, 0), f2))
                else:
                    if s == exit_id:
                        out.append(((s, -1), f2))
                    stack.append((s, f2))
        return out

    f0 = _Facts()
    for cond, truth in (assume or []):
        f1 = f0.assume(fn, cond, truth)
        if f1 is not None:
            f0 = f1
    if include_entry:
        e = fn.cfg['entry']
        if fn.blocks[e]['elems']:
            push((e, 0), f0, None)
        else:
            for p, f in after(e, -1, f0):
                push(p, f, None)
    for (b, i) in starts:
        n = node_at(fn, b, i)
        for p, f in after(b, i, f0):
            push(p, f, ('start', b, i))

    def witness(key):
        path = []
        cur = key
        while cur is not None and cur[0] != 'start':
            (b, i), _ = cur
            if i >= 0:
                n = node_at(fn, b, i)
                if n is not None and (n['k'] in ('CXXMemberCallExpr', 'CallExpr', 'CXXOperatorCallExpr', 'ReturnStmt', 'CXXThrowExpr')
                                      or fn.blocks[b].get('termcond') == n['id']):
                    path.append('%s: %s' % (fn.loc(n), fn.s(n)[:100]))
            else:
                path.append('<function exit>')
            cur = parent.get(cur)
        if cur is not None and cur[0] == 'start':
            n = node_at(fn, cur[1], cur[2])
            if n is not None:
                path.append('%s: %s' % (fn.loc(n), fn.s(n)[:100]))
        else:
            path.append('<function entry>')
        path.reverse()
        out = []
        for s_ in path:
            if not out or out[-1] != s_:
                out.append(s_)
        return out

    while q:
        pos, facts = q.popleft()
        key = (pos, facts.key())
        b, i = pos
        if i == -1:
            if exit_is_target is not None and exit_is_target(b):
                return witness(key)
            continue
        n = node_at(fn, b, i)
        if n is not None:
            if target(n):
                return witness(key)
            if stop(n):
                continue
            if normal_only and n['k'] == 'CXXThrowExpr':
                continue
            facts = facts.step(fn, n)
        for p, f in after(b, i, facts):
            push(p, f, key)
    return None


def _search(fn, starts, stop, target, include_entry=False, exit_is_target=None, normal_only=False):
    """Forward search from the positions *after* each start position (and from function entry if
    include_entry).  Does not continue past positions where stop(node) holds.  Returns a witness
    path [node, ...] ending at the first position where target(node) holds, or None.

    starts: iterable of (block id, index).  exit_is_target(block id) may declare reaching the exit
    block from a given predecessor a target (e.g. normal return).  normal_only: paths end at a throw
    expression (exceptional exits are not followed to the exit block)."""
    q = deque()
    seen = set()
    parent = {}

    def push(pos, frm):
        if pos in seen:
            return
        seen.add(pos)
        parent[pos] = frm
        q.append(pos)

    def succ_positions(bid, i):
        """Positions following (bid, i): next element, or first elements of successor blocks."""
        out = []
        n = len(fn.blocks[bid]['elems'])
        if i + 1 < n:
            out.append((bid, i + 1))
            return out
        # end of block: go through successors, skipping empty blocks
        stack = list(fn.succs(bid))
        visited = set()
        while stack:
            s = stack.pop()
            if s in visited:
                continue
            visited.add(s)
            if fn.blocks[s]['elems']:
                out.append((s, 0))
            else:
                if s == fn.cfg['exit']:
                    out.append((s, -1))
                stack.extend(fn.succs(s))
        return out

    if include_entry:
        e = fn.cfg['entry']
        if fn.blocks[e]['elems']:
            push((e, 0), None)
        else:
            for p in succ_positions(e, -1 + len(fn.blocks[e]['elems'])):
                push(p, None)
    for (b, i) in starts:
        for p in succ_positions(b, i):
            push(p, ('start', b, i))

    def witness(pos):
        path = []
        cur = pos
        while cur is not None and cur[0] != 'start':
            b, i = cur
            if i >= 0:
                n = node_at(fn, b, i)
                if n is not None and (n['k'] in ('CXXMemberCallExpr', 'CallExpr', 'CXXOperatorCallExpr', 'ReturnStmt', 'CXXThrowExpr')
                                      or fn.blocks[b].get('termcond') == n['id']):
                    path.append('%s: %s' % (fn.loc(n), fn.s(n)[:100]))
            else:
                path.append('<function exit>')
            cur = parent.get(cur)
        if cur is not None and cur[0] == 'start':
            n = node_at(fn, cur[1], cur[2])
            if n is not None:
                path.append('%s: %s' % (fn.loc(n), fn.s(n)[:100]))
        else:
            path.append('<function entry>')
        path.reverse()
        # drop consecutive duplicates
        out = []
        for s in path:
            if not out or out[-1] != s:
                out.append(s)
        return out

    while q:
        pos = q.popleft()
        b, i = pos
        if i == -1:
            if exit_is_target is not None and exit_is_target(b):
                return witness(pos)
            continue
        n = node_at(fn, b, i)
        if n is not None:
            if target(n):
                return witness(pos)
            if stop(n):
                continue
            if normal_only and n['k'] == 'CXXThrowExpr':
                continue
        for p in succ_positions(b, i):
            push(p, pos)
    return None


def positions_of(fn, pred):
    """All (block, index) whose element node satisfies pred."""
    out = []
    for b, i, e in iter_positions(fn):
        if isinstance(e, int) and pred(fn.nodes[e]):
            out.append((b, i))
    return out


def dominated_by(fn, pos, pred):
    """True if every path from entry to pos passes an element satisfying pred (element-level)."""
    # equivalently: pos is not reachable from entry when pred-elements are stops
    tb, ti = pos
    hit = search(fn, [], stop=pred, target=lambda n, _t=fn.blocks[tb]['elems'][ti]: n['id'] == _t, include_entry=True)
    return hit is None


def enclosing_assumptions(fn, node):
    """[(condition node, truth)] of the if statements whose branch contains `node` (innermost first): facts that hold
    when control is at `node`, provided their operands were not written since (the zone domain forgets written variables
    only along the searched path, so callers use this for conditions over variables not written between the test and node)."""
    out = []
    nid = node['id'] if isinstance(node, dict) else node
    for a in fn.ancestors(nid):
        if a['k'] == 'IfStmt':
            if fn.within(nid, a['then']):
                out.append((fn.nodes[a['cond']], True))
            elif a.get('else', -1) >= 0 and fn.within(nid, a['else']):
                out.append((fn.nodes[a['cond']], False))
    return out
