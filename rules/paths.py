"""Path queries over the element-level CFG (must-pass-through, dominance of events)."""
from collections import deque


def elem_list(fn, bid):
    return fn.blocks[bid]['elems']


def iter_positions(fn):
    for b in fn.cfg['blocks']:
        for i, e in enumerate(b['elems']):
            yield b['id'], i, e


def node_at(fn, bid, i):
    e = fn.blocks[bid]['elems'][i]
    return fn.nodes[e] if isinstance(e, int) else None


def search(fn, starts, stop, target, include_entry=False, exit_is_target=None):
    """Forward search from the positions *after* each start position (and from function entry if
    include_entry).  Does not continue past positions where stop(node) holds.  Returns a witness
    path [node, ...] ending at the first position where target(node) holds, or None.

    starts: iterable of (block id, index).  exit_is_target(block id) may declare reaching the exit
    block from a given predecessor a target (e.g. normal return)."""
    q = deque()
    seen = set()
    parent = {}

    def push(pos, frm):
        if pos in seen:
            return
        seen.add(pos)
        parent[pos] = frm
        q.append(pos)

    def succ_positions(bid, i):
        """Positions following (bid, i): next element, or first elements of successor blocks."""
        out = []
        n = len(fn.blocks[bid]['elems'])
        if i + 1 < n:
            out.append((bid, i + 1))
            return out
        # end of block: go through successors, skipping empty blocks
        stack = list(fn.succs(bid))
        visited = set()
        while stack:
            s = stack.pop()
            if s in visited:
                continue
            visited.add(s)
            if fn.blocks[s]['elems']:
                out.append((s, 0))
            else:
                if s == fn.cfg['exit']:
                    out.append((s, -1))
                stack.extend(fn.succs(s))
        return out

    if include_entry:
        e = fn.cfg['entry']
        if fn.blocks[e]['elems']:
            push((e, 0), None)
        else:
            for p in succ_positions(e, -1 + len(fn.blocks[e]['elems'])):
                push(p, None)
    for (b, i) in starts:
        for p in succ_positions(b, i):
            push(p, ('start', b, i))

    def witness(pos):
        path = []
        cur = pos
        while cur is not None and cur[0] != 'start':
            b, i = cur
            if i >= 0:
                n = node_at(fn, b, i)
                if n is not None and (n['k'] in ('CXXMemberCallExpr', 'CallExpr', 'CXXOperatorCallExpr', 'ReturnStmt', 'CXXThrowExpr')
                                      or fn.blocks[b].get('termcond') == n['id']):
                    path.append('%s: %s' % (fn.loc(n), fn.s(n)[:100]))
            else:
                path.append('<function exit>')
            cur = parent.get(cur)
        if cur is not None and cur[0] == 'start':
            n = node_at(fn, cur[1], cur[2])
            if n is not None:
                path.append('%s: %s' % (fn.loc(n), fn.s(n)[:100]))
        else:
            path.append('<function entry>')
        path.reverse()
        # drop consecutive duplicates
        out = []
        for s in path:
            if not out or out[-1] != s:
                out.append(s)
        return out

    while q:
        pos = q.popleft()
        b, i = pos
        if i == -1:
            if exit_is_target is not None and exit_is_target(b):
                return witness(pos)
            continue
        n = node_at(fn, b, i)
        if n is not None:
            if target(n):
                return witness(pos)
            if stop(n):
                continue
        for p in succ_positions(b, i):
            push(p, pos)
    return None


def positions_of(fn, pred):
    """All (block, index) whose element node satisfies pred."""
    out = []
    for b, i, e in iter_positions(fn):
        if isinstance(e, int) and pred(fn.nodes[e]):
            out.append((b, i))
    return out


def dominated_by(fn, pos, pred):
    """True if every path from entry to pos passes an element satisfying pred (element-level)."""
    # equivalently: pos is not reachable from entry when pred-elements are stops
    tb, ti = pos
    hit = search(fn, [], stop=pred, target=lambda n, _t=fn.blocks[tb]['elems'][ti]: n['id'] == _t, include_entry=True)
    return hit is None
