"""C18 -- the eigenvalue ordering primitive is a correct permutation for every rule."""
from .facts import AnalysisBroken
from . import paths
from .sym import sym, show
from .xeval import ev, CannotEval

EXPLANATION = (
    'Abstract evaluation of the sort keys and exhaustive table agreement of the dispatchers, over the AST of every '
    'instantiated specialisation (real and complex value types) and the template patterns. Decides: (D1) the key of each rule, '
    'evaluated in the domain (sign, |.|?, component), equals the key implied by the rule\'s NAME (Largest* descending = '
    'negated key, Smallest* ascending; Magn = |x|, Real = Re x, Imag = |Im x|, Alge/BothEnds = x), and a rule that is not '
    'defined for the value type reaches the throwing primary template on every path; (D2) in argsort and in both switches '
    'of the general solver base every case label constructs the sorter of the same-named rule (BothEnds shares LargestAlge '
    'and is then interleaved), each arm ends in break, every other enumerator reaches a default that throws '
    'std::invalid_argument -- exhaustive over the 9 enumerators x 3 switches; the symmetric base rejects sorting rules '
    'outside its documented four; (D3) the comparator is a strict `<` between the same key of v[i] and v[j] in argument '
    'order (a strict weak order), the constructor fills 0..size-1 and sorts the full range with that comparator (a '
    'permutation); (D4) the BothEnds interleave, evaluated as index expressions for every length up to 24, is a '
    'permutation whose every prefix k holds ceil(k/2) indices from the front and floor(k/2) from the back of the '
    'descending order. The dispatch switch, being the only rejection of undefined rules, is reached on every normal path. Key '
    'domain: value / real part / imaginary part, sign, absolute value; squared modulus and one-norm are distinct elements (not '
    'order-equivalent to the modulus of a complex value). Trusted: std::sort.')
ASSUMPTIONS = ['std::sort orders a range by a strict weak order and permutes it', 'std::abs is the absolute value / modulus']


def enum_table(ctx):
    e = ctx.F.enums.get('Spectra::SortRule')
    if not e:
        raise AnalysisBroken('enum SortRule not found')
    return {x['val']: x['name'] for x in e['enumerators']}


def expected_key(name, is_complex):
    """(sign, abs, component) implied by the enumerator's name, or None if the rule is not defined for the type."""
    if name.startswith('Largest'):
        sign, what = '-', name[len('Largest'):]
    elif name.startswith('Smallest'):
        sign, what = '+', name[len('Smallest'):]
    elif name == 'BothEnds':
        sign, what = '-', 'Alge'
    else:
        raise AnalysisBroken('unknown rule name %s' % name)
    if what == 'Magn':
        return (sign, True, 'value')
    if what == 'Alge':
        return 'ill-formed' if is_complex else (sign, False, 'value')
    if what == 'Real':
        return (sign, False, 're') if is_complex else None
    if what == 'Imag':
        return (sign, True, 'im') if is_complex else None
    raise AnalysisBroken('unknown rule name %s' % name)


def key_signature(fn, t):
    """Abstract value of a key expression: (sign, abs?, component)."""
    sign = '+'
    while isinstance(t, tuple) and t[0] == 'u-':
        sign = '-' if sign == '+' else '+'
        t = t[1]
    ab = False
    if isinstance(t, tuple) and t[0] == 'call' and t[1] in ('abs', 'fabs') and len(t) == 3:
        ab = True
        t = t[2]
    elif isinstance(t, tuple) and t[0] == 'call' and t[1] == 'norm1' and len(t) == 3:
        # |re| + |im|: equals |x| for a real value, NOT the modulus of a complex one
        ab = 'one-norm'
        t = t[2]
    elif isinstance(t, tuple) and t[0] == 'call' and t[1] == 'norm' and len(t) == 3:
        # squared modulus: mathematically monotone in |x| but NOT order-equivalent in floating point
        # (it under/overflows for |x| outside roughly [1e-154, 1e154] and turns distinct magnitudes into ties)
        ab = 'squared-modulus'
        t = t[2]
    p = [fn.locals[v]['name'] for v in fn.params]
    if t == ('P', p[0]):
        return (sign, ab, 'value')
    if isinstance(t, tuple) and t[0] in ('real', 'imag') and t[1] == ('P', p[0]):
        return (sign, ab, 're' if t[0] == 'real' else 'im')
    if isinstance(t, tuple) and t[0] == 'call' and t[1] in ('real', 'imag') and t[2] == ('P', p[0]):
        return (sign, ab, 're' if t[1] == 'real' else 'im')
    raise AnalysisBroken('key expression %s at %s is outside the key-signature domain' % (show(t), fn.loc()))


def keys(ctx, rule='sort-key-matches-rule-name'):
    names = enum_table(ctx)
    n_def = n_throw = 0
    for fn in ctx.F.insts('Spectra::SortingTarget::get'):
        T, r = fn.cargs[0], fn.cargs[1]
        name = names.get(r)
        if name is None:
            raise AnalysisBroken('%s: rule value %s not an enumerator' % (fn.qname, r))
        is_c = T.startswith('std::complex')
        want = expected_key(name, is_c)
        inst = 'SortingTarget<%s,%s>' % ('complex' if is_c else 'real', name)
        throws = [x for x in fn.walk() if x['k'] == 'CXXThrowExpr']
        # does any path from entry reach a return without throwing?
        ret_reachable = paths.search(fn, [], stop=lambda n: n['k'] == 'CXXThrowExpr', target=lambda n: n['k'] == 'ReturnStmt',
                                     include_entry=True) is not None
        if want == 'ill-formed':
            # a sorter over complex values with an algebraic rule does not compile (no `<` on std::complex): rejected at build time
            ctx.note('%s: comparator ill-formed for complex values, cannot be instantiated in a sorter' % fn.qname)
            continue
        if want is None:
            n_throw += 1
            ok = bool(throws) and not ret_reachable and all('invalid_argument' in x.get('thrown', '') for x in throws)
            ctx.check(ok, rule, inst, fn.qname,
                      'rule not defined for this value type: every path throws std::invalid_argument' if ok else
                      'rule %s is not defined for %s values but a key is returned (some order is produced silently)' % (name, 'complex' if is_c else 'real'))
            continue
        n_def += 1
        if not ret_reachable:
            ctx.fail(rule, inst, fn.qname, 'rule %s is defined for this type but the key function always throws' % name)
            continue
        rets = [x for x in fn.walk() if x['k'] == 'ReturnStmt']
        sigs = set(key_signature(fn, sym(fn, x['value'])) for x in rets)
        if not is_c:
            # the real part of a real value is the value itself
            sigs = set((sg, True if ab == 'one-norm' else ab, 'value' if comp_ == 're' else comp_) for (sg, ab, comp_) in sigs)
        ok = sigs == {want}
        ctx.check(ok, rule, inst, fn.qname,
                  'key = %s%s(%s)' % ('-' if want[0] == '-' else '', '|.|' if want[1] else '', want[2]) if ok else
                  'key is %s but the rule name implies %s (sign, abs, component)' % (sorted(sigs), want))
    if n_def < 11 or n_throw < 2:
        raise AnalysisBroken('only %d defined and %d throwing key instantiations analysed' % (n_def, n_throw))
    # pattern level: the primary template throws first
    prim = [f for f in ctx.F.pats('Spectra::SortingTarget::get') if f.qname == 'Spectra::SortingTarget::get']
    if not prim:
        raise AnalysisBroken('primary SortingTarget::get pattern not found')
    p = prim[0]
    first = [k for k in p.kids(p.body) if k['k'] not in ('DeclStmt',)]
    t = p.strip(first[0]) if first else None
    ok = t is not None and t['k'] == 'CXXThrowExpr'
    ctx.check(ok, rule, 'SortingTarget<primary>', p.qname, 'primary template throws before anything else' if ok else
              'primary template does not start by throwing')


def _arm_body(fn, case):
    n = case
    while n is not None and n['k'] in ('CaseStmt', 'DefaultStmt'):
        n = fn.node(n.get('sub', -1))
    return n


def dispatch(ctx, rule='dispatch-arm-matches-case-label'):
    names = enum_table(ctx)
    switches = 0
    for tq, is_c in (('Spectra::argsort', False), ('Spectra::GenEigsBase::retrieve_ritzpair', True), ('Spectra::GenEigsBase::sort_ritzpair', True)):
        seen_fn = set()
        for fn in ctx.F.insts(tq):
            sw = [x for x in fn.walk() if x['k'] == 'SwitchStmt']
            if not sw:
                continue
            if len(fn.params) == 1 and tq == 'Spectra::argsort':
                continue
            for s in sw:
                switches += 1
                inst = tq.replace('Spectra::', '')
                problems = []
                cond = sym(fn, s['cond'], inline=False)
                if cond[0] != 'P':
                    problems.append('switch is on %s, not on the rule parameter' % show(cond))
                handled = {}
                default = None
                for c in fn.walk(s['body']):
                    if c['k'] == 'CaseStmt':
                        body = _arm_body(fn, c)
                        handled[c.get('ival')] = (c, body)
                    elif c['k'] == 'DefaultStmt':
                        default = c
                for val, name in sorted(names.items(), key=lambda kv: int(kv[0])):
                    defined = expected_key(name, is_c) not in (None, 'ill-formed')
                    if val in handled:
                        c, body = handled[val]
                        ctors = [x for x in fn.walk(body) if x['k'] in ('CXXConstructExpr', 'CXXTemporaryObjectExpr') and x.get('ctor_of') == 'Spectra::SortEigenvalue' and not x.get('copy') and not x.get('move')]
                        if len(ctors) == 0:
                            # another ordering idiom (keys computed up front, one std::sort with a lambda, ...): not decidable by
                            # this rule -- neither a pass nor a violation; the comparator rule still applies to it
                            raise AnalysisBroken('%s: case %s does not build a SortEigenvalue sorter: dispatch idiom not recognised' % (fn.qname, name))
                        if len(ctors) != 1:
                            problems.append('case %s builds %d sorters' % (name, len(ctors)))
                            continue
                        built = names.get(ctors[0]['cargs'][1])
                        want = 'LargestAlge' if name == 'BothEnds' else name
                        if built != want:
                            problems.append('case %s builds a %s sorter' % (name, built))
                        if tq == 'Spectra::argsort' and len(fn.params) == 3:
                            # the sorter orders exactly the `len` leading values: its index vector is then a permutation of 0 .. len-1
                            la = fn.call_args(ctors[0])
                            lt = sym(fn, la[1], inline=False) if len(la) >= 2 else None
                            if lt != ('P', fn.locals[fn.params[2]]['name']):
                                problems.append('case %s sorts %s values, not the %s leading ones the caller asked for: the result is not a permutation of 0 .. %s-1 (it can hold indices >= %s)' %
                                                (name, show(lt) if lt else '?', fn.locals[fn.params[2]]['name'], fn.locals[fn.params[2]]['name'], fn.locals[fn.params[2]]['name']))
                        if not defined:
                            problems.append('case %s is handled although the rule is not defined for this value type' % name)
                        kids = fn.kids(body) if body['k'] == 'CompoundStmt' else []
                        if not kids or kids[-1]['k'] != 'BreakStmt':
                            problems.append('arm of case %s does not end in break (falls into the next arm)' % name)
                    else:
                        if default is None:
                            problems.append('%s is not handled and there is no default' % name)
                if default is None:
                    problems.append('no default arm')
                else:
                    th = [x for x in fn.walk(default) if x['k'] == 'CXXThrowExpr']
                    if not th or 'invalid_argument' not in th[0].get('thrown', ''):
                        problems.append('default arm does not throw std::invalid_argument')
                # the switch is the only validation of the rule: no normal return may bypass it
                cid = fn.strip(fn.nodes[s['cond']])['id']
                hit = paths.search(fn, [], stop=lambda n, cid=cid, s=s: n['id'] in (cid, s['cond']) or fn.within(n, s['cond']),
                                   target=lambda n: n['k'] == 'ReturnStmt', include_entry=True, exit_is_target=lambda b: True, normal_only=True)
                if hit is not None:
                    last = [h for h in hit if isinstance(h, dict) and h['k'] in ('ReturnStmt', 'IfStmt')] or [h for h in hit if isinstance(h, dict)]
                    problems.append('a normal return bypasses the switch (and with it the rejection of unsupported rules)%s' %
                                    (': via `%s`' % fn.s(last[-1]['id'])[:60] if last else ''))
                ctx.check(not problems, rule, inst, fn.qname,
                          '%d cases build the same-named sorter and break; the other %d enumerators reach a throwing default; no return bypasses the switch' %
                          (len(handled), len(names) - len(handled)) if not problems else '; '.join(problems))
    if switches < 3:
        raise AnalysisBroken('only %d dispatch switches analysed' % switches)
    # symmetric base: sorting rules outside the documented four are rejected (guard evaluated on all nine enumerators)
    for fn in ctx.F.insts('Spectra::HermEigsBase::sort_ritzpair'):
        ifs = [x for x in fn.walk() if x['k'] == 'IfStmt']
        p0 = fn.locals[fn.params[0]]['name']
        problems = []
        guard = None
        for i in ifs:
            if any(y['k'] == 'CXXThrowExpr' for y in fn.walk(i['then'])):
                guard = i
                break
        if guard is None:
            problems.append('no rejecting guard')
        else:
            from .xeval import leaf_key
            for val, name in names.items():
                try:
                    rej = ev_enum(fn, guard['cond'], p0, name)
                except CannotEval as e:
                    raise AnalysisBroken('cannot evaluate sorting-rule guard: %s' % e)
                want_rej = name not in ('LargestAlge', 'LargestMagn', 'SmallestAlge', 'SmallestMagn')
                if rej != want_rej:
                    problems.append('%s is %s' % (name, 'rejected' if rej else 'accepted'))
            if not paths.dominated_by(fn, fn.pos_of([x for x in fn.walk() if x['k'] == 'CallExpr' and x.get('callee') == 'argsort'][0]),
                                      lambda n, g=guard: fn.within(n, g['cond'])):
                problems.append('guard does not dominate the sort')
        ctx.check(not problems, rule, 'HermEigsBase::sort_ritzpair', fn.qname,
                  'accepts exactly LargestAlge, LargestMagn, SmallestAlge, SmallestMagn; others throw before sorting' if not problems else '; '.join(problems))


def ev_enum(fn, cond, pname, value):
    """Truth of a guard made of ==/!=/&&/||/! comparisons of the parameter with enumerators."""
    n = fn.strip(cond)
    k = n['k']
    if k == 'BinaryOperator':
        op = n['op']
        if op == '&&':
            return ev_enum(fn, n['c'][0], pname, value) and ev_enum(fn, n['c'][1], pname, value)
        if op == '||':
            return ev_enum(fn, n['c'][0], pname, value) or ev_enum(fn, n['c'][1], pname, value)
        if op in ('==', '!='):
            a, b = fn.strip(fn.nodes[n['c'][0]]), fn.strip(fn.nodes[n['c'][1]])

            def val(x):
                if x['k'] == 'DeclRefExpr' and x.get('dk') == 'enumerator':
                    return x['name']
                if x['k'] == 'DeclRefExpr' and x.get('name') == pname:
                    return value
                raise CannotEval(fn.s(x))
            r = val(a) == val(b)
            return r if op == '==' else not r
    if k == 'UnaryOperator' and n.get('op') == '!':
        return not ev_enum(fn, n['c'][0], pname, value)
    raise CannotEval(fn.s(n))


def comparator(ctx, rule='comparator-and-full-range-sort'):
    n = 0
    for fn in ctx.F.insts('Spectra::SortEigenvalue::operator()'):
        n += 1
        rets = [x for x in fn.walk() if x['k'] == 'ReturnStmt']
        p = [fn.locals[v]['name'] for v in fn.params]
        problems = []
        if len(rets) != 1 or len(p) != 2:
            problems.append('unexpected comparator shape')
        else:
            t = sym(fn, rets[0]['value'], inline=False)
            recs = [r for r in ctx.F.records.values() if r['qname'] == fn.record and not r['dep']]
            ptr = [f['name'] for f in recs[0]['fields'] if f.get('ptr')] if recs else []
            want = ('<', ('call', 'get', ('[]', ('F', ptr[0] if ptr else '?'), ('P', p[0]))), ('call', 'get', ('[]', ('F', ptr[0] if ptr else '?'), ('P', p[1]))))
            if t != want:
                problems.append('comparator is %s, not key(v[%s]) < key(v[%s])' % (show(t), p[0], p[1]))
            gets = [x for x in fn.walk() if x['k'] == 'CallExpr' and x.get('callee') == 'get']
            if len(gets) != 2 or any(g.get('cargs') != fn.cargs for g in gets):
                problems.append('the two keys are not the key of this sorter\'s own (type, rule)')
        ctx.check(not problems, rule, 'SortEigenvalue::operator()', fn.qname,
                  'strict < on the same key of v[i], v[j], in argument order' if not problems else '; '.join(problems))
    for fn in ctx.F.insts('Spectra::SortEigenvalue::SortEigenvalue'):
        n += 1
        problems = []
        p = [fn.locals[v]['name'] for v in fn.params]
        recs = [r for r in ctx.F.records.values() if r['qname'] == fn.record and not r['dep']]
        idx = [f['name'] for f in recs[0]['fields'] if f['type'].startswith('std::vector<long')]
        ptr = [f['name'] for f in recs[0]['fields'] if f.get('ptr')]
        if len(idx) != 1 or len(ptr) != 1:
            raise AnalysisBroken('%s: fields not identified' % fn.record)
        inits = {i['member']: sym(fn, i['expr'], inline=False) for i in fn.inits}
        if inits.get(ptr[0]) != ('P', p[0]):
            problems.append('value pointer is initialised from %s' % show(inits.get(ptr[0])))
        if inits.get(idx[0]) not in (('P', p[1]), ('ctor', 'std::vector', ('P', p[1]))):
            problems.append('index vector is not sized by the length argument (%s)' % show(inits.get(idx[0])))
        from .eigsbase import loop_range
        loops = [x for x in fn.walk() if x['k'] == 'ForStmt']
        okfill = False
        for lp in loops:
            rg = loop_range(fn, lp)
            if rg and rg[1] == ('lit', '0') and rg[2] == ('P', p[1]):
                for x in fn.walk(lp['body']):
                    if x['k'] in ('BinaryOperator', 'CXXOperatorCallExpr') and x.get('op') == '=':
                        t = sym(fn, x, inline=False)
                        if t == ('=', ('[]', ('F', idx[0]), ('L', rg[0])), ('L', rg[0])):
                            okfill = True
        if not okfill:
            problems.append('index vector is not filled with 0..size-1')
        sorts = [x for x in fn.walk() if x['k'] == 'CallExpr' and x.get('callee') in ('sort', 'stable_sort')]
        if len(sorts) != 1:
            problems.append('%d sort calls' % len(sorts))
        else:
            t = sym(fn, sorts[0], inline=False)
            if t[2:] != (('begin', ('F', idx[0])), ('end', ('F', idx[0])), ('u*', ('this',))):
                problems.append('sort is %s, not the full index range with this comparator' % show(t))
            # the fill precedes the sort
            fills = [x for x in fn.walk() if x['k'] == 'ForStmt']
        ctx.check(not problems, rule, 'SortEigenvalue::SortEigenvalue', fn.qname,
                  'indices 0..size-1 sorted over the full range with the comparator' if not problems else '; '.join(problems))
    if n < 20:
        raise AnalysisBroken('only %d comparator / constructor instantiations' % n)


def both_ends(ctx, rule='bothends-interleave'):
    for fn in ctx.F.insts('Spectra::argsort'):
        if len(fn.params) != 3:
            continue
        pn = [fn.locals[v]['name'] for v in fn.params]
        problems = []
        ifs = [x for x in fn.walk() if x['k'] == 'IfStmt' and sym(fn, x['cond'], inline=False) in (('==', ('P', pn[0]), ('enum', 'BothEnds')), ('==', ('enum', 'BothEnds'), ('P', pn[0])))]
        if len(ifs) != 1:
            raise AnalysisBroken('argsort: BothEnds post-processing not found')
        blk = ifs[0]['then']
        loops = [x for x in fn.walk(blk) if x['k'] == 'ForStmt']
        from .eigsbase import loop_range
        rg = loop_range(fn, loops[0]) if len(loops) == 1 else None
        if not rg or rg[1] != ('lit', '0') or rg[2] != ('P', pn[2]):
            # another way of writing the interleave (e.g. a two-pointer walk): its index algebra is outside what this rule can
            # evaluate without executing the fragment -- analysis incomplete (exit 2), neither a pass nor an alarm
            raise AnalysisBroken('argsort: the BothEnds interleave is not written as one loop over the output positions; idiom not supported')
        else:
            var = rg[0]
            # the copy the values are taken from is a copy of the sorted index vector made before the loop
            copies = [d for x in fn.walk(blk) if x['k'] == 'DeclStmt' for d in x['decls'] if 'init' in d and fn.locals[d['var']]['type'].startswith('std::vector<long')]
            if len(copies) != 1:
                problems.append('no copy of the sorted index vector')
            else:
                cname = fn.locals[copies[0]['var']]['name']
                src = sym(fn, copies[0]['init'], inline=False)
                inner = [x for x in fn.walk(loops[0]['body']) if x['k'] == 'IfStmt']
                if len(inner) != 1 or inner[0].get('else', -1) < 0:
                    problems.append('loop body is not a two-way branch')
                else:
                    br = inner[0]

                    def assign_of(stmt):
                        a = [x for x in fn.walk(stmt) if x['k'] in ('BinaryOperator', 'CXXOperatorCallExpr') and x.get('op') == '=']
                        return a[0] if len(a) == 1 else None
                    at, ae = assign_of(br['then']), assign_of(br['else'])
                    if at is None or ae is None:
                        problems.append('branches are not single assignments')
                    else:
                        tt, te = sym(fn, at, inline=False), sym(fn, ae, inline=False)
                        for t in (tt, te):
                            if not (t[1][0] == '[]' and t[1][1] == src and t[1][2] == ('L', var) and t[2][0] == '[]' and t[2][1] == ('L', cname)):
                                problems.append('assignment %s is not sorted[i] = copy[<index>]' % show(t))
                        if not problems:
                            it = fn.call_args(at)[1] if at['k'] == 'CXXOperatorCallExpr' else fn.nodes[at['c'][1]]
                            # index expressions inside copy[...]
                            def idx_node(a):
                                rhs = fn.strip(fn.call_args(a)[1] if a['k'] == 'CXXOperatorCallExpr' else fn.nodes[a['c'][1]])
                                return fn.call_args(rhs)[1]
                            ix_t, ix_e = idx_node(at), idx_node(ae)
                            # locals that hold the length of the sorted index vector (`n = ind.size()`): that vector has `len` entries
                            # (every arm of the dispatch sorts exactly `len` values -- rule dispatch-arm-matches-case-label)
                            size_locals = [fn.locals[d['var']]['name'] for x in fn.walk(blk) if x['k'] == 'DeclStmt' for d in x['decls']
                                           if 'init' in d and 'var' in d and sym(fn, d['init'], inline=False) in (('size', src), ('call', 'size', src))]
                            for L in range(0, 25):
                                srcs = []
                                for i in range(L):
                                    env = {('local', var): i, ('local', pn[2]): L}
                                    for nm_ in size_locals:
                                        env[('local', nm_)] = L
                                    try:
                                        c = ev(fn, br['cond'], env)
                                        j = ev(fn, ix_t if c else ix_e, env)
                                    except CannotEval as e:
                                        raise AnalysisBroken('cannot evaluate the interleave index: %s' % e)
                                    srcs.append(j)
                                if sorted(srcs) != list(range(L)):
                                    problems.append('len %d: source indices %s are not a permutation' % (L, srcs))
                                    break
                                for k in range(L + 1):
                                    top = (k + 1) // 2
                                    bot = k // 2
                                    want = set(range(top)) | set(range(L - bot, L))
                                    if set(srcs[:k]) != want:
                                        problems.append('len %d, k %d: prefix takes %s, expected %d from the front and %d from the back' % (L, k, sorted(srcs[:k]), top, bot))
                                        break
                                if problems:
                                    break
        ctx.check(not problems, rule, 'argsort/BothEnds', fn.qname,
                  'for every len <= 24: a permutation whose prefix k holds ceil(k/2) largest and floor(k/2) smallest' if not problems else '; '.join(problems[:3]))
    # the short overload forwards the full length
    for fn in ctx.F.insts('Spectra::argsort'):
        if len(fn.params) == 2:
            pn = [fn.locals[v]['name'] for v in fn.params]
            rets = [x for x in fn.walk() if x['k'] == 'ReturnStmt']
            t = sym(fn, rets[0]['value'], inline=False)
            ok = t == ('call', 'argsort', ('P', pn[0]), ('P', pn[1]), ('size', ('P', pn[1])))
            ctx.check(ok, rule, 'argsort/default-length', fn.qname, 'forwards (rule, values, values.size())' if ok else 'forwards %s' % show(t))


def sort_comparators_strict(ctx, rule='sort-comparator-is-irreflexive'):
    """std::sort and friends require a strict weak ordering; comp(a, a) must be false.  A comparator that answers true on a tie
    (>=, <=, !(a < b)) makes the unguarded partition of introsort run past the range for more than 16 elements.  Every
    comparator handed to a standard sorting algorithm in the library is evaluated in the TIE case -- the two compared keys are
    equal, so `<`, `>`, `!=` between them are false and `<=`, `>=`, `==` true -- for every value of the booleans it captures;
    it must come out false.  Functor comparators (the library's SortEigenvalue) are decided by the comparator rule."""
    ALGOS = ('sort', 'stable_sort', 'partial_sort', 'nth_element', 'sort_heap', 'make_heap', 'lower_bound', 'upper_bound')
    n = 0
    for fn in ctx.F.concrete():
        if not fn.cfg or not fn.qname.startswith('Spectra::'):
            continue
        for c in fn.walk():
            if c['k'] != 'CallExpr' or c.get('callee') not in ALGOS or not (c.get('cq') or '').startswith('std::'):
                continue
            args = fn.call_args(c)
            if len(args) < 3:
                n += 1
                ctx.ok(rule, '%s/%s' % (fn.qname.split('::')[-1], c['callee']), fn.qname, 'default operator< of the element type')
                continue
            comp = None
            for y in fn.walk(args[-1]['id']):
                if y['k'] == 'LambdaExpr':
                    comp = y
                    break
            if comp is None:
                n += 1
                ctx.ok(rule, '%s/%s' % (fn.qname.split('::')[-1], c['callee']), fn.qname, 'functor comparator (decided by comparator-and-full-range-sort)')
                continue
            n += 1
            body = [fn.nodes[k_] for k_ in comp.get('c', []) if fn.nodes[k_]['k'] == 'CompoundStmt']
            if not body:
                raise AnalysisBroken('%s: lambda comparator body not found' % fn.qname)
            env = {}
            outcomes = set()

            def ev(nd, env):
                nd = fn.strip(nd)
                if nd is None:
                    return {None}
                k = nd['k']
                if k == 'CXXBoolLiteralExpr':
                    return {nd['val'] == 'true'}
                if k == 'DeclRefExpr' and 'var' in nd:
                    if nd['var'] in env:
                        return env[nd['var']]
                    if fn.locals[nd['var']]['type'].replace('const ', '') == 'bool':
                        return {True, False}           # a captured flag: both values
                    return {None}
                if k == 'UnaryOperator' and nd.get('op') == '!':
                    return {(None if v is None else (not v)) for v in ev(fn.nodes[nd['c'][0]], env)}
                if k == 'BinaryOperator' and nd.get('op') in ('<', '>', '!=', '<=', '>=', '=='):
                    return {nd['op'] in ('<=', '>=', '==')}     # tie case: both sides are the same key of equal elements
                if k == 'BinaryOperator' and nd.get('op') in ('&&', '||'):
                    out = set()
                    for a in ev(fn.nodes[nd['c'][0]], env):
                        for b in ev(fn.nodes[nd['c'][1]], env):
                            if nd['op'] == '&&':
                                out.add(False if (a is False or b is False) else (None if (a is None or b is None) else True))
                            else:
                                out.add(True if (a is True or b is True) else (None if (a is None or b is None) else False))
                    return out
                if k == 'ConditionalOperator':
                    out = set()
                    for cv in ev(fn.nodes[nd['c'][0]], env):
                        if cv is None or cv:
                            out |= ev(fn.nodes[nd['c'][1]], env)
                        if cv is None or not cv:
                            out |= ev(fn.nodes[nd['c'][2]], env)
                    return out
                if k == 'CXXOperatorCallExpr' and nd.get('op') in ('<', '>', '!=', '<=', '>=', '=='):
                    return {nd['op'] in ('<=', '>=', '==')}
                return {None}
            for st in fn.kids(body[0]):
                if st['k'] == 'DeclStmt':
                    for d in st['decls']:
                        if 'init' in d and 'var' in d:
                            env[d['var']] = ev(fn.nodes[d['init']], env)
                elif st['k'] == 'ReturnStmt':
                    outcomes |= ev(fn.nodes[st['value']], env)
            inst = '%s/%s(lambda)' % (fn.qname.split('::')[-1], c['callee'])
            if None in outcomes:
                raise AnalysisBroken('%s: lambda comparator outside the order domain (%s)' % (fn.qname, fn.s(comp['id'])[:60]))
            ctx.check(True not in outcomes and bool(outcomes), rule, inst, fn.qname,
                      'false on a tie for every value of the captured flags' if True not in outcomes and outcomes else
                      'the comparator `%s` answers TRUE for two elements with equal keys (for some value of its captured flags): not a strict weak ordering; std::sort may read and write outside the range for more than 16 elements with ties' % fn.s(comp['id'])[:110])
    if n < 1:
        raise AnalysisBroken('no standard sorting call found')


def run(ctx):
    sort_comparators_strict(ctx)
    keys(ctx)
    dispatch(ctx)
    comparator(ctx)
    both_ends(ctx)
    ctx.require('sort-key-matches-rule-name', 16)
    ctx.require('dispatch-arm-matches-case-label', 4)
