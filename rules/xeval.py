"""Evaluation of ONE extracted integer / boolean expression under a valuation of its leaves.

Used to normalise small predicates (range checks, status expressions, restart-size clamps): the
expression only compares and combines integers, so its meaning is fixed by its value on the finite set
of orderings of its leaves; rules enumerate those orderings.  No program path is executed: the input
is a single expression tree taken from the AST."""


class CannotEval(Exception):
    pass


def leaf_key(fn, n):
    """Canonical key of a leaf: ('field', name) | ('local', name) | None."""
    n = fn.strip(n)
    if n is None:
        return None
    if n['k'] == 'MemberExpr' and n.get('mk') == 'field':
        f = fn.field_name(n)
        if f:
            return ('field', f)
    if n['k'] == 'DeclRefExpr' and 'var' in n:
        return ('local', n['name'])
    return None


def leaves(fn, n):
    out = set()
    for x in fn.walk(n):
        if x['k'] == 'MemberExpr' and x.get('mk') == 'field' and fn.field_name(x):
            out.add(('field', x['member']))
        elif x['k'] == 'DeclRefExpr' and 'var' in x:
            out.add(('local', x['name']))
    return out


def ev(fn, n, env, calls=None):
    """env: {('field', name) | ('local', name): int}.  Returns int, bool, or ('enum', name)."""
    n = fn.strip(n)
    if n is None:
        raise CannotEval('null')
    k = n['k']
    if k in ('IntegerLiteral',):
        return int(n['val'])
    if k == 'CXXBoolLiteralExpr':
        return n['val'] == 'true'
    if k == 'FloatingLiteral':
        return float(n['val'])
    if k == 'DeclRefExpr':
        if n.get('dk') == 'enumerator':
            return ('enum', n['name'])
        key = leaf_key(fn, n)
        if key in env:
            return env[key]
        if 'cval' in n:
            return int(n['cval'])
        raise CannotEval('unbound ' + n.get('name', '?'))
    if k == 'MemberExpr':
        key = leaf_key(fn, n)
        if key in env:
            return env[key]
        raise CannotEval('unbound member ' + n.get('member', '?'))
    if k == 'UnaryOperator':
        v = ev(fn, n['c'][0], env, calls)
        op = n['op']
        if op == '!':
            return not v
        if op == '-':
            return -v
        if op == '+':
            return v
        raise CannotEval('unary ' + op)
    if k == 'BinaryOperator':
        op = n['op']
        if op == '&&':
            return bool(ev(fn, n['c'][0], env, calls)) and bool(ev(fn, n['c'][1], env, calls))
        if op == '||':
            return bool(ev(fn, n['c'][0], env, calls)) or bool(ev(fn, n['c'][1], env, calls))
        a = ev(fn, n['c'][0], env, calls)
        b = ev(fn, n['c'][1], env, calls)
        if op == '+':
            return a + b
        if op == '-':
            return a - b
        if op == '*':
            return a * b
        if op == '/':
            if b == 0:
                raise CannotEval('div0')
            if isinstance(a, int) and isinstance(b, int):
                q = abs(a) // abs(b)
                return q if (a >= 0) == (b >= 0) else -q
            return a / b
        if op == '%':
            if b == 0:
                raise CannotEval('mod0')
            r = abs(a) % abs(b)
            return r if a >= 0 else -r
        if op == '&':
            return a & b
        if op == '|':
            return a | b
        if op == '^':
            return a ^ b
        if op == '<<':
            return a << b
        if op == '>>':
            return a >> b
        if op == '<':
            return a < b
        if op == '<=':
            return a <= b
        if op == '>':
            return a > b
        if op == '>=':
            return a >= b
        if op == '==':
            return a == b
        if op == '!=':
            return a != b
        raise CannotEval('binary ' + op)
    if k == 'ConditionalOperator':
        c = ev(fn, n['c'][0], env, calls)
        return ev(fn, n['c'][1 if c else 2], env, calls)
    if k == 'CallExpr':
        name = n.get('callee')
        args = fn.call_args(n)
        if name in ('min', 'max') and n.get('org') != 'S' and len(args) == 2:
            a = ev(fn, args[0], env, calls)
            b = ev(fn, args[1], env, calls)
            return min(a, b) if name == 'min' else max(a, b)
        if calls and name in calls:
            return calls[name]([ev(fn, a, env, calls) for a in args])
        raise CannotEval('call ' + str(name))
    if k in ('CXXMemberCallExpr', 'CXXOperatorCallExpr'):
        if calls:
            s = fn.s(n)
            if s in calls:
                return calls[s]([])
        raise CannotEval('call ' + fn.s(n))
    if 'cval' in n:
        return int(n['cval'])
    raise CannotEval(k)
