"""SIG: abstract evaluation of ONE straight-line operator body / ONE expression in the field of rational functions of
(lambda, sigma): the spectral map nu(lambda) an operator adaptor realises on an eigenvector of the pencil, and the
back-transformation g(nu) a solver applies to the Ritz values.  Value numbering to a normal form, no paths, no solver."""
from fractions import Fraction
from .facts import AnalysisBroken
from .sym import sym, show


# ---------------------------------------------------------------------------------------------------
# polynomials in (l, s) as {(i, j): coeff};  rational functions as (num, den)
# ---------------------------------------------------------------------------------------------------
def P(c=0, l=0, s=0):
    return {(l, s): Fraction(c)} if c != 0 else {}


def padd(a, b, sign=1):
    r = dict(a)
    for k, v in b.items():
        r[k] = r.get(k, 0) + sign * v
        if r[k] == 0:
            del r[k]
    return r


def pmul(a, b):
    r = {}
    for (i, j), v in a.items():
        for (k, m), w in b.items():
            key = (i + k, j + m)
            r[key] = r.get(key, 0) + v * w
            if r[key] == 0:
                del r[key]
    return r


class RF:
    def __init__(self, num, den=None):
        self.n = num
        self.d = den if den is not None else P(1)
        if not self.d:
            raise AnalysisBroken('division by the zero polynomial in a spectral map')

    @staticmethod
    def const(c):
        return RF(P(Fraction(c)))

    def __add__(self, o):
        return RF(padd(pmul(self.n, o.d), pmul(o.n, self.d)), pmul(self.d, o.d))

    def __sub__(self, o):
        return RF(padd(pmul(self.n, o.d), pmul(o.n, self.d), -1), pmul(self.d, o.d))

    def __mul__(self, o):
        return RF(pmul(self.n, o.n), pmul(self.d, o.d))

    def __truediv__(self, o):
        if not o.n:
            raise AnalysisBroken('division by zero in a spectral map')
        return RF(pmul(self.n, o.d), pmul(self.d, o.n))

    def __eq__(self, o):
        return padd(pmul(self.n, o.d), pmul(o.n, self.d), -1) == {}

    def compose(self, nu):
        """self as a function of lambda, evaluated at lambda := nu (a rational function)."""
        def ev(p):
            out = RF(P(0))
            for (i, j), c in p.items():
                term = RF(P(c, 0, j))
                for _ in range(i):
                    term = term * nu
                out = out + term
            return out
        return ev(self.n) / ev(self.d)

    def __repr__(self):
        def ps(p):
            if not p:
                return '0'
            ts = []
            for (i, j), c in sorted(p.items(), reverse=True):
                t = ('%s' % (c if c.denominator != 1 else c.numerator)) if (c != 1 or (i == 0 and j == 0)) else ''
                t += ('l' + ('^%d' % i if i > 1 else '')) if i else ''
                t += ('s' + ('^%d' % j if j > 1 else '')) if j else ''
                ts.append(t)
            return ' + '.join(ts).replace('+ -', '- ')
        return '(%s)/(%s)' % (ps(self.n), ps(self.d))


LAM = RF(P(1, 1, 0))
SIG = RF(P(1, 0, 1))

# documented spectral maps (class documentation of the solvers)
DOC_MAP = {
    'ShiftInvert': RF.const(1) / (LAM - SIG),
    'Buckling': LAM / (LAM - SIG),
    'Cayley': (LAM + SIG) / (LAM - SIG),
}
# what the (op, Bop) pair of each mode does to an eigenvector x of the user's pencil:  op(Bop x) = kappa * x
#   ShiftInvert / Cayley: A x = l B x, op = inv(A - s B), Bop = B  =>  inv(A - sB) B x = x / (l - s)
#   Buckling:             K x = l KG x, op = inv(K - s KG), Bop = K =>  inv(K - sKG) K x = l/(l - s) x
KAPPA = {
    'Spectra::SymGEigsShiftInvertOp': RF.const(1) / (LAM - SIG),
    'Spectra::SymGEigsCayleyOp': RF.const(1) / (LAM - SIG),
    'Spectra::SymGEigsBucklingOp': LAM / (LAM - SIG),
}


# ---------------------------------------------------------------------------------------------------
# scalar expressions over (nu, sigma)
# ---------------------------------------------------------------------------------------------------
def scalar(t, env):
    """Normal form t -> RF.  env: {normal-form leaf: RF}."""
    if t in env:
        return env[t]
    if not isinstance(t, tuple):
        raise AnalysisBroken('spectral map: cannot evaluate %r' % (t,))
    h = t[0]
    if h == 'lit':
        return RF.const(Fraction(t[1]))
    if h in ('+', '-', '*', '/') and len(t) == 3:
        a, b = scalar(t[1], env), scalar(t[2], env)
        return a + b if h == '+' else a - b if h == '-' else a * b if h == '*' else a / b
    if h == 'u-':
        return RF.const(0) - scalar(t[1], env)
    if h in ('ctor',) and len(t) == 3:
        return scalar(t[2], env)
    if h in ('array', 'matrix', 'eval') and len(t) == 2:
        return scalar(t[1], env)
    raise AnalysisBroken('spectral map: unsupported expression %s' % show(t))


# ---------------------------------------------------------------------------------------------------
# operator bodies: vectors are (coefficient RF, basis) with basis in {'x', 'Bx'}
# ---------------------------------------------------------------------------------------------------
def operator_map(ctx, fn, kappa):
    """nu such that perform_op maps an eigenvector x (eigenvalue lambda) of the pencil to nu * x."""
    pn = [fn.locals[v]['name'] for v in fn.params]
    if len(pn) != 2:
        raise AnalysisBroken('%s: unexpected signature' % fn.qname)
    vec = {('P', pn[0]): (RF.const(1), 'x')}
    alias = {}
    senv = {('F', 'm_sigma'): SIG}

    def buf(t):
        # buffer designated by an argument / expression normal form
        if isinstance(t, tuple) and t[0] == 'data':
            t = t[1]
        if isinstance(t, tuple) and t[0] in ('noalias', 'array', 'matrix'):
            t = t[1]
        return alias.get(t, t)

    def vexpr(t):
        t0 = buf(t)
        if t0 in vec:
            return vec[t0]
        if isinstance(t, tuple) and t[0] in ('+', '-') and len(t) == 3:
            a, b = vexpr(t[1]), vexpr(t[2])
            if a[1] != b[1]:
                raise AnalysisBroken('%s: adds vectors of different kinds' % fn.qname)
            return ((a[0] + b[0]) if t[0] == '+' else (a[0] - b[0]), a[1])
        if isinstance(t, tuple) and t[0] == '*' and len(t) == 3:
            for sc, ve in ((t[1], t[2]), (t[2], t[1])):
                try:
                    v = vexpr(ve)
                except AnalysisBroken:
                    continue
                return (scalar(sc, senv) * v[0], v[1])
        raise AnalysisBroken('%s: cannot evaluate vector expression %s' % (fn.qname, show(t)))

    body = fn.nodes[fn.body]
    for st in fn.kids(body):
        k = st['k']
        n = fn.strip(st, explicit_casts=False)
        if n['k'] == 'DeclStmt':
            for d in n['decls']:
                if 'init' in d:
                    t = sym(fn, d['init'], inline=False)
                    name = ('L', fn.locals[d['var']]['name'])
                    if t[0] == 'ctor' and t[1] in ('Eigen::Map',):
                        alias[name] = buf(t[2])
                    elif isinstance(t, tuple) and t[0] in ('P', 'F'):
                        alias[name] = t
                    else:
                        alias[name] = buf(t) if buf(t) != t else name
            continue
        if n['k'] == 'CXXMemberCallExpr' and n.get('callee') in ('perform_op', 'solve', 'lower_triangular_solve', 'upper_triangular_solve'):
            obj = sym(fn, fn.call_object(n), inline=False)
            a = [sym(fn, y, inline=False) for y in fn.call_args(n)]
            src, dst = buf(a[0]), buf(a[1])
            if src not in vec:
                raise AnalysisBroken('%s: operator applied to an undefined buffer %s' % (fn.qname, show(a[0])))
            c, b = vec[src]
            if n['callee'] != 'perform_op':
                raise AnalysisBroken('%s: %s is outside the spectral-map domain' % (fn.qname, n['callee']))
            if obj == ('F', 'm_Bop'):
                if b != 'x':
                    raise AnalysisBroken('%s: B applied to a vector that is not a multiple of x' % fn.qname)
                vec[dst] = (c, 'Bx')
            elif obj == ('F', 'm_op'):
                if b != 'Bx':
                    raise AnalysisBroken('%s: the shift-invert operator is applied to a vector that is not B x' % fn.qname)
                vec[dst] = (c * kappa, 'x')
            else:
                raise AnalysisBroken('%s: unknown operator %s' % (fn.qname, show(obj)))
            continue
        if n['k'] in ('CXXOperatorCallExpr', 'BinaryOperator', 'CompoundAssignOperator') and n.get('op') in ('=', '*=', '+=', '-=', '/='):
            t = sym(fn, n, inline=False)
            dst = buf(t[1])
            if n['op'] == '=':
                vec[dst] = vexpr(t[2])
            elif n['op'] in ('*=', '/='):
                c, b = vec[dst]
                s_ = scalar(t[2], senv)
                vec[dst] = ((c * s_) if n['op'] == '*=' else (c / s_), b)
            else:
                a, b2 = vec[dst], vexpr(t[2])
                if a[1] != b2[1]:
                    raise AnalysisBroken('%s: adds vectors of different kinds' % fn.qname)
                vec[dst] = ((a[0] + b2[0]) if n['op'] == '+=' else (a[0] - b2[0]), a[1])
            continue
        raise AnalysisBroken('%s: statement %s at %s is outside the spectral-map domain' % (fn.qname, n['k'], fn.loc(n)))
    out = vec.get(('P', pn[1]))
    if out is None or out[1] != 'x':
        raise AnalysisBroken('%s: the output buffer is not a multiple of x' % fn.qname)
    return out[0]
