"""Normal form of ONE expression as nested tuples (value numbering of a single expression tree).

Locals with exactly one definition (their declaration initialiser) are inlined, implicit wrappers and
value-preserving Eigen adaptors are dropped, commutative operators are sorted.  No path conditions, no
solver: this is a canonical print of an AST, used to compare an expression with the formula stated in a
property (e.g. the convergence test, the spectral back-transformations)."""
from .facts import AnalysisBroken

COMMUTATIVE = {'+', '*', '==', '!=', '&&', '||', 'max', 'min', 'cwiseMax', 'cwiseMin'}
TRANSPARENT_METHODS = {'array', 'matrix', 'noalias', 'eval', 'derived', 'const_cast_derived', 'nestedExpression'}


def single_defs(fn):
    """varid -> init node id for locals that are declared with an initialiser and never written again."""
    defs = {}
    written = set()
    for n in fn.walk():
        k = n['k']
        if k == 'DeclStmt':
            for d in n.get('decls', []):
                if 'var' in d and 'init' in d:
                    defs[d['var']] = d['init']
        elif k in ('BinaryOperator', 'CompoundAssignOperator') and n.get('op', '').endswith('=') and n['op'] not in ('==', '!=', '<=', '>='):
            l = fn.strip(fn.nodes[n['c'][0]])
            if l and l['k'] == 'DeclRefExpr' and 'var' in l:
                written.add(l['var'])
        elif k == 'UnaryOperator' and n.get('op') in ('++', '--'):
            l = fn.strip(fn.nodes[n['c'][0]])
            if l and l['k'] == 'DeclRefExpr' and 'var' in l:
                written.add(l['var'])
        elif k == 'CXXOperatorCallExpr' and n.get('op') in ('=', '+=', '-=', '*=', '/='):
            if len(n['c']) > 1:
                l = fn.strip(fn.nodes[n['c'][1]])
                if l and l['k'] == 'DeclRefExpr' and 'var' in l:
                    written.add(l['var'])
    return {v: i for v, i in defs.items() if v not in written}


def sym(fn, n, inline=True, _defs=None, _depth=0):
    if _defs is None:
        _defs = single_defs(fn) if inline else {}
    if _depth > 60:
        raise AnalysisBroken('expression too deep in %s' % fn.qname)
    S = lambda x: sym(fn, x, inline, _defs, _depth + 1)
    if isinstance(n, int):
        n = fn.nodes[n]
    n = fn.strip(n, explicit_casts=True)
    if n is None:
        return ('null',)
    k = n['k']
    if k in ('IntegerLiteral', 'FloatingLiteral'):
        v = n['val']
        try:
            f = float(v)
            if f == int(f):
                v = str(int(f))
        except ValueError:
            pass
        return ('lit', v)
    if k == 'CXXBoolLiteralExpr':
        return ('lit', n['val'])
    if k == 'DeclRefExpr':
        dk = n.get('dk')
        if dk == 'param':
            return ('P', n['name'])
        if dk == 'local':
            if n['var'] in _defs:
                return S(_defs[n['var']])
            return ('L', n['name'])
        if dk == 'enumerator':
            return ('enum', n['name'])
        if dk == 'function':
            return ('fn', n['name'])
        return ('G', n.get('name'))
    if k == 'CXXThisExpr':
        return ('this',)
    if k == 'MemberExpr':
        if n.get('mk') == 'field':
            b = fn.strip(fn.nodes[n['c'][0]]) if n.get('c') else None
            if b is None or b['k'] == 'CXXThisExpr':
                return ('F', n['member'])
            return ('.', S(b), n['member'])
        return ('method', n['member'])
    if k in ('BinaryOperator', 'CompoundAssignOperator'):
        op = n['op']
        a, b = S(n['c'][0]), S(n['c'][1])
        if op == '>':
            op, a, b = '<', b, a
        elif op == '>=':
            op, a, b = '<=', b, a
        if op in COMMUTATIVE and repr(b) < repr(a):
            a, b = b, a
        return (op, a, b)
    if k == 'UnaryOperator':
        return ('u' + n['op'], S(n['c'][0]))
    if k == 'ConditionalOperator':
        return ('?:', S(n['c'][0]), S(n['c'][1]), S(n['c'][2]))
    if k == 'CXXMemberCallExpr':
        name = n.get('callee', '?')
        obj = fn.call_object(n)
        args = [S(a) for a in fn.call_args(n) if a['k'] != 'CXXDefaultArgExpr']
        o = S(obj) if obj is not None else ('this',)
        if name in TRANSPARENT_METHODS and not args:
            return o
        if name.startswith('operator ') and not args:      # conversion operator
            return o
        if name in COMMUTATIVE and len(args) == 1:
            a, b = o, args[0]
            if repr(b) < repr(a):
                a, b = b, a
            return (name, a, b)
        return (name, o) + tuple(args)
    if k == 'CXXOperatorCallExpr':
        op = n.get('op', '?')
        ops = [S(a) for a in fn.call_args(n)]
        if op == '>' and len(ops) == 2:
            op, ops = '<', [ops[1], ops[0]]
        elif op == '>=' and len(ops) == 2:
            op, ops = '<=', [ops[1], ops[0]]
        # overloaded operators are NOT reordered: a matrix product does not commute (match() tries both orders
        # where a pattern says the operator is commutative)
        if op == '-' and len(ops) == 1:
            return ('u-', ops[0])
        return (op,) + tuple(ops)
    if k == 'CallExpr':
        name = n.get('callee', '?')
        args = [S(a) for a in fn.call_args(n) if a['k'] != 'CXXDefaultArgExpr']
        if name in COMMUTATIVE and len(args) == 2 and repr(args[1]) < repr(args[0]):
            args = [args[1], args[0]]
        if name in ('real', 'conj') and len(args) == 1 and n.get('t') in ('double', 'float', 'long double') and False:
            return args[0]
        return ('call', name) + tuple(args)
    if k in ('CXXConstructExpr', 'CXXTemporaryObjectExpr'):
        args = [S(a) for a in fn.call_args(n) if a['k'] != 'CXXDefaultArgExpr']
        if len(args) == 1 and (n.get('copy') or n.get('move') or not n.get('temp')):
            return args[0]
        return ('ctor', n.get('ctor_of', '?')) + tuple(args)
    if k == 'ArraySubscriptExpr':
        return ('[]', S(n['c'][0]), S(n['c'][1]))
    if k == 'CXXDefaultArgExpr':
        return ('default',)
    if k == 'LambdaExpr':
        return ('lambda',)
    if k == 'InitListExpr':
        return ('list',) + tuple(S(c) for c in n.get('c', []))
    if k == 'CXXScalarValueInitExpr':
        return ('lit', '0')
    if k == 'CXXNewExpr':
        return ('new', n.get('alloc', '')) + tuple(S(c) for c in n.get('c', []))
    if k == 'CXXConstCastExpr' or k == 'CXXReinterpretCastExpr':
        return (k, S(n['c'][0]))
    if k == 'StringLiteral':
        return ('str', n.get('val', ''))
    if k == 'CXXNullPtrLiteralExpr' or k == 'GNUNullExpr':
        return ('lit', 'null')
    raise AnalysisBroken('sym: unsupported node %s at %s' % (k, fn.loc(n)))


def contains(t, pred):
    if pred(t):
        return True
    if isinstance(t, tuple):
        return any(contains(x, pred) for x in t[1:] if isinstance(x, tuple))
    return False


def atoms(t, out=None):
    """All ('F', x) / ('P', x) / ('L', x) / ('lit', v) / ('call', name) heads below t."""
    if out is None:
        out = set()
    if isinstance(t, tuple):
        if t and t[0] in ('F', 'P', 'L', 'lit', 'enum'):
            out.add(t)
        elif t and t[0] == 'call':
            out.add(('call', t[1]))
            for x in t[2:]:
                atoms(x, out)
        else:
            for x in t[1:]:
                atoms(x, out)
    return out


def show(t):
    if not isinstance(t, tuple):
        return str(t)
    h = t[0]
    if h in ('F', 'P', 'L', 'lit', 'enum', 'G', 'fn'):
        return str(t[1])
    if h == 'call':
        return '%s(%s)' % (t[1], ', '.join(show(x) for x in t[2:]))
    if h in ('+', '-', '*', '/', '<', '<=', '==', '!=', '&&', '||', '%') and len(t) == 3:
        return '(%s %s %s)' % (show(t[1]), h, show(t[2]))
    if h.startswith('u') and len(t) == 2:
        return h[1:] + show(t[1])
    return '%s(%s)' % (h, ', '.join(show(x) for x in t[1:]))


def match(pat, t, b):
    """Structural match of a pattern against a normal form.  Pattern leaves ('?', NAME) bind any term
    (('?F', NAME) only fields, ('?P', NAME) only parameters); commutative heads match in either order.
    b: dict of bindings (updated).  Returns True / False."""
    if isinstance(pat, tuple) and pat and pat[0] in ('?', '?F', '?P'):
        if pat[0] == '?F' and not (isinstance(t, tuple) and t[0] == 'F'):
            return False
        if pat[0] == '?P' and not (isinstance(t, tuple) and t[0] == 'P'):
            return False
        if pat[1] in b:
            return b[pat[1]] == t
        b[pat[1]] = t
        return True
    if not isinstance(pat, tuple) or not isinstance(t, tuple):
        return pat == t
    if len(pat) != len(t) or pat[0] != t[0]:
        return False
    if pat[0] in COMMUTATIVE and len(pat) == 3:
        for order in ((1, 2), (2, 1)):
            b2 = dict(b)
            if match(pat[1], t[order[0]], b2) and match(pat[2], t[order[1]], b2):
                b.clear()
                b.update(b2)
                return True
        return False
    if pat[0] == 'call' and len(pat) == 4 and pat[1] in COMMUTATIVE:
        if pat[1] != t[1]:
            return False
        for order in ((2, 3), (3, 2)):
            b2 = dict(b)
            if match(pat[2], t[order[0]], b2) and match(pat[3], t[order[1]], b2):
                b.clear()
                b.update(b2)
                return True
        return False
    b2 = dict(b)
    for p, x in zip(pat[1:], t[1:]):
        if not match(p, x, b2):
            return False
    b.clear()
    b.update(b2)
    return True
