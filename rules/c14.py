"""C14 -- a failing user operator is contained (structural clauses)."""
from .facts import AnalysisBroken
from . import hygiene, c06

EXPLANATION = (
    'Who-may-call, ownership and definite-reassignment rules over every function body under include/Spectra (patterns and '
    'instantiations). Decides: (D1) the library contains no try/catch and no noexcept function (destructors do not throw), so an '
    'exception thrown by the user\'s operator at any application propagates unchanged -- cross-checked on the LLVM IR: no '
    'function of namespace Spectra references the catch machinery (__cxa_begin_catch / rethrow); (D2) every new-expression is '
    'handed directly to an owning smart pointer, no delete / malloc, no raw pointer field to a library object: nothing can be '
    'leaked by unwinding, all solver state is value-semantic; (D3) a new init() overwrites every field compute() may read '
    '(the C06 re-initialisation rule), whatever partial state the interrupted run left; (D4) a change of the operator made '
    'during compute() is undone by an RAII guard, i.e. also on the exceptional exit. Positive controls must match on every '
    'run. Does NOT decide bit-identity of the re-run (assumes deterministic kernels, as C06).')
ASSUMPTIONS = c06.ASSUMPTIONS + ['exceptions thrown by Eigen itself (std::bad_alloc) unwind through value-semantic objects']


def run(ctx):
    hygiene.handlers(ctx)
    n = hygiene.raw_allocation(ctx)
    hygiene.ir_externals(ctx)
    k = c06.reinit_complete(ctx)
    c06.basis_prefix_discipline(ctx)
    c06.operator_mutation(ctx)
    c06.caches_stateless(ctx)
    if n < 3 or k < 10:
        raise AnalysisBroken('allocation sites %d, init/compute pairs %d: fewer than confirmed by hand' % (n, k))
